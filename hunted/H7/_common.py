"""shared by bug*.py: differential run of a script against its converted text"""
import sys, os, io, contextlib, itertools, subprocess, json, tempfile

sys.path.insert(0, os.environ["OLREPO"])
import oneliner
from oneliner import Configs

COMBOS = list(itertools.product(["ast.unparse", "oneliner"], ["list", "chain_call"], ["if_expr", "short_circuit"]))


def convert(src, combo):
    c = Configs()
    c.unparser, c.expr_wrapper, c.if_style = combo
    return oneliner.convert_code_string(src, configs=c)


def _run(code, mode):
    ns = {"__name__": "__main__"}
    buf = io.StringIO()
    err = None
    with contextlib.redirect_stdout(buf):
        try:
            (exec if mode == "exec" else eval)(compile(code, "<%s>" % mode, mode), ns)
        except BaseException as e:
            err = "%s: %s" % (type(e).__name__, e)
    return buf.getvalue(), err


def differs(src, combo):
    """None when the converted text behaves like the script, else a description"""
    exp = _run(src, "exec")
    assert exp[1] is None, "the script itself fails: %s" % exp[1]
    try:
        text = convert(src, combo)
    except BaseException as e:
        return "conversion raised %s: %s" % (type(e).__name__, e)
    got = _run(text, "eval")
    if got != exp:
        return "expected stdout %r, got stdout %r, exception %s" % (exp[0], got[0], got[1])
    return None


RUNNER = r"""
import sys, io, contextlib, json
def run(code, mode):
    ns = {"__name__": "__main__"}
    buf = io.StringIO(); err = None
    with contextlib.redirect_stdout(buf):
        try:
            (exec if mode == "exec" else eval)(compile(code, "<x>", mode), ns)
        except BaseException as e:
            err = "%s: %s" % (type(e).__name__, str(e)[:80])
    return [buf.getvalue(), err]
job = json.load(open(sys.argv[1]))
print(json.dumps([run(job["src"], "exec"), run(job["text"], "eval")]))
"""


def differs_on(py, src, text):
    """run script and converted text on interpreter `py`"""
    with tempfile.TemporaryDirectory() as d:
        open(os.path.join(d, "r.py"), "w").write(RUNNER)
        json.dump({"src": src, "text": text}, open(os.path.join(d, "j.json"), "w"))
        p = subprocess.run([py, os.path.join(d, "r.py"), os.path.join(d, "j.json")], capture_output=True, text=True)
        exp, got = json.loads(p.stdout)
    assert exp[1] is None, "the script itself fails on %s: %s" % (py, exp[1])
    if exp != got:
        return "expected stdout %r, got stdout %r, exception %s" % (exp[0][-60:], got[0][-60:], got[1])
    return None
