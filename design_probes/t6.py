from p import run
run("a={'x':1}\nprint({**a, 'y':2})", True, True)
run("""
def f():
    y = 10
    def g():
        nonlocal y
        y += 1
    h = lambda x=y: x
    g()
    return h(), y
print(f())
""", True, True)
run("""
def f(a, b=[]):
    def g():
        return a
    return g()
print(f(3))
""", True, False)
run("""
class M(type):
    pass
def B():
    print('bases'); return object
def K():
    print('meta'); return M
class A(B(), metaclass=K()):
    pass
print(type(A).__name__)
""", True, False)
run("import os.path as p, sys as s\nprint(p.sep, s is __import__('sys'))", True, False)
run("""
def f():
    import os.path
    return os.path.sep
print(f())
""", True, False)
