"""The target of a for loop is emitted as a bare comprehension variable, but reads of that name inside
the loop body go through the storage of the enclosing namespace: the class dict in a class body
(KeyError at run time).  The same happens in a function when the loop variable is captured by a nested def
(nonlocal dict)."""
import os, sys, io, contextlib, itertools
sys.path.insert(0, os.environ["OLREPO"])
import oneliner
from oneliner.config import Configs

COMBOS = list(itertools.product(["ast.unparse", "oneliner"], ["list", "chain_call"], ["if_expr", "short_circuit"]))


def run(kind, payload):
    g = {"__name__": "__main__"}
    buf = io.StringIO()
    exc = None
    with contextlib.redirect_stdout(buf):
        try:
            if kind == "exec":
                exec(compile(payload, "<orig>", "exec"), g)
            else:
                eval(compile(payload, "<conv>", "eval"), g)
        except BaseException as e:
            exc = type(e).__name__ + ": " + str(e)
    return buf.getvalue(), exc


def differential(src):
    """exec(src) versus eval(convert(src)) under all 8 option combinations"""
    expected = run("exec", src)
    print("original :", expected)
    failures = 0
    for unparser, wrapper, if_style in COMBOS:
        c = Configs()
        c.unparser, c.expr_wrapper, c.if_style = unparser, wrapper, if_style
        try:
            text = oneliner.convert_code_string(src, configs=c)
        except BaseException as e:
            actual = ("<conversion failed>", type(e).__name__ + ": " + str(e))
        else:
            actual = run("eval", text)
        same = actual[0] == expected[0] and (actual[1] or "").split(":")[0] == (expected[1] or "").split(":")[0]
        if not same:
            failures += 1
            print("MISMATCH", (unparser, wrapper, if_style), "->", actual)
    return failures


SRC = '''class Table:
    squares = {}
    for n in range(4):
        squares[n] = n * n
print(Table.squares)
'''


if __name__ == "__main__":
    n = differential(SRC)
    print("DEFECT SHOWN in %d/8 option combinations" % n if n else "no difference")
    sys.exit(1 if n else 0)
