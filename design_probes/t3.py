from p import run
import sys
sys.path.insert(0,'/repo')
import oneliner
from oneliner.config import Configs
run("""
class B:
    def __iadd__(self, v):
        return 999
x = B()
x += 1
print(x)
""", True, True)
run("""
class A:
    def __class_getitem__(cls, item):
        return (cls.__name__, item)
print(A[int])
""", True, False)
run("""
def f():
    print('f'); 
    class O: pass
    return O()
f().x = print('v')
""", True, True)
# config state
c = Configs(); c.unparser = "oneliner"
print('default after set on other instance:', Configs().unparser, oneliner.convert_code_string("a=1+2"))
c.unparser = "ast.unparse"
# sizes
import time
for (u,w) in [("ast.unparse","chain_call"),("ast.unparse","list"),("oneliner","chain_call"),("oneliner","list")]:
    for N in (400, 1200, 5000):
        c=Configs(); c.unparser=u; c.expr_wrapper=w
        src="\n".join(f"a{i}={i}" for i in range(N))
        try:
            t=time.time(); out=oneliner.convert_code_string(src,configs=c); 
            try:
                eval(compile(out,'o','eval'),{}); r='ok'
            except BaseException as e: r='EVAL-'+type(e).__name__
        except BaseException as e: r='CONV-'+type(e).__name__
        print(u,w,N,r, round(time.time()-t,2))
c=Configs(); c.unparser="ast.unparse"
for N in (200, 900, 3000):
    for u in ("ast.unparse","oneliner"):
        c=Configs(); c.unparser=u; c.expr_wrapper="list"
        src="x=5\nif x==0:\n    pass\n"+"".join(f"elif x=={i}:\n    pass\n" for i in range(1,N))
        try:
            compile(src,'s','exec'); s='src-ok'
        except BaseException as e: s='SRC-'+type(e).__name__
        try:
            out=oneliner.convert_code_string(src,configs=c)
            try:
                eval(compile(out,'o','eval'),{}); r='ok'
            except BaseException as e: r='EVAL-'+type(e).__name__
        except BaseException as e: r='CONV-'+type(e).__name__
        print('elif',u,N,s,r)
        src="x="+"+".join("1" for i in range(N))
        try:
            compile(src,'s','exec'); s='src-ok'
        except BaseException as e: s='SRC-'+type(e).__name__
        try:
            out=oneliner.convert_code_string(src,configs=c)
            try:
                eval(compile(out,'o','eval'),{}); r='ok'
            except BaseException as e: r='EVAL-'+type(e).__name__
        except BaseException as e: r='CONV-'+type(e).__name__
        print('binop',u,N,s,r)
