"""bug6 (latent, direct AST shapes only): an EMPTY ast.Set is written as `{}`, which is an empty DICT.
(ast.unparse writes `{*()}`.)  The parser never produces Set(elts=[]); the converter does not build one today.
"""
import ast
import os
import sys
from ast import *

sys.path.insert(0, os.environ["OLREPO"])
from oneliner.expr_unparse import expr_unparse

L = Load()
CASES = [
    ("Set([])", Set([])),
    ("Set([]) | {1}", BinOp(Set([]), BitOr(), Set([Constant(1)]))),
    ("Set([]).union('ab')", Call(Attribute(Set([]), "union", L), [Constant("a")], [])),
]
bad = 0
for label, tree in CASES:
    want = repr(eval(compile(ast.fix_missing_locations(Expression(tree)), "<tree>", "eval")))
    text = expr_unparse(tree)
    try:
        got = repr(eval(text, {}))
    except Exception as e:  # noqa
        got = "%s: %s" % (type(e).__name__, e)
    if got != want:
        bad += 1
        print("%-22s text=%-16r tree evaluates to %-8s text gives %s" % (label, text, want, got))
print("bug6:", "DEFECT PRESENT (%d differences)" % bad if bad else "not reproduced")
sys.exit(1 if bad else 0)
