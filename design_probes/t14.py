from p import run
run("class A:\n    def __setitem__(s,i,v): print('set',i,v)\n    def __getitem__(s,i):\n        print('get',i); return 0\na=A()\na[1:2, 3] = 0\na[1:2, ::3] += 1\na[4]=1\na[:]=2\na[1,2]=3", False)
run("def f():\n    d = {}\n    k = 'a'\n    def h():\n        return k\n    d[k] = 1\n    d[k, k] = 2\n    d[k] += 5\n    return d\nprint(f())", True)
