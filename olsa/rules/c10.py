"""C10 - conversion is a pure function of (source, options): effect analysis."""
from __future__ import annotations

import ast
import re

from ..core import AnalysisError, RuleResult
from ..interp_base import MUTATORS
from ..model import ClassInfo, ExtRef, FuncInfo, ModuleInfo, mentions_host_probe
from ..vals import Fresh, TNode
from .common import all_templates, kinds_label, path_events, short_ctx

EXPLANATION = (
    "Effect analysis over everything reachable from convert_code_string in the typed call graph "
    "plus the option API: every attribute store, item store, global write and mutating method call "
    "is classified by the abstract location it writes - fresh (allocated during this call), "
    "per-object (the instance parameter of a descriptor) or SHARED (module-level object, class "
    "attribute, descriptor instance owned by a class, default argument, alias of one of those). "
    "C10-R1 writes to shared locations; C10-R2 shared template objects that reach the output are "
    "never written (also checked on engine T's effects); C10-R3 a call without options creates a "
    "NEW options object; C10-R4 the RNG is confined to unique_id <- ol_name and fresh names flow "
    "only into identifiers, never into a branch condition; memoisation only of pure helpers; "
    "C10-R5 no environment dependence other than sys.version_info."
)
ASSUMPTIONS = ["user ASTs are parsed afresh per call, so aliasing of user nodes into the output is call-local"]

INIT_METHODS = {"__init__", "__set_name__", "__new__", "__init_subclass__", "__post_init__"}


def _root(node):
    """Root Name of an attribute/subscript/call chain and the chain length."""
    depth = 0
    through_call = False
    while True:
        if isinstance(node, ast.Attribute):
            node = node.value
            depth += 1
        elif isinstance(node, ast.Subscript):
            node = node.value
            depth += 1
        elif isinstance(node, ast.Call):
            node = node.func
            through_call = True
        else:
            break
    return (node.id if isinstance(node, ast.Name) else None), depth, through_call


def _first_attr(node):
    """For self.a.b...: the attribute directly on the root ('a')."""
    chain = []
    while isinstance(node, (ast.Attribute, ast.Subscript, ast.Call)):
        if isinstance(node, ast.Attribute):
            chain.append(node.attr)
            node = node.value
        elif isinstance(node, ast.Subscript):
            chain.append("[]")
            node = node.value
        else:
            node = node.func
    return chain[-1] if chain else None


class Effects:
    def __init__(self, ctx):
        self.ctx = ctx
        self.prog = ctx.prog
        self.cg = ctx.cg
        self.shared_instance_classes = self._shared_instance_classes()
        self.sites = []  # (fi, node, target text, classification, reason)
        self.param_writes = {}  # fq -> set of param names written through
        self.n_sites = 0

    def _shared_instance_classes(self):
        """Classes whose instances are created at module / class-body level (owned by a module or a
        class, hence shared by all calls), plus descriptors."""
        out = {}
        prog = self.prog
        for mi in prog.modules.values():
            in_funcs = set()
            for fn in ast.walk(mi.tree):
                if isinstance(fn, (ast.FunctionDef, ast.Lambda)):
                    for n in ast.walk(fn):
                        if isinstance(n, ast.Call):
                            in_funcs.add(id(n))
            for n in ast.walk(mi.tree):
                if isinstance(n, ast.Call) and id(n) not in in_funcs and isinstance(n.func, (ast.Name, ast.Attribute)):
                    r = prog.resolve_expr_static(mi, n.func)
                    if isinstance(r, ClassInfo):
                        out[r] = f"instantiated at module/class level ({mi.rel}:{n.lineno})"
        for ci in prog.all_classes():
            if any(m in ci.methods for m in ("__get__", "__set__", "__delete__")):
                out.setdefault(ci, "descriptor: its instances are owned by a class")
        return out

    def _module_level_names(self, mi: ModuleInfo):
        return set(mi.bindings) | {n for s in mi.star_imports for n in (self.prog.public_names(s) or [])}

    def _locals(self, fi):
        """name -> list of RHS nodes (None for params / loop targets over X)."""
        loc = {}
        a = fi.node.args
        for p in a.posonlyargs + a.args + a.kwonlyargs + ([a.vararg] if a.vararg else []) + ([a.kwarg] if a.kwarg else []):
            loc[p.arg] = [("param", None)]
        for n in ast.walk(fi.node):
            if isinstance(n, ast.Assign):
                for t in n.targets:
                    for nm in ([t] if isinstance(t, ast.Name) else [x for x in ast.walk(t) if isinstance(x, ast.Name) and isinstance(x.ctx, ast.Store)]):
                        if isinstance(nm, ast.Name):
                            loc.setdefault(nm.id, []).append(("assign", n.value))
            elif isinstance(n, ast.AnnAssign) and isinstance(n.target, ast.Name) and n.value is not None:
                loc.setdefault(n.target.id, []).append(("assign", n.value))
            elif isinstance(n, (ast.For, ast.comprehension)):
                for nm in ast.walk(n.target):
                    if isinstance(nm, ast.Name):
                        loc.setdefault(nm.id, []).append(("iter", n.iter))
            elif isinstance(n, ast.NamedExpr):
                loc.setdefault(n.target.id, []).append(("assign", n.value))
            elif isinstance(n, ast.With):
                for it in n.items:
                    if isinstance(it.optional_vars, ast.Name):
                        loc.setdefault(it.optional_vars.id, []).append(("assign", it.context_expr))
            elif isinstance(n, (ast.Import, ast.ImportFrom)) and n is not fi.node:
                for al in n.names:
                    loc.setdefault((al.asname or al.name).split(".")[0], []).append(("import", n))
            elif isinstance(n, ast.FunctionDef) and n is not fi.node:
                loc.setdefault(n.name, []).append(("def", n))
        return loc

    def classify_expr(self, fi, expr, loc, seen=None):
        """-> ('fresh'|'shared'|'param:<name>'|'self'|'unknown', reason)"""
        seen = seen or set()
        mi = fi.module
        if isinstance(expr, (ast.List, ast.Dict, ast.Set, ast.Tuple, ast.ListComp, ast.DictComp, ast.SetComp, ast.Constant, ast.JoinedStr, ast.BinOp, ast.Lambda, ast.GeneratorExp)):
            return "fresh", "display/literal"
        name, depth, through_call = _root(expr)
        if isinstance(expr, ast.Call):
            r = self.prog.resolve_expr_static(mi, expr.func) if isinstance(expr.func, (ast.Name, ast.Attribute)) and _root(expr.func)[0] not in loc else None
            if isinstance(r, ClassInfo):
                return "fresh", f"new {r.name}"
            if isinstance(r, ExtRef):
                return "fresh", f"result of {r.dotted}"
            if isinstance(expr.func, ast.Name) and expr.func.id in ("set", "list", "dict", "tuple", "iter", "reversed", "enumerate", "zip", "sorted", "getattr"):
                if expr.func.id == "getattr" and expr.args:
                    return self.classify_expr(fi, expr.args[0], loc, seen)
                return "fresh", "builtin constructor"
            # result of a repository function / method: fresh unless it returns a shared object
            if isinstance(r, FuncInfo):
                return "fresh", f"result of {r.qualname}"
            if isinstance(expr.func, ast.Attribute):
                # method call result: e.g. self.pending_stack.pop() -> element of a fresh container
                base_c = self.classify_expr(fi, expr.func.value, loc, seen)
                return base_c
            return "fresh", "call result"
        if name is None:
            return "unknown", ast.unparse(expr)[:40]
        if name == "self" and fi.cls is not None:
            if depth == 0:
                return "self", "self"
            attr = _first_attr(expr)
            return self.classify_self_attr(fi, attr)
        if name in loc:
            if (fi.fq, name) in seen:
                return "fresh", "cycle"
            seen.add((fi.fq, name))
            verdicts = []
            for kind, rhs in loc[name]:
                if kind == "param":
                    verdicts.append((f"param:{name}", "parameter"))
                elif kind in ("assign", "iter"):
                    verdicts.append(self.classify_expr(fi, rhs, loc, seen))
                elif kind == "import":
                    verdicts.append(("shared", f"module-level object imported inside the function ({name})"))
                else:
                    verdicts.append(("fresh", "local def"))
            for v in verdicts:
                if v[0] == "shared":
                    return v
            for v in verdicts:
                if v[0].startswith("param:") or v[0] == "self":
                    return v
            return verdicts[0] if verdicts else ("fresh", "local")
        # module-level name?
        r = self.prog.resolve(mi.name, name)
        if r is not None:
            what = r.fq if isinstance(r, (ClassInfo, FuncInfo)) else (r.name if isinstance(r, ModuleInfo) else name)
            return "shared", f"module-level object `{name}` ({what})"
        return "unknown", name

    def classify_self_attr(self, fi, attr):
        ci = fi.cls
        # class-level mutable attribute never re-bound per instance
        ca = ci.find_class_attr(attr)
        rebound = False
        alias_shared = None
        for c in ci.mro() + ci.all_subclasses():
            for m in c.methods.values():
                for n in ast.walk(m.node):
                    if isinstance(n, (ast.Assign, ast.AnnAssign)):
                        ts = n.targets if isinstance(n, ast.Assign) else [n.target]
                        for t in ts:
                            if isinstance(t, ast.Attribute) and t.attr == attr and isinstance(t.value, ast.Name) and t.value.id == "self" and getattr(n, "value", None) is not None:
                                rebound = True
                                mf = m
                                cl = self.classify_expr(mf, n.value, self._locals(mf))
                                if cl[0] == "shared":
                                    alias_shared = cl[1]
        if alias_shared:
            return "shared", f"self.{attr} aliases {alias_shared}"
        if ca is not None and ca[1][0] is not None and not rebound:
            val = ca[1][0]
            if isinstance(val, (ast.Dict, ast.List, ast.Set, ast.Call, ast.ListComp, ast.DictComp)):
                return "shared", f"class-level container {ca[0].name}.{attr}"
        if ci in self.shared_instance_classes:
            return "shared", f"attribute of a shared instance ({self.shared_instance_classes[ci]})"
        return "fresh", f"instance attribute self.{attr}"

    def class_level_container(self, attr):
        for ci in self.prog.all_classes():
            ca = ci.class_attrs.get(attr)
            if ca is None or ca[0] is None:
                continue
            val = ca[0]
            mutable = isinstance(val, (ast.Dict, ast.List, ast.Set, ast.ListComp, ast.DictComp, ast.SetComp)) or (
                isinstance(val, ast.Call) and isinstance(val.func, ast.Name) and val.func.id in ("set", "list", "dict", "defaultdict", "OrderedDict", "deque"))
            if not mutable:
                continue
            rebound = False
            for c in [ci] + ci.all_subclasses():
                for m in c.methods.values():
                    for n in ast.walk(m.node):
                        if isinstance(n, (ast.Assign, ast.AnnAssign)) and getattr(n, "value", None) is not None:
                            ts = n.targets if isinstance(n, ast.Assign) else [n.target]
                            for t in ts:
                                if isinstance(t, ast.Attribute) and t.attr == attr and isinstance(t.value, ast.Name) and t.value.id == "self":
                                    rebound = True
            if not rebound:
                return ci
        return None

    def write_sites(self, fi):
        """Yield (node, target expr, kind) for every write in the function (nested defs included)."""
        for n in ast.walk(fi.node):
            if isinstance(n, ast.Assign):
                for t in n.targets:
                    for x in ([t] if not isinstance(t, (ast.Tuple, ast.List)) else t.elts):
                        if isinstance(x, (ast.Attribute, ast.Subscript)):
                            yield n, x, "store"
            elif isinstance(n, (ast.AugAssign, ast.AnnAssign)):
                if isinstance(n.target, (ast.Attribute, ast.Subscript)) and not (isinstance(n, ast.AnnAssign) and n.value is None):
                    yield n, n.target, "store"
            elif isinstance(n, ast.Delete):
                for t in n.targets:
                    if isinstance(t, (ast.Attribute, ast.Subscript)):
                        yield n, t, "delete"
            elif isinstance(n, ast.Call):
                if isinstance(n.func, ast.Attribute) and n.func.attr in MUTATORS:
                    yield n, n.func.value, "mutate:" + n.func.attr
                elif isinstance(n.func, ast.Name) and n.func.id in ("setattr", "delattr") and n.args:
                    yield n, ast.Attribute(value=n.args[0], attr="<dynamic>", ctx=ast.Store()), "store"
            elif isinstance(n, ast.Global):
                for nm in n.names:
                    yield n, ast.Name(id=nm, ctx=ast.Store()), "global"

    def analyse(self, fqs):
        results = []
        for fq in sorted(fqs):
            fi = self.cg.funcs.get(fq)
            if fi is None or fi.qualname == "<module>":
                continue
            loc = self._locals(fi)
            for node, target, kind in self.write_sites(fi):
                self.n_sites += 1
                if kind == "global":
                    results.append((fi, node, target.id, "shared", "global statement"))
                    continue
                # the object written is the *container* of the store target
                container = target.value if kind in ("store", "delete") and isinstance(target, (ast.Attribute, ast.Subscript)) else target
                cls_, reason = self.classify_expr(fi, container, loc)
                # whatever the receiver: an attribute that exists only as a class-level container
                # (never re-bound per instance) is one object shared by all instances
                if cls_ != "shared" and isinstance(container, ast.Attribute):
                    owner = self.class_level_container(container.attr)
                    if owner is not None:
                        cls_, reason = "shared", f"`{container.attr}` is a class-level container of {owner.name} that is never re-bound per instance: every instance (and every conversion) mutates the same object"
                if cls_ == "self":
                    # self.attr = v
                    if fi.cls in self.shared_instance_classes and fi.name not in INIT_METHODS:
                        cls_, reason = "shared", f"instance of {fi.cls.name} is shared ({self.shared_instance_classes[fi.cls]})"
                    else:
                        cls_ = "fresh"
                if cls_.startswith("param:"):
                    self.param_writes.setdefault(fq, set()).add(cls_[6:])
                results.append((fi, node, ast.unparse(target)[:60], cls_, reason))
        return results


def _targets_of(prog, cg):
    roots = ["oneliner:convert_code_string"]
    reach = set(cg.reachable(roots))
    # option API: descriptor classes and the class that owns descriptors
    for ci in prog.all_classes():
        if any(m in ci.methods for m in ("__get__", "__set__")) or ci.name == "Configs":
            for m in ci.methods.values():
                reach.add(m.fq)
    return reach


def rule_r1(ctx):
    rr = RuleResult("C10-R1", "no write to a shared location on the conversion path or in the option API")
    rr.exhaustive = True
    rr.floor = 60
    eff = Effects(ctx)
    reach = _targets_of(ctx.prog, ctx.cg)
    results = eff.analyse(reach)
    # parameters written through: check the arguments at the call sites (to a fixpoint)
    shared_params = {}
    changed = True
    rounds = 0
    while changed and rounds < 5:
        changed = False
        rounds += 1
        for fq, params in list(eff.param_writes.items()):
            callee = ctx.cg.funcs[fq]
            pnames = [a.arg for a in callee.node.args.posonlyargs + callee.node.args.args]
            for caller_fq, sites in ctx.cg.call_sites.items():
                caller = ctx.cg.funcs[caller_fq]
                if caller.qualname == "<module>":
                    continue
                loc = eff._locals(caller)
                for call, tgt in sites:
                    if getattr(tgt, "fq", None) != fq:
                        continue
                    offset = 1 if callee.cls is not None and pnames and pnames[0] == "self" else 0
                    for p in params:
                        if p not in pnames:
                            continue
                        i = pnames.index(p) - offset
                        arg = None
                        if 0 <= i < len(call.args):
                            arg = call.args[i]
                        for kw in call.keywords:
                            if kw.arg == p:
                                arg = kw.value
                        if arg is None:
                            continue
                        c, why = eff.classify_expr(caller, arg, loc)
                        if c == "shared" and (fq, p) not in shared_params:
                            shared_params[(fq, p)] = f"{caller.where()} passes {ast.unparse(arg)[:40]}: {why}"
                            changed = True
                        elif c.startswith("param:") and caller_fq in ctx.cg.funcs:
                            if c[6:] not in eff.param_writes.get(caller_fq, set()):
                                eff.param_writes.setdefault(caller_fq, set()).add(c[6:])
                                changed = True
    for fi, node, target, cls_, reason in results:
        rr.instances += 1
        what = f"{fi.qualname}|{target}"
        if cls_.startswith("param:"):
            p = cls_[6:]
            sp = shared_params.get((fi.fq, p))
            if sp:
                cls_, reason = "shared", f"parameter `{p}` receives a shared object: {sp}"
            elif fi.name in ("__set__", "__delete__", "__set_name__") and p in [a.arg for a in fi.node.args.args[1:2]]:
                cls_, reason = "per-object", "instance parameter of a descriptor"
        if cls_ == "shared":
            rr.fail(
                f"C10-R1|{fi.qualname}|{_norm(target)}",
                f"{fi.module.rel}:{node.lineno} ({fi.qualname}): `{ast.unparse(node)[:70]}` writes to shared state - {reason}. The value survives the call and is seen by every other conversion / options object (e.g. `c = Configs(); c.unparser = 'oneliner'` changes the default of convert_code_string(src))",
                where=f"{fi.module.rel}:{node.lineno}", what=what,
            )
        elif cls_ == "unknown":
            rr.note(f"unclassified write {fi.qualname}: {target} ({reason})")
            rr.ok(what, nontrivial=False)
        else:
            rr.ok(what, sample={"rule": "C10-R1", "site": f"{fi.module.rel}:{node.lineno}", "write": target, "location": cls_, "why": reason})
    # the public entry point never writes through its parameters: the options object (and anything
    # else the caller passes) belongs to the caller and is used for later calls
    root_fq = "oneliner:convert_code_string"
    rr.instances += 1
    written = sorted(p for p in eff.param_writes.get(root_fq, set()) if p != "self")
    what = "convert_code_string|arguments-not-written"
    if written:
        sites = [f"{fi.module.rel}:{node.lineno} `{ast.unparse(node)[:50]}`" for fi, node, target, cls_, reason in results if fi.fq == root_fq and cls_.startswith("param:")]
        rr.fail(
            f"C10-R1|convert_code_string|writes-argument|{written[0]}",
            f"convert_code_string writes to the object passed as `{written[0]}` ({'; '.join(sites[:2]) or 'through a callee'}): the caller's options object is changed by a conversion, so a later conversion with the same object gives a different result",
            what=what,
        )
    else:
        rr.ok(what, sample={"rule": "C10-R1", "entry": root_fq, "verdict": "no write through a parameter (directly or in a callee)"})
    # descriptor protocol: __get__ must read what __set__ writes
    for ci in ctx.prog.all_classes():
        if "__get__" in ci.methods and "__set__" in ci.methods:
            rr.instances += 1
            g, s = ci.methods["__get__"], ci.methods["__set__"]
            sparams = [a.arg for a in s.node.args.args]
            gparams = [a.arg for a in g.node.args.args]
            writes_instance = any(_root(t)[0] == (sparams[1] if len(sparams) > 1 else None) for _n, t, _k in Effects(ctx).write_sites(s))
            reads_instance = any(isinstance(n, ast.Name) and len(gparams) > 1 and n.id == gparams[1] and isinstance(n.ctx, ast.Load) for n in ast.walk(g.node) if not (isinstance(n, ast.Name) and False))
            # a read of the instance that is more than an `is None` test
            deep_read = any(isinstance(n, (ast.Attribute, ast.Subscript)) and _root(n)[0] == (gparams[1] if len(gparams) > 1 else None) for n in ast.walk(g.node))
            what = f"{ci.name}|descriptor-agreement"
            if writes_instance and not deep_read:
                rr.fail(f"C10-R1|{ci.name}|get-set-disagree", f"{g.where()}: __set__ stores the value on the instance but __get__ does not read it from there: options set on an object are ignored", where=g.where(), what=what)
            else:
                rr.ok(what)
    return rr


def _norm(t):
    import re

    return re.sub(r"\s+", "", t)[:40]


def rule_r2(ctx):
    rr = RuleResult("C10-R2", "shared template objects and the user tree are never written by the builders (effects recorded by engine T)")
    rr.floor = 17
    T = ctx.tmpl
    for ci, kinds, entry in T.all_pending():
        rr.instances += 1
        bad = None
        for pr in entry.paths:
            for e in pr.effects:
                if e["kind"] in ("shared-write", "user-tree-write"):
                    bad = (e, pr)
        what = f"{ci.name}|shared-writes"
        if bad:
            e, pr = bad
            rr.fail(f"C10-R2|{ci.name}|{e['kind']}|{str(e['target'])[:40]}", f"{ci.name} ({e['site'][0]}:{e['site'][1]}): writes to {e['target']} ({'a module-level template object shared by all conversions' if e['kind'] == 'shared-write' else 'the user AST'})", what=what)
        else:
            rr.ok(what)
    return rr


def rule_r3(ctx):
    rr = RuleResult("C10-R3", "a call without options creates a new options object with the declared defaults")
    rr.floor = 2
    prog = ctx.prog
    fi = prog.func("oneliner", "convert_code_string")
    mi = fi.module
    # parameter defaults must be immutable
    a = fi.node.args
    pos = a.posonlyargs + a.args
    for p, d in list(zip(pos[len(pos) - len(a.defaults):], a.defaults)) + [(p, d) for p, d in zip(a.kwonlyargs, a.kw_defaults) if d is not None]:
        rr.instances += 1
        what = f"default|{p.arg}"
        if isinstance(d, ast.Constant):
            rr.ok(what)
        else:
            rr.fail(f"C10-R3|convert_code_string|default-{p.arg}", f"{fi.where()}: parameter `{p.arg}` has the default `{ast.unparse(d)}`, evaluated once and shared by all calls", where=fi.where(), what=what)
    # the None branch
    eff = Effects(ctx)
    loc = eff._locals(fi)
    found = False
    for n in ast.walk(fi.node):
        if isinstance(n, ast.If) and isinstance(n.test, ast.Compare) and isinstance(n.test.ops[0], ast.Is) and isinstance(n.test.comparators[0], ast.Constant) and n.test.comparators[0].value is None and isinstance(n.test.left, ast.Name):
            pname = n.test.left.id
            for st in n.body:
                if isinstance(st, ast.Assign) and any(isinstance(t, ast.Name) and t.id == pname for t in st.targets):
                    found = True
                    rr.instances += 1
                    what = f"none-branch|{pname}"
                    c, why = eff.classify_expr(fi, st.value, {k: v for k, v in loc.items() if k != pname})
                    r = prog.resolve_expr_static(mi, st.value.func) if isinstance(st.value, ast.Call) and isinstance(st.value.func, (ast.Name, ast.Attribute)) else None
                    if c == "fresh" and isinstance(r, ClassInfo) and not st.value.args and not st.value.keywords:
                        rr.ok(what, sample={"rule": "C10-R3", "branch": f"if {pname} is None", "value": ast.unparse(st.value), "verdict": f"new {r.name} per call"})
                    else:
                        rr.fail(f"C10-R3|convert_code_string|none-branch-{pname}", f"{fi.where()} line {st.lineno}: when no options are passed `{pname}` becomes `{ast.unparse(st.value)}` ({why}), not a new options object: option changes made elsewhere leak into calls that pass no options", where=fi.where(), what=what)
    # the same decision written as a conditional expression: X = <new object> if p is None else p
    for n in ast.walk(fi.node):
        if found:
            break
        if isinstance(n, ast.Assign) and isinstance(n.value, ast.IfExp):
            t = n.value.test
            if isinstance(t, ast.Compare) and len(t.ops) == 1 and isinstance(t.ops[0], (ast.Is, ast.IsNot)) and isinstance(t.comparators[0], ast.Constant) and t.comparators[0].value is None and isinstance(t.left, ast.Name):
                pname = t.left.id
                if pname not in {a.arg for a in fi.node.args.args + fi.node.args.kwonlyargs}:
                    continue
                fresh_arm, other_arm = (n.value.body, n.value.orelse) if isinstance(t.ops[0], ast.Is) else (n.value.orelse, n.value.body)
                if not (isinstance(other_arm, ast.Name) and other_arm.id == pname):
                    continue
                found = True
                rr.instances += 1
                what = f"none-branch|{pname}"
                c, why = eff.classify_expr(fi, fresh_arm, {k: v for k, v in loc.items() if k != pname})
                r = prog.resolve_expr_static(mi, fresh_arm.func) if isinstance(fresh_arm, ast.Call) and isinstance(fresh_arm.func, (ast.Name, ast.Attribute)) else None
                if c == "fresh" and isinstance(r, ClassInfo) and not fresh_arm.args and not fresh_arm.keywords:
                    rr.ok(what, sample={"rule": "C10-R3", "branch": f"... if {pname} is None else {pname}", "value": ast.unparse(fresh_arm), "verdict": f"new {r.name} per call"})
                else:
                    rr.fail(f"C10-R3|convert_code_string|none-branch-{pname}", f"{fi.where()} line {n.lineno}: when no options are passed `{pname}` becomes `{ast.unparse(fresh_arm)}` ({why}), not a new options object: option changes made elsewhere leak into calls that pass no options", where=fi.where(), what=what)
    if not found:
        rr.instances += 1
        # configs used without a None test?
        rr.fail("C10-R3|convert_code_string|no-none-branch", f"{fi.where()}: no `if configs is None: configs = <new object>` branch", what="none-branch")
    return rr


def rule_r4(ctx):
    rr = RuleResult("C10-R4", "RNG confined to unique_id <- ol_name; fresh names flow only into identifiers; only pure helpers are memoised")
    rr.floor = 3
    cg = ctx.cg
    prog = ctx.prog
    rng_users = {fq for fq, ext in cg.ext_calls.items() if any(d.split(".")[0] in ("random", "secrets", "uuid") for d in ext)}
    rr.instances += 1
    want_user = "oneliner.utils:unique_id"
    if want_user not in cg.funcs:
        raise AnalysisError("anchor oneliner.utils:unique_id vanished")
    extra = sorted(rng_users - {want_user})
    if extra:
        rr.fail(f"C10-R4|rng|used-in|{extra[0].split(':')[1]}", f"the random generator is used outside unique_id: {extra}", what="rng-users")
    else:
        rr.ok("rng-users", sample={"rule": "C10-R4", "rng_users": sorted(rng_users)})
    rr.instances += 1
    callers = sorted(fq for fq, tg in cg.edges.items() if want_user in tg)
    if set(callers) - {"oneliner.reserved_identifiers:ol_name"}:
        rr.fail(f"C10-R4|unique_id|called-from|{callers[0].split(':')[1]}", f"unique_id is called from {callers}; only ol_name may use it (random text must flow only into __ol_ identifiers)", what="unique_id-callers")
    else:
        rr.ok("unique_id-callers")
    # fresh names: only as Name.id / arg.arg, never in a condition
    T = ctx.tmpl
    for ci, kinds, entry in T.all_pending():
        rr.instances += 1
        what = f"{ci.name}|fresh-flow"
        bad = None
        for pr in entry.paths:
            if getattr(pr, "fresh_in_condition", False):
                bad = "a conversion-time condition depends on a fresh (random) identifier"
            ids = set()
            for t in pr.constructed:
                for fld, v in t.fields.items():
                    if isinstance(v, Fresh):
                        if (t.kind, fld) not in (("Name", "id"), ("arg", "arg")):
                            bad = f"a fresh identifier flows into {t.kind}.{fld}"
        if bad:
            rr.fail(f"C10-R4|{ci.name}|fresh-flow", f"{ci.name}: {bad}: the result would differ between runs by more than a renaming of temporaries", what=what)
        else:
            rr.ok(what)
    # memoisation
    for fq in sorted(cg.reachable(["oneliner:convert_code_string"])):
        fi = cg.funcs[fq]
        for d in getattr(fi.node, "decorator_list", []):
            txt = ast.unparse(d)
            if "cache" in txt or "lru" in txt or "memo" in txt:
                rr.instances += 1
                impure = fq in rng_users or want_user in cg.reachable([fq]) or any(p.arg in ("configs", "nsp", "nsp_global") for p in fi.node.args.args)
                if impure:
                    rr.fail(f"C10-R4|{fi.qualname}|memoised-impure", f"{fi.where()}: @{txt} memoises a function that depends on the RNG / options / namespace: results leak between conversions", where=fi.where(), what=f"memo|{fq}")
                else:
                    rr.note(f"{fi.where()}: @{txt} on a pure helper")
                    rr.ok(f"memo|{fq}")
    return rr


ALLOWED_PROBES = {"sys.version_info"}


def rule_r5(ctx):
    rr = RuleResult("C10-R5", "no environment dependence of the result other than sys.version_info")
    rr.floor = 1
    cg = ctx.cg
    prog = ctx.prog
    seen = {}
    for fq in sorted(cg.reachable(["oneliner:convert_code_string"])):
        fi = cg.funcs[fq]
        probes = mentions_host_probe(prog, fi.module, fi.node)
        ext = {d for d in cg.ext_calls.get(fq, ()) if d.split(".")[0] in ("os", "time", "datetime", "locale", "platform", "socket", "getpass")}
        for p in set(probes) | ext:
            seen.setdefault(p, []).append(fi)
    # module-level guards as well
    for mi in prog.modules.values():
        if mi.name.endswith("__main__"):
            continue
        for st in mi.tree.body:
            if not isinstance(st, (ast.FunctionDef, ast.ClassDef, ast.Import, ast.ImportFrom)):
                for p in mentions_host_probe(prog, mi, st):
                    seen.setdefault(p, []).append(mi)
    for cl in prog.all_classes():
        for st in cl.node.body:
            if isinstance(st, ast.If):
                for p in mentions_host_probe(prog, cl.module, st.test):
                    seen.setdefault(p, []).append(cl.module)
    for p, users in sorted(seen.items()):
        rr.instances += 1
        what = f"probe|{p}"
        if p in ALLOWED_PROBES:
            rr.ok(what, sample={"rule": "C10-R5", "probe": p, "sites": len(users)})
        elif p.startswith("sys.") and p.split(".")[1] in ("modules", "path", "stdout", "stderr", "exit", "argv", "intern", "getrecursionlimit", "setrecursionlimit", "maxsize"):
            if p.split(".")[1] in ("setrecursionlimit",):
                rr.fail(f"C10-R5|{p}", f"conversion changes the interpreter state via {p}", what=what)
            else:
                rr.ok(what, nontrivial=False)
        else:
            u = users[0]
            where = u.where() if isinstance(u, FuncInfo) else u.rel
            rr.fail(f"C10-R5|{p}", f"{where}: the conversion reads the environment ({p}): the result is not a function of (source, options)", where=where, what=what)
    if not seen:
        rr.instances += 1
        rr.ok("no host probes")
    return rr


def _unordered_reps(v, seen=None, out=None):
    """Rep items of a template whose repetition follows the iteration order of a set."""
    from ..vals import PDict, PList, PSet, PTuple, Rep, Splice, TNode, Transf

    seen = set() if seen is None else seen
    out = [] if out is None else out
    if id(v) in seen:
        return out
    seen.add(id(v))
    if isinstance(v, Rep):
        over = v.over if isinstance(v.over, str) else ""
        # sorted(set(..)) is ordered again; set(..) / reversed(set(..)) / set(..)[..] are not
        if "set(" in over and not over.startswith("sorted("):
            out.append(v)
        for x in v.items:
            _unordered_reps(x, seen, out)
    elif isinstance(v, TNode):
        for x in v.fields.values():
            _unordered_reps(x, seen, out)
    elif isinstance(v, (PList, PTuple, PSet)):
        for x in v.items:
            _unordered_reps(x, seen, out)
    elif isinstance(v, PDict):
        for k, x in v.pairs:
            _unordered_reps(x, seen, out)
    elif isinstance(v, Splice):
        _unordered_reps(v.v, seen, out)
    elif isinstance(v, Transf):
        _unordered_reps(v.inner, seen, out)
    return out


def rule_r6(ctx):
    """The order of the elements of a set of strings follows PYTHONHASHSEED: a fresh process may
    iterate it differently.  Nothing whose order is visible in the output may be produced by a loop
    over a set."""
    from .common import all_templates

    rr = RuleResult("C10-R6", "no emitted sequence follows the iteration order of a set (hash-seed dependent)")
    rr.floor = 10
    seen = set()
    for origin, kind, pr, tmpl in all_templates(ctx):
        rr.instances += 1
        for r in _unordered_reps(tmpl):
            key = (origin, r.over)
            if key in seen:
                continue
            seen.add(key)
            rr.fail(
                f"C10-R6|{kind}|{re.sub('[^A-Za-z_.]+', '-', r.over)[:60]}",
                f"{origin}: a sequence of the output is produced by iterating `{r.over}`; the iteration order of a set of strings depends on the hash seed of the process, so the same call in a fresh process yields a different text (not a renaming of temporaries)",
                what=f"{origin}|{r.over}",
            )
    if not seen:
        rr.ok("templates", sample={"rule": "C10-R6", "templates": rr.instances, "verdict": "no repetition over a set"})
    return rr


RULES = [("C10-R1", rule_r1), ("C10-R2", rule_r2), ("C10-R3", rule_r3), ("C10-R4", rule_r4), ("C10-R5", rule_r5), ("C10-R6", rule_r6)]
