"""Maintenance tool: copy confirmed sub-agent changes into /verif/seeded/<id>/.
usage: ingest_seeds.py <out root> <round> <origin text> <dir>/<i>=<seed id>[:noverdict] ...
Each pair must have been confirmed with tools/try_seed.py first (demo fails with / passes without
the change, unedited suite passes on the patched copy)."""
import json, os, re, shutil, sys
VERIF = os.path.dirname(os.path.dirname(os.path.abspath(__file__)))
root, rnd, origin = sys.argv[1], int(sys.argv[2]), sys.argv[3]
for spec in sys.argv[4:]:
    src, sid = spec.split('=')
    nover = sid.endswith(':noverdict')
    sid = sid.split(':')[0]
    d, i = src.split('/')
    dst = os.path.join(VERIF, 'seeded', sid)
    os.makedirs(dst, exist_ok=True)
    shutil.copy(f'{root}/{d}/change{i}.diff', f'{dst}/patch.diff')
    shutil.copy(f'{root}/{d}/demo{i}.py', f'{dst}/demo.py')
    if os.path.exists(f'{root}/{d}/notes.md'):
        shutil.copy(f'{root}/{d}/notes.md', f'{dst}/notes.md')
    files = sorted(set(re.findall(r'^\+\+\+ b/(\S+)', open(f'{dst}/patch.diff').read(), re.M)))
    meta = {"id": sid, "property": sid.split('-')[0], "round": rnd, "origin": origin, "files": files,
            "confirmed": {"tests": "3337 passed with the change (tools/try_seed.py)", "demo_with_change": "exit 1", "demo_without_change": "exit 0"},
            "what_ran": "tools/try_seed.py patch.diff demo.py : copy of /repo + patch; demo on both trees; unedited suite on the patched copy; olsa probe of all 17 properties on the patched copy",
            "needs_to_manifest": f"see notes.md (change {i})"}
    if nover:
        meta["props"] = []
        meta["outcome"] = "ANALYSIS-ERROR (exit 2), no verdict; kept for the record, not part of the self-test"
    json.dump(meta, open(f'{dst}/meta.json', 'w'), indent=1)
    print('kept', sid)
