"""C04 - literals are preserved exactly and no line break is emitted (escaping by
code-point cell, constant kinds, f-string structure, quote discipline)."""
from __future__ import annotations

import re

from ..core import AnalysisError, RuleResult
from ..interp import function_paths
from ..vals import Cst, Hole, PList, Rep, Str, StrOp, UNode, UPrim, Unknown
from .c03 import render
from .common import cached, short_ctx

EXPLANATION = (
    "C04-R1: get_unescaped_str is a per-character if-chain; its paths are extracted by the abstract "
    "interpreter and evaluated over a partition of the code points into the cells that matter to "
    "the lexer (quotes, backslash, line breaks, controls, braces, printable ASCII, 0x80-0xFF, BMP, "
    "surrogates, astral), refined by the thresholds the code mentions (interval reasoning, no "
    "string is ever escaped concretely); each cell x quote must take a safe emission (raw / "
    "ascii()-escape / backslash+quote). C04-R2: case analysis of unparse_Constant (repr of a "
    "non-finite float is a NAME, not a literal). C04-R3: f-string structure from the skeletons of "
    "unparse_FormattedValue/_unparse_JoinedStr (escape then brace doubling; a field is "
    "`{` [space] value [!conv] [:spec] `}` and nothing else). C04-R4: quote discipline for literals "
    "nested in replacement fields (strings flip the quote, everything else inherits it, a format "
    "spec is rendered in line under the enclosing quote); C03-R7: every child reaches the text "
    "through the driver's precedence comparison. C04-R6: no cell of code points whose raw emission "
    "is safe is written as a backslash escape (inside a replacement field the literal would be "
    "refused). C04-R7: the refusal of backslash / enclosing quote is applied to the EXPRESSION of a "
    "replacement field, not to text that includes its format spec (an escape there is legal on "
    "every version). C04-R8: a bytes constant is written b<quote of the nesting level>...<same quote> and "
    "its escaper (found by use) takes a safe emission for every byte value x quote (only ASCII may appear "
    "in a bytes literal)."
)
ASSUMPTIONS = ["contracts of ascii()/repr() as documented", "nothing is claimed about ast.unparse (stdlib)"]

BASE_BOUNDS = [0x0, 0x0A, 0x0B, 0x0D, 0x0E, 0x20, 0x22, 0x23, 0x27, 0x28, 0x5C, 0x5D, 0x7B, 0x7C, 0x7D, 0x7E, 0x7F, 0x80, 0x100, 0xD800, 0xE000, 0x110000]


def _escape_paths(ctx):
    U = ctx.ustr
    fi = U.mi.functions.get("get_unescaped_str")
    if fi is None:
        raise AnalysisError("anchor oneliner.expr_unparse:get_unescaped_str vanished")

    def mk(it):
        return [Unknown("string", typ="str"), Unknown("qm", typ="str")], {}, None

    return fi, list(function_paths(ctx.prog, fi, mk, mode="unparse"))


def _emission(pr):
    """Classify what one iteration appends: raw | ascii | bsquote | literal:<txt> | other."""
    r = pr.result
    reps = []

    def find(v):
        if isinstance(v, Rep):
            reps.append(v)
        elif isinstance(v, Str):
            for p in v.parts:
                find(p)
        elif isinstance(v, StrOp):
            for a in v.args:
                find(a)
        elif isinstance(v, PList):
            for i in v.items:
                find(i)

    find(r)
    if len(reps) != 1 or len(reps[0].items) != 1:
        return "other", render(r)
    item = reps[0].items[0]
    if isinstance(item, Unknown) and "string" in item.desc:
        return "raw", "the character itself"
    if isinstance(item, StrOp) and item.op == "slice" and isinstance(item.args[0], StrOp) and item.args[0].op == "ascii" and item.args[1] == "1:-1":
        return "ascii", "ascii(c)[1:-1]"
    if isinstance(item, StrOp) and item.op == "slice" and isinstance(item.args[0], StrOp) and item.args[0].op == "repr" and item.args[1] == "1:-1":
        return "repr", "repr(c)[1:-1]"
    if isinstance(item, Str):
        parts = item.parts
        if len(parts) == 2 and parts[0] == "\\" and isinstance(parts[1], Unknown) and parts[1].desc == "qm":
            return "bsquote", "backslash + quote"
    if isinstance(item, Str) and len(item.parts) == 2 and item.parts[0] == "\\x" and isinstance(item.parts[1], StrOp) and item.parts[1].op == "format":
        f = item.parts[1]
        spec = f.args[1].value if isinstance(f.args[1], Cst) else f.args[1]
        if isinstance(f.args[0], StrOp) and f.args[0].op == "ord" and spec == "02x":
            return "hexbyte", "\\x + two hex digits of ord(c)"
    if isinstance(item, Cst) and isinstance(item.value, str):
        return "literal:" + item.value, repr(item.value)
    if isinstance(item, Str) and all(isinstance(p, str) for p in item.parts):
        return "literal:" + "".join(item.parts), "".join(item.parts)
    return "other", render(item)


def _cells(paths):
    bounds = set(BASE_BOUNDS)
    for pr in paths:
        for k in pr.assign:
            m = re.match(r"ord:.*?(<=|>=|<|>|==|!=)(-?\d+)$", k)
            if m:
                n = int(m.group(2))
                bounds |= {n, n + 1}
            m = re.match(r"in:.*?:'(.*)'$", k)
            if m:
                for ch in m.group(1):
                    bounds |= {ord(ch), ord(ch) + 1}
            m = re.match(r"eq:.*==('.'|\".\")$", k)
            if m:
                ch = m.group(1)[1]
                bounds |= {ord(ch), ord(ch) + 1}
    if any(re.match(r"(str|truthy):.*\.isprintable\(\)$", k) for pr in paths for k in pr.assign):
        # str.isprintable() is not an interval property: refine the partition at every change of its
        # value (table of the analysing interpreter's unicodedata; a few hundred runs)
        prev = None
        for cp in range(0x110000):
            cur = chr(cp).isprintable()
            if cur != prev:
                bounds.add(cp)
                prev = cur
    bs = sorted(b for b in bounds if 0 <= b <= 0x110000)
    return [(a, b - 1) for a, b in zip(bs, bs[1:])]


def _holds(key, value, lo, hi, qm):
    """Truth of a decision for every code point of the (uniform) cell; None = unknown predicate."""
    if re.match(r"eq:.*==qm$", key):
        return lo == hi == ord(qm)
    m = re.match(r"ord:.*?(<=|>=|<|>|==|!=)(-?\d+)$", key)
    if m:
        op, n = m.group(1), int(m.group(2))
        return {"<": hi < n, "<=": hi <= n, ">": lo > n, ">=": lo >= n, "==": lo == hi == n, "!=": not (lo <= n <= hi)}[op]
    m = re.match(r"in:.*?:'(.*)'$", key)
    if m:
        return lo == hi and chr(lo) in m.group(1)
    m = re.match(r"eq:.*==('.'|\".\")$", key)
    if m:
        return lo == hi == ord(m.group(1)[1])
    m = re.match(r"(?:str|truthy):.*\.(isprintable|isascii)\(\)$", key)
    if m:
        if m.group(1) == "isascii":
            return hi < 0x80 if hi < 0x80 or lo >= 0x80 else None
        vals = {chr(lo).isprintable(), chr(hi).isprintable()}
        return vals.pop() if len(vals) == 1 else None
    return None


def _safe(emission, lo, hi, qm):
    """Is the emission a correct, single-line spelling of every code point of the cell inside a
    string literal delimited by qm?"""
    q = ord(qm)
    if emission == "raw":
        if 0x20 <= lo and hi <= 0x7E:
            return not (lo <= q <= hi) and not (lo <= 0x5C <= hi), "printable ASCII"
        if lo >= 0x80:
            if lo >= 0xD800 and hi <= 0xDFFF:
                return False, "a lone surrogate cannot be encoded in source text (UnicodeEncodeError when the result is written/compiled)"
            return True, "non-ASCII, encodable"
        return False, "a control character emitted raw (line break / unprintable inside the literal)"
    if emission in ("ascii", "repr"):
        if lo <= q <= hi:
            return False, "ascii()/repr() of the active quote character is that character unescaped"
        if emission == "repr" and lo >= 0x80:
            return (not (lo >= 0xD800 and hi <= 0xDFFF)), "repr keeps printable non-ASCII raw"
        return True, "escaped by ascii()"
    if emission == "bsquote":
        return (lo == hi == q), "backslash + quote"
    if emission.startswith("literal:"):
        txt = emission[8:]
        if lo != hi:
            return False, "one fixed text for several code points"
        try:
            ok = len(txt) > 1 and txt[0] == "\\" and eval(f"{qm}{txt}{qm}") == chr(lo) and "\n" not in txt and "\r" not in txt
        except Exception:
            ok = False
        return ok, f"fixed escape {txt!r}"
    return False, "unrecognised emission"


def rule_r1(ctx):
    rr = RuleResult("C04-R1", "escaping by code-point cell: every cell x quote takes a safe single-line emission")
    rr.exhaustive = True
    rr.floor = 30
    fi, paths = cached(ctx, "escape_paths", lambda: _escape_paths(ctx))
    okp = [p for p in paths if p.outcome == "ok"]
    if not okp:
        raise AnalysisError("get_unescaped_str could not be analysed")
    cells = _cells(okp)
    for qm in ("'", '"'):
        for lo, hi in cells:
            rr.instances += 1
            matching = []
            for pr in okp:
                vals = [(_holds(k, v, lo, hi, qm), v) for k, v in pr.assign.items()]
                if any(h is None for h, _v in vals):
                    raise AnalysisError(f"C04-R1: get_unescaped_str tests a predicate the cell analysis does not know: {[k for k in pr.assign if _holds(k, True, lo, hi, qm) is None][:2]}")
                if all(h == v for h, v in vals):
                    matching.append(pr)
            cell = f"U+{lo:04X}" + (f"..U+{hi:04X}" if hi != lo else "")
            what = f"cell|{cell}|quote={qm}"
            if len(matching) != 1:
                raise AnalysisError(f"C04-R1: {len(matching)} paths of get_unescaped_str match cell {cell} (quote {qm})")
            em, desc = _emission(matching[0])
            if em == "other":
                # not one of the spellings the cell analysis knows (raw, ascii()/repr(), backslash + quote,
                # a fixed escape): nothing is concluded from a form that is not understood
                raise AnalysisError(f"C04-R1: get_unescaped_str appends `{desc[:80]}` for cell {cell} - an emission the cell analysis cannot classify")
            ok, why = _safe(em, lo, hi, qm)
            if ok:
                rr.ok(what, sample={"rule": "C04-R1", "cell": cell, "quote": qm, "emission": desc, "why_safe": why})
            else:
                name = "surrogates" if (lo >= 0xD800 and hi <= 0xDFFF) else cell
                rr.fail(
                    f"C04-R1|{name}|{em.split(':')[0]}",
                    f"{fi.where()}: code points {cell} (quote {qm}) are emitted as {desc}: {why}",
                    where=fi.where(), what=what,
                )
    rr.note(f"{len(cells)} cells x 2 quotes")
    return rr


def _mentions(v, op):
    if isinstance(v, StrOp):
        return v.op == op or any(_mentions(a, op) for a in v.args if not isinstance(a, (str, int, type(None))))
    if isinstance(v, Str):
        return any(_mentions(p, op) for p in v.parts if not isinstance(p, str))
    return False


_ESCAPING_CODECS = ("backslashreplace", "unicode_escape", "unicode-escape", "raw_unicode_escape", "string_escape", "xmlcharrefreplace", "namereplace")


def _pre_escaped(v):
    """Does the text come from a routine that has already written escape sequences into it?"""
    if isinstance(v, StrOp):
        if v.op in ("repr", "ascii"):
            return v.op + "()"
        if v.op in ("decode", "encode"):
            for a in v.args[1:]:
                t = a if isinstance(a, str) else (a.value if isinstance(a, Cst) else None)
                if isinstance(t, str) and t.lower() in _ESCAPING_CODECS:
                    return f".{v.op}(..., {t!r})"
        for a in v.args:
            if not isinstance(a, (str, int, type(None))):
                h = _pre_escaped(a)
                if h:
                    return h
    elif isinstance(v, Str):
        for x in v.parts:
            if not isinstance(x, str):
                h = _pre_escaped(x)
                if h:
                    return h
    return None


def _double_escape(v):
    if isinstance(v, StrOp):
        if v.op == "replace" and len(v.args) == 3:
            rep = v.args[2]
            rep_txt = rep if isinstance(rep, str) else render(rep)
            if "\\" in rep_txt and (_mentions(v.args[0], "repr") or _mentions(v.args[0], "ascii")):
                return v
        for a in v.args:
            if not isinstance(a, (str, int, type(None))):
                h = _double_escape(a)
                if h is not None:
                    return h
    elif isinstance(v, Str):
        for x in v.parts:
            if not isinstance(x, str):
                h = _double_escape(x)
                if h is not None:
                    return h
    elif isinstance(v, Rep):
        for x in v.items:
            h = _double_escape(x)
            if h is not None:
                return h
    return None


def rule_r2(ctx):
    rr = RuleResult("C04-R2", "constant kinds: str through the escaper; float/complex not through a bare repr (inf is a name)")
    rr.floor = 2
    U = ctx.ustr
    paths = [p for p in U.paths("Constant") if p.outcome == "ok"]
    if not paths:
        raise AnalysisError("unparse_Constant could not be analysed")
    fi = U.gen_map["Constant"]
    # str path: goes through the escaping routine and is delimited by qm on both sides
    str_paths = [p for p in paths if any(k.startswith("isinstance:") and k.endswith(":str") and v is True for k, v in p.assign.items())]
    rr.instances += 1
    if not str_paths:
        rr.fail("C04-R2|Constant|str|no-case", f"{fi.where()}: no case for str constants", what="str")
    else:
        bad = [p for p in str_paths if not (isinstance(p.result, Str) and p.result.parts and isinstance(p.result.parts[0], Unknown) and p.result.parts[0].desc == "qm" and isinstance(p.result.parts[-1], Unknown) and p.result.parts[-1].desc == "qm")]
        if bad:
            rr.fail("C04-R2|Constant|str|delimiters", f"{fi.where()}: a str constant is not rendered as <quote><escaped text><same quote>: `{render(bad[0].result)[:80]}`", what="str")
        else:
            rr.ok("str", sample={"rule": "C04-R2", "type": "str", "skeleton": render(str_paths[0].result)[:80]})
    # escaping text that is already escaped
    for p in paths:
        hit = _double_escape(p.result)
        if hit is not None:
            rr.instances += 1
            rr.fail(
                "C04-R2|Constant|double-escape",
                f"{fi.where()}: `{render(p.result)[:90]}` escapes (inserts a backslash into) the output of repr()/ascii(), which is already escaped: a quote that repr() wrote as \\' becomes \\\\' and ends the literal early (bytes containing both quote characters) [{short_ctx(p, 80)}]",
                where=fi.where(), what="double-escape",
            )
    # ... including through the repository's own escaper
    escaper = U.mi.functions.get("get_unescaped_str")
    for p in paths:
        for fq, args, site in getattr(p, "text_calls", []):
            if escaper is not None and fq == escaper.fq and args:
                src = _pre_escaped(args[0])
                if src:
                    rr.instances += 1
                    rr.fail(
                        "C04-R2|Constant|double-escape",
                        f"{fi.where()}: the escaper {escaper.name} is applied to text produced by {src}, which already contains escape sequences: every backslash it wrote is escaped again (b'\\xff' is emitted as b'\\\\xff', four different bytes) [{short_ctx(p, 80)}]",
                        where=fi.where(), what="double-escape",
                    )
    # generic repr path(s)
    other = [p for p in paths if p not in str_paths]
    float_handled = False
    for p in other:
        is_float_case = any(k.startswith("isinstance:") and ("float" in k or "complex" in k) and v is True for k, v in p.assign.items())
        excludes_float = any(k.startswith("isinstance:") and ("float" in k or "complex" in k) and v is False for k, v in p.assign.items())
        r = p.result
        if is_float_case:
            rr.instances += 1
            # accepted idiom: replace of "inf" on the repr by a finite-overflow literal
            ok = False
            if isinstance(r, StrOp) and r.op == "replace" and len(r.args) == 3 and r.args[1] == "inf" and isinstance(r.args[2], str) and re.fullmatch(r"\(?\d+(\.\d+)?e\d{3,}\)?", r.args[2]):
                try:
                    ok = float(r.args[2].strip("()")) == float("inf") and _mentions(r, "repr")
                except ValueError:
                    ok = False
            if ok:
                float_handled = True
                rr.ok("float|inf-idiom", sample={"rule": "C04-R2", "type": "float/complex", "idiom": f"repr(v).replace('inf', {r.args[2]!r})"})
            else:
                rr.fail("C04-R2|Constant|float|inf-idiom", f"{fi.where()}: the float/complex case renders `{render(r)[:80]}`: not a recognised treatment of infinity", what="float")
        elif isinstance(r, StrOp) and r.op == "repr" and not excludes_float and isinstance(r.args[0], UPrim):
            rr.instances += 1
            ell = any("Ellipsis" in k and v is True for k, v in p.assign.items())
            if ell:
                continue
            rr.fail(
                "C04-R2|Constant|float|bare-repr",
                f"{fi.where()}: float and complex constants are rendered with a bare repr(): repr(1e999) is the NAME `inf`, not a literal (the output reads a variable called inf); accepted idiom: replace 'inf' on the repr by an overflowing literal such as 1e309",
                where=fi.where(), what="float",
            )
        elif isinstance(r, StrOp) and r.op == "repr":
            rr.instances += 1
            rr.ok("repr|other-types", sample={"rule": "C04-R2", "types": "int/bytes/bool/None", "rendering": "repr(value)"})
    return rr


def _field_skeleton_ok(txt):
    """`{` [space] <value> [!c] [:spec] `}` with nothing else."""
    t = txt
    if not (t.startswith("{") and t.endswith("}")):
        return "is not delimited by single braces"
    inner = t[1:-1]
    if inner.startswith(" "):
        inner = inner[1:]
    if not inner.startswith("<value>"):
        return "does not start with the value"
    rest = inner[len("<value>"):]
    m = re.match(r"^(![rsa]|!\{[^}]*\}|!chr\([^)]*\))?(:.*)?$", rest, re.S)
    if not m:
        return f"has unexpected text after the value: {rest[:30]!r}"
    spec = m.group(2) or ""
    if spec.endswith(" "):
        return "appends a space INSIDE the format spec (the spec `{w}` becomes `{w} `: a different format specification / ValueError at run time)"
    if re.search(r"\s", spec.replace("[", "").replace("]", "").replace("...", "")) and " " in spec and "<" not in spec.split(" ")[0]:
        pass
    return None


def rule_r3(ctx):
    rr = RuleResult("C04-R3", "f-string structure: escape then double braces; a field is `{`[space]value[!conv][:spec]`}` and nothing else")
    rr.floor = 6
    U = ctx.ustr
    fi = U.gen_map.get("FormattedValue")
    paths = [p for p in U.paths("FormattedValue") if p.outcome == "ok"]
    if not paths:
        raise AnalysisError("unparse_FormattedValue could not be analysed")
    seen = set()
    for p in paths:
        got = render(p.result)
        # normalise the nested spec parts: keep only whether the spec ends with a space
        norm = re.sub(r"\[.*\.\.\.\]", "[SPEC...]", got, flags=re.S)
        if norm in seen:
            continue
        seen.add(norm)
        rr.instances += 1
        what = f"FormattedValue|{norm[:60]}"
        why = _field_skeleton_ok(norm.replace("<format_spec.values>", "").replace("HOLE", ""))
        if why:
            rr.fail(f"C04-R3|FormattedValue|field-skeleton|{re.sub('[^a-z]+', '-', why.lower())[:32]}", f"{fi.where()}: a replacement field is rendered as `{norm[:90]}`, which {why} [{short_ctx(p, 60)}]", where=fi.where(), what=what)
        else:
            rr.ok(what, sample={"rule": "C04-R3", "skeleton": norm[:90]})
    # leading '{' of the value is spaced
    rr.instances += 1
    # (the decision about the field's OWN value: fields nested in its format spec, when they are
    # rendered in line, take the same decision about their values)
    brace = [p for p in paths if any(re.search(r"text\(FormattedValue\.value\).*=='\{'$", k) and v is True for k, v in p.assign.items())]
    if not brace or not all(render(p.result).startswith("{ ") for p in brace):
        rr.fail("C04-R3|FormattedValue|leading-brace", f"{fi.where()}: a value text starting with '{{' is not separated from the field's brace by a space (`{{{{` would be a literal brace)", what="leading-brace")
    else:
        rr.ok("leading-brace")
    # conversion consumed
    rr.instances += 1
    read = set()
    for p in paths:
        read |= set(p.extra["node"].fields)
    if "conversion" not in read:
        rr.fail("C04-R3|FormattedValue|conversion|never-read", f"{fi.where()}: FormattedValue.conversion is never read: `f'{{x!r}}'` is rendered as `f'{{x}}'`", where=fi.where(), what="conversion")
    else:
        conv_paths = [p for p in paths if any("conversion" in k for k in p.assign)]
        if conv_paths and any("!" in render(p.result) for p in conv_paths):
            rr.ok("conversion", sample={"rule": "C04-R3", "conversion": "rendered as !<char>"})
        else:
            rr.fail("C04-R3|FormattedValue|conversion|not-rendered", f"{fi.where()}: the conversion is read but `!r/!s/!a` is not emitted", what="conversion")
    # literal parts: escaped, THEN braces doubled (both)
    jfi = U.mi.functions.get("_unparse_JoinedStr") or U.gen_map.get("JoinedStr")
    jpaths = [p for p in U.paths("JoinedStr") if p.outcome == "ok"]
    rr.instances += 1
    lit = None
    for p in jpaths:
        def find(v):
            nonlocal lit
            if isinstance(v, StrOp) and v.op == "replace":
                lit = lit or v
            if isinstance(v, StrOp):
                for a in v.args:
                    if not isinstance(a, (str, int, type(None))):
                        find(a)
            elif isinstance(v, Str):
                for x in v.parts:
                    if not isinstance(x, str):
                        find(x)
            elif isinstance(v, Rep):
                for x in v.items:
                    find(x)
        find(p.result)
    what = "JoinedStr|literal-part"
    if lit is None:
        rr.fail("C04-R3|JoinedStr|braces-not-doubled", "literal parts of an f-string are not brace-doubled", what=what)
    else:
        # outer replace('}', '}}') of inner replace('{', '{{') of the escaped text (either order)
        pairs = []
        v = lit
        while isinstance(v, StrOp) and v.op == "replace":
            pairs.append((v.args[1], v.args[2]))
            v = v.args[0]
        escaped_inner = isinstance(v, Str) and "joinrep" in render(v) or isinstance(v, (Str, StrOp))
        want = {("{", "{{"), ("}", "}}")}
        if set(pairs) != want:
            rr.fail("C04-R3|JoinedStr|brace-doubling", f"{jfi.where()}: literal parts are post-processed with {pairs}; both `{{`->`{{{{` and `}}`->`}}}}` are needed (a lone brace opens/closes a field)", where=jfi.where(), what=what)
        elif not escaped_inner:
            rr.fail("C04-R3|JoinedStr|escape-order", "brace doubling is applied before escaping", what=what)
        else:
            rr.ok(what, sample={"rule": "C04-R3", "literal_part": "escape, then {->{{ and }->}}"})
    # the literal parts are brace-doubled on every path, so every path must emit an f-string
    # (in a plain literal `{{` is two characters)
    rr.instances += 1
    what = "JoinedStr|prefix"
    noprefix = [p for p in jpaths if not render(p.result).startswith("f")]
    if noprefix:
        rr.fail(
            "C04-R3|JoinedStr|no-f-prefix",
            f"{U.gen_map['JoinedStr'].where()}: on some path a JoinedStr is rendered without the `f` prefix (`{render(noprefix[0].result)[:60]}`) although its literal parts have their braces doubled: `f'{{{{}}}}'` (the text `{{}}`) becomes the plain literal `'{{{{}}}}'` [{short_ctx(noprefix[0], 80)}]",
            where=U.gen_map["JoinedStr"].where(), what=what,
        )
    else:
        rr.ok(what, sample={"rule": "C04-R3", "prefix": "f on every path", "paths": len(jpaths)})
    return rr


def _node_init_quotes(ctx):
    """Abstract run of the wrapper class constructor: quote passed to each node kind."""
    from ..interp import Interp, PathResult, run_protected
    from ..interp_base import Decisions, enumerate_paths
    from ..vals import Func, Obj

    U = ctx.ustr
    owner = None
    for ci in U.mi.classes.values():
        if "__init__" in ci.methods and any("qm" in a.arg for a in ci.methods["__init__"].node.args.args):
            owner = ci
    if owner is None:
        raise AnalysisError("C04-R4: the class that chooses the quote for nested strings was not found")
    out = {}
    for kind in ("Constant", "JoinedStr", "FormattedValue", "Name"):
        for outer in ("'", '"'):
            def run(dec, kind=kind, outer=outer):
                it = Interp(ctx.prog, dec, mode="unparse")
                pr = PathResult()

                def body():
                    o = Obj(owner, "self", concrete=True)
                    it.self_obj = o
                    init = owner.methods["__init__"]
                    f = Func(init, init.node, None, bound_self=o, module=init.module, defcls=owner)
                    it.invoke(f, [Cst(0), UNode([kind]), Cst(outer)], {}, init.node)
                    pr.result = o.attrs.get("qm")

                return run_protected(it, pr, body)

            res = [pr for _d, pr in enumerate_paths(run, None, what="_Node.__init__")]
            vals = {pr.result.value for pr in res if pr.outcome == "ok" and isinstance(pr.result, Cst)}
            out[(kind, outer)] = vals
    return owner, out


def rule_r4(ctx):
    rr = RuleResult("C04-R4", "quote discipline of literals nested in replacement fields")
    rr.floor = 3
    owner, q = cached(ctx, "node_init_quotes", lambda: _node_init_quotes(ctx))
    fi = owner.methods["__init__"]
    # string-like nodes flip the quote, everything else inherits it
    for kind in ("Constant", "JoinedStr"):
        rr.instances += 1
        a, b = q[(kind, "'")], q[(kind, '"')]
        what = f"quote|{kind}"
        if a == {'"'} and b == {"'"}:
            rr.ok(what, sample={"rule": "C04-R4", "kind": kind, "outer '": sorted(a), 'outer "': sorted(b)})
        else:
            rr.fail(f"C04-R4|{kind}|no-alternation", f"{fi.where()}: a {kind} nested in a string with quote ' / \" is rendered with quote {sorted(a)} / {sorted(b)}: the nested literal closes the enclosing one", where=fi.where(), what=what)
    for kind in ("FormattedValue", "Name"):
        rr.instances += 1
        a, b = q[(kind, "'")], q[(kind, '"')]
        what = f"quote|{kind}"
        if a == {"'"} and b == {'"'}:
            rr.ok(what)
        else:
            rr.fail(f"C04-R4|{kind}|quote-not-inherited", f"{fi.where()}: {kind} does not pass the enclosing quote on to its children", where=fi.where(), what=what)
    # a format spec is part of the enclosing literal: it is rendered under the enclosing quote, not
    # handed to the driver as a child string (whose quote is flipped)
    from ..ustr import hole_field

    rr.instances += 1
    flips = q[("JoinedStr", "'")] != {"'"}
    n_spec = 0
    bad_spec = None
    for pr in ctx.ustr.paths("FormattedValue"):
        for h in getattr(pr, "holes", []):
            chain = hole_field(h) or []
            if chain and chain[0][0] == "format_spec":
                n_spec += 1
                if len(chain) == 1 and flips:
                    bad_spec = bad_spec or h
    if bad_spec is not None:
        rr.fail(
            "C04-R4|FormattedValue|format_spec|rendered-as-nested-string",
            f"{ctx.ustr.gen_map['FormattedValue'].where()}: the format spec is yielded to the driver like a nested string, so its quote is flipped and the literals inside its nested fields get the quote of the enclosing f-string again (`f'{{x:{{'>'}}}}'`: a syntax error before Python 3.12)",
            where=ctx.ustr.gen_map["FormattedValue"].where(), what="quote|format_spec",
        )
    elif n_spec == 0:
        raise AnalysisError("C04-R4: no hole below FormattedValue.format_spec found (the spec is not rendered?)")
    else:
        rr.ok("quote|format_spec", sample={"rule": "C04-R4", "format_spec": "rendered in line under the enclosing quote", "holes_below_spec": n_spec})
    # does the renderer refuse a field whose text contains the quote of the enclosing f-string?
    # (then a re-used quote never reaches the output: the script is rejected instead)
    from .c15 import _field_tests

    q_where, _qt, q_accepted, q_untested = _field_tests(ctx, "<qm>")
    refuses_outer_quote = q_where is not None and not q_accepted and not q_untested
    # only two quote characters: nesting depth 3 re-uses the outermost quote
    rr.instances += 1
    quotes = set()
    for v in q.values():
        quotes |= v
    if refuses_outer_quote and len(quotes) <= 2:
        # no wrong text: the third level is refused.  But three levels are ordinary - an f-string in a
        # field of an f-string that reads a captured variable (the converter writes __ol_nonlocal_x['v']
        # there) - and a spelling exists (triple quotes for the outer levels)
        rr.fail(
            "C04-R4|_Node|two-quotes|depth-3-refused",
            f"{fi.where()}: nested string literals alternate between only {sorted(quotes)}: a literal at nesting depth 3 would re-use the quote of the outermost f-string and is refused, although `f\'\'\'{{f\"{{d['v']}}\"}}\'\'\'` is valid on 3.8+: `def f():\\n v = 1\\n def g(): return f\"{{', '.join(f'{{n}}={{v}}' for n in 'ab')}}\"` cannot be converted with unparser=oneliner (the rewritten `v` is `__ol_nonlocal_x['v']`, a third string level)",
            where=fi.where(), what="quotes|depth",
        )
    elif refuses_outer_quote:
        rr.ok("quotes|depth", sample={"rule": "C04-R4", "verdict": "a field that contains the enclosing quote is refused"})
    elif len(quotes) <= 2:
        rr.fail(
            "C04-R4|_Node|two-quotes|depth-3",
            f"{fi.where()}: nested string literals alternate between only {sorted(quotes)}: a literal at nesting depth 3 re-uses the quote of the outermost f-string (`f'{{f\"{{'x'}}\"}}'`), which Python < 3.12 cannot lex; the source may nest 4 deep with triple quotes",
            where=fi.where(), what="quotes|depth",
        )
    else:
        rr.ok("quotes|depth")
    # bytes (and other non-str constants) are rendered by repr(), which chooses its own quote
    rr.instances += 1
    U = ctx.ustr
    paths = [p for p in U.paths("Constant") if p.outcome == "ok"]
    bytes_repr = [p for p in paths if isinstance(p.result, StrOp) and _mentions(p.result, "repr") and not any(k.startswith("isinstance:") and "bytes" in k and v is False for k, v in p.assign.items()) and not any(k.endswith(":str") and v is True for k, v in p.assign.items()) and not any("Ellipsis" in k and v is True for k, v in p.assign.items())]
    if bytes_repr and refuses_outer_quote:
        # no wrong text any more - but repr() picks ' whenever it can, which is the quote of every
        # top-level f-string: the refusal hits ordinary scripts, although the other quote would do
        rr.fail(
            "C04-R4|Constant|bytes|quote-ignored-refused-in-field",
            f"{U.gen_map['Constant'].where()}: bytes constants are rendered by repr(), which ignores the quote chosen for the nesting level and prefers `'`, the quote of every top-level f-string: `x = b'abc'; print(f\"{{x.startswith(b'a')}}\")` is refused under unparser=oneliner (\"The quotation mark of a f-string is included ...\") although b\"a\" is a valid spelling inside the field",
            where=U.gen_map["Constant"].where(), what="bytes",
        )
    elif bytes_repr:
        rr.fail(
            "C04-R4|Constant|bytes|repr-quote",
            f"{U.gen_map['Constant'].where()}: bytes constants are rendered by repr(), which ignores the quote chosen for the nesting level: inside a replacement field `f'{{b\"x\"}}'` becomes `f'{{b'x'}}'` (a syntax error before Python 3.12)",
            where=U.gen_map["Constant"].where(), what="bytes",
        )
    else:
        rr.ok("bytes")
    return rr


def _driver(ctx):
    from .c03 import rule_r7

    return rule_r7(ctx)


def _c02r5(ctx):
    """Post-processing of the final text can delete characters of string literals (splitlines() also
    splits at U+2028, U+2029, \\x0b, \\x0c, \\x1c-\\x1e, \\x85): shared rule C02-R5."""
    from .c02 import rule_r5 as r

    return r(ctx)


def _raw_item(pr):
    """Does the path append the character itself (possibly seen through a decode)?  The classifier of
    the str escaper reports that as `raw` only for its own parameter name."""
    reps = []

    def find(v):
        if isinstance(v, Rep):
            reps.append(v)
        elif isinstance(v, Str):
            for p in v.parts:
                find(p)
        elif isinstance(v, StrOp):
            for a in v.args:
                find(a)
        elif isinstance(v, PList):
            for i in v.items:
                find(i)

    find(pr.result)
    return len(reps) == 1 and len(reps[0].items) == 1 and isinstance(reps[0].items[0], Unknown)


def _safe_in_bytes(emission, lo, hi, qm):
    """Is the emission a correct, single-line spelling of every byte value of the cell inside a bytes
    literal delimited by qm?  (Only ASCII characters may appear in a bytes literal.)"""
    q = ord(qm)
    if emission == "raw":
        ok = 0x20 <= lo and hi <= 0x7E and not (lo <= q <= hi) and not (lo <= 0x5C <= hi)
        return ok, "printable ASCII" if ok else "only printable ASCII other than the quote and the backslash may stand for itself in a bytes literal (a character above 0x7f is a SyntaxError: bytes can only contain ASCII literal characters)"
    if emission == "ascii":
        if lo <= q <= hi:
            return False, "ascii() of the active quote character is that character unescaped"
        return True, "escaped by ascii() (\\xNN for 0x80-0xff)"
    if emission == "hexbyte":
        return hi <= 0xFF, "\\xNN"
    if emission == "bsquote":
        return (lo == hi == q), "backslash + quote"
    return False, "unrecognised emission"


def rule_r8(ctx):
    rr = RuleResult("C04-R8", "bytes constants: written as b<quote of the nesting level>...<same quote>, every byte value x quote takes a safe emission")
    rr.exhaustive = True
    rr.floor = 20
    U = ctx.ustr
    cpaths = [p for p in U.paths("Constant") if p.outcome == "ok"]
    bpaths = [p for p in cpaths if any(k.startswith("isinstance:") and k.endswith(":bytes") and v is True for k, v in p.assign.items())]
    rr.instances += 1
    if not bpaths:
        # no case of its own: bytes take the generic repr() route, judged by C04-R4 (quote discipline)
        rr.ok("bytes|generic-repr", sample={"rule": "C04-R8", "verdict": "no bytes case; see C04-R4"})
        rr.floor = 1
        return rr
    fi = U.gen_map["Constant"]
    bad = [p for p in bpaths if not (isinstance(p.result, Str) and len(p.result.parts) >= 3 and p.result.parts[0] == "b" and isinstance(p.result.parts[1], Unknown) and p.result.parts[1].desc == "qm" and isinstance(p.result.parts[-1], Unknown) and p.result.parts[-1].desc == "qm")]
    if bad:
        rr.fail("C04-R8|Constant|bytes|delimiters", f"{fi.where()}: a bytes constant is not rendered as b<quote><escaped bytes><same quote>: `{render(bad[0].result)[:80]}`", where=fi.where(), what="bytes|delimiters")
    else:
        rr.ok("bytes|delimiters", sample={"rule": "C04-R8", "skeleton": render(bpaths[0].result)[:80]})
    # the interpreter runs the escaping routine in line: every path of the bytes case is one class of
    # byte values (the decisions about the generic character) with what is appended for it
    def char_keys(pr):
        return {k: v for k, v in pr.assign.items() if re.match(r"(eq|ord|in):(char|.*\[\*\])", k)}

    okp = bpaths
    efi = fi
    if not any(char_keys(p) for p in okp):
        # how each byte value is written could not be read off the paths (the escaping goes through a
        # table, a callback, ...): no verdict about the escaper
        raise AnalysisError(f"C04-R8: {fi.where()}: the bytes case does not decide per byte value how it is written in a form the cell analysis can follow")
    cells = [(lo, min(hi, 0xFF)) for lo, hi in _cells(okp) if lo <= 0xFF]
    for qm in ("'", '"'):
        for lo, hi in cells:
            rr.instances += 1
            matching = []
            for pr in okp:
                vals = [(_holds(k, v, lo, hi, qm), v) for k, v in char_keys(pr).items()]
                if any(h is None for h, _v in vals):
                    raise AnalysisError(f"C04-R8: {efi.name} tests a predicate the cell analysis does not know: {[k for k in char_keys(pr) if _holds(k, True, lo, hi, qm) is None][:2]}")
                if all(h == v for h, v in vals):
                    matching.append(pr)
            cell = f"0x{lo:02X}" + (f"..0x{hi:02X}" if hi != lo else "")
            what = f"byte|{cell}|quote={qm}"
            if len(matching) != 1:
                raise AnalysisError(f"C04-R8: {len(matching)} paths of {efi.name} match byte cell {cell} (quote {qm})")
            em, desc = _emission(matching[0])
            if em == "other" and not _raw_item(matching[0]):
                raise AnalysisError(f"C04-R8: the bytes case appends `{desc[:80]}` for byte cell {cell} - an emission the cell analysis cannot classify")
            if em == "other" and _raw_item(matching[0]):
                em, desc = "raw", "the character itself"
            ok, why = _safe_in_bytes(em, lo, hi, qm)
            if ok:
                rr.ok(what, sample={"rule": "C04-R8", "cell": cell, "quote": qm, "emission": desc, "why_safe": why})
            else:
                rr.fail(f"C04-R8|{cell}|{em}", f"{efi.where()}: byte values {cell} (quote {qm}) are emitted as {desc}: {why}", where=efi.where(), what=what)
    return rr


def rule_r6(ctx):
    """A literal inside a replacement field must not need a backslash when a backslash-free spelling
    exists: before 3.12 the field cannot contain one, so the renderer has to refuse the f-string
    (C15-R2).  A cell that is escaped although its raw emission is safe turns every such literal
    into a refusal of a valid script."""
    rr = RuleResult("C04-R6", "no code point that can be written raw is written as a backslash escape (a literal in a replacement field would be refused)")
    rr.exhaustive = True
    rr.floor = 6
    fi, paths = cached(ctx, "escape_paths", lambda: _escape_paths(ctx))
    okp = [p for p in paths if p.outcome == "ok"]
    if not okp:
        raise AnalysisError("get_unescaped_str could not be analysed")
    failing = {}
    for qm in ("'", '"'):
        for lo, hi in _cells(okp):
            if lo < 0x80 or (lo >= 0xD800 and hi <= 0xDFFF):
                continue  # ASCII: ascii() is the character itself or a necessary escape; surrogates need one
            rr.instances += 1
            matching = [pr for pr in okp if all(_holds(k, v, lo, hi, qm) == v for k, v in pr.assign.items())]
            if len(matching) != 1:
                raise AnalysisError(f"C04-R6: {len(matching)} paths of get_unescaped_str match cell U+{lo:04X}..U+{hi:04X}")
            em, desc = _emission(matching[0])
            what = f"cell|U+{lo:04X}..U+{hi:04X}|quote={qm}|raw-possible"
            if em == "ascii" and _safe("raw", lo, hi, qm)[0]:
                failing[(lo, hi)] = desc
            else:
                rr.ok(what, sample={"rule": "C04-R6", "cell": f"U+{lo:04X}..U+{hi:04X}", "quote": qm, "emission": desc})
    merged = []
    for lo, hi in sorted(failing):
        if merged and merged[-1][1] + 1 == lo:
            merged[-1][1] = hi
        else:
            merged.append([lo, hi])
    if len(merged) > 3:
        rr.note(f"{len(merged)} ranges are escaped although raw is safe; the first three are reported")
    for lo, hi in merged[:3]:
        cell = f"U+{lo:04X}..U+{hi:04X}"
        rr.fail(
            f"C04-R6|{cell}|escaped-although-raw-is-safe",
            f"{fi.where()}: code points {cell} are written as {failing[min(k for k in failing if k[0] >= lo)]} although they can be written raw (as the neighbouring non-ASCII cells are). Inside a replacement field the backslash makes the renderer refuse the whole f-string: `print(f\"{{d['\u00e9']}}\")` / `f\"{{t:>5}}{{'\u00b0C'}}\"` end with `SyntaxError: Back slash is included in a f-string expression` under unparser=oneliner, although no backslash is needed",
            where=fi.where(), what=f"cell|{cell}|raw-possible",
        )
    return rr


def rule_r7(ctx):
    """Before 3.12 only the EXPRESSION of a replacement field is restricted (no backslash, no quote of
    the f-string); the format spec is a piece of the string literal, where an escape is legal on
    every version.  A refusal test applied to the text of the whole field also refuses literal
    format-spec text that needs an escape."""
    from .c15 import _field_tests

    rr = RuleResult("C04-R7", "the refusal of backslash / enclosing quote is applied to the expression of a replacement field, not to its format spec")
    rr.floor = 2
    U = ctx.ustr
    for needle, label in (("\\\\", "backslash"), ("<qm>", "outer-quote")):
        rr.instances += 1
        where, tests, _a, _u = _field_tests(ctx, needle)
        whole = _field_tests(ctx, needle, want_field_level=True)
        what = f"FormattedValue|{label}|subject"
        if whole:
            rr.fail(
                f"C04-R7|JoinedStr|{label}|refusal-covers-format-spec",
                f"{U.gen_map['JoinedStr'].where()}: the {label} test is applied to the text of the whole replacement field, format spec included. In a format spec an escape is legal on every Python version (the spec is part of the string literal), and the escaper writes the f-string's own quote, a tab or a backslash of the spec as an escape: `x = 5; print(f\"{{x:'>4}}\")`, `f\"{{x:\\t>4}}\"`, `f\"{{d:%H\\\\%M}}\"` are refused with SyntaxError under unparser=oneliner although `f'{{x:\\'>4}}'` runs on 3.8-3.13",
                where=U.gen_map["JoinedStr"].where(), what=what,
            )
        else:
            rr.ok(what, sample={"rule": "C04-R7", "needle": label, "tested": where or "nowhere (see C15-R2)"})
    return rr


RULES = [("C02-R5", _c02r5), ("C03-R7", _driver), ("C04-R1", rule_r1), ("C04-R2", rule_r2), ("C04-R3", rule_r3), ("C04-R4", rule_r4), ("C04-R6", rule_r6), ("C04-R7", rule_r7), ("C04-R8", rule_r8)]
