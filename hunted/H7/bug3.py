"""the helper modules of the output are reached through the ordinary names `itertools`
(every `while`) and `importlib` (every `import`); a function that binds one of these names
itself (local import, parameter) captures the helper's name -> UnboundLocalError/AttributeError."""
import sys, os
sys.path.insert(0, os.path.dirname(os.path.abspath(__file__)))
from _common import *

SCRIPTS = {
    "local `import importlib`": '''
def load(name):
    import importlib
    return importlib.import_module(name).__name__
print(load("json"))
''',
    "while loop, later local `import itertools`": '''
def pairs(xs):
    k = 0
    while k < len(xs) and xs[k] is None:
        k += 1
    import itertools
    return list(itertools.combinations(xs[k:], 2))
print(pairs([None, 1, 2, 3]))
''',
    "conditional local import": '''
def f(x):
    n = 0
    while n < 3:
        n += 1
    if x:
        import itertools
        return list(itertools.chain([n], [x]))
    return n
print(f(1), f(0))
''',
}
bad = 0
for name, src in SCRIPTS.items():
    for combo in COMBOS:
        d = differs(src, combo)
        if d:
            bad += 1
            print(name, combo, "->", d)
print("defect present" if bad else "ok")
sys.exit(1 if bad else 0)
