"""bug4: annotations are never evaluated.

PendingFunctionDef copies the parameters without their annotations and drops
`returns`; PendingAssign returns [] for `x: ann` and ignores the annotation of
`x: ann = value`.  Without `from __future__ import annotations` Python evaluates
all of them (at `def` time, in order: parameters, then return; at the annotated
assignment at module/class level), so side effects are lost and the order of
output changes.  (That `__annotations__` is empty is metadata and out of scope;
this is about the evaluation itself.)  All 8 option combinations, all versions
(checked on the host; 3.14 evaluates lazily).
"""

import contextlib
import io
import itertools
import json
import os
import subprocess
import sys
import tempfile

sys.path.insert(0, os.environ["OLREPO"])
import oneliner  # noqa: E402
from oneliner import Configs  # noqa: E402

COMBOS = list(
    itertools.product(
        ["ast.unparse", "oneliner"], ["list", "chain_call"], ["if_expr", "short_circuit"]
    )
)
PYENV = "/root/.pyenv/versions/%s/bin/python"


def convert(src, combo):
    c = Configs()
    c.unparser, c.expr_wrapper, c.if_style = combo
    return oneliner.convert_code_string(src, configs=c)


def run_here(text, mode):
    """exec/eval `text` in a fresh namespace -> (stdout, exception or None)"""
    buf = io.StringIO()
    try:
        with contextlib.redirect_stdout(buf):
            code = compile(text, "<%s>" % mode, mode)
            (exec if mode == "exec" else eval)(code, {"__name__": "__main__"})
        return buf.getvalue(), None
    except BaseException as e:  # noqa
        return buf.getvalue(), "%s: %s" % (type(e).__name__, str(e)[:100])


_RUNNER = """
import sys, io, contextlib, json
mode, path = sys.argv[1], sys.argv[2]
txt = open(path, encoding="utf8").read()
buf = io.StringIO(); exc = None
try:
    with contextlib.redirect_stdout(buf):
        code = compile(txt, "<%s>" % mode, mode)
        (exec if mode == "exec" else eval)(code, {"__name__": "__main__"})
except BaseException as e:
    exc = "%s: %s" % (type(e).__name__, str(e)[:100])
sys.stdout.write(json.dumps([buf.getvalue(), exc]))
"""


def run_on(version, text, mode):
    """same as run_here on another interpreter; None when it is not installed"""
    exe = PYENV % version
    if not os.path.exists(exe):
        return None
    with tempfile.TemporaryDirectory() as d:
        runner = os.path.join(d, "runner.py")
        script = os.path.join(d, "script.txt")
        with open(runner, "w") as f:
            f.write(_RUNNER)
        with open(script, "w", encoding="utf8") as f:
            f.write(text)
        r = subprocess.run([exe, runner, mode, script], capture_output=True, text=True, timeout=300)
    try:
        out, exc = json.loads(r.stdout)
        return out, exc
    except Exception:
        return "", "runner failed: " + r.stderr[-200:]


SCRIPTS = {
    "parameter and return annotations": (
        "def noisy(x):\n"
        "    print('ann', x)\n"
        "    return int\n"
        "def f(a: noisy(1), b: noisy(2) = 3, *c: noisy(3), d: noisy(4) = 4) -> noisy(5):\n"
        "    return a\n"
        "print(f(1))\n"
    ),
    "annotated assignment at module level": (
        "seen = []\n"
        "def reg(name):\n"
        "    seen.append(name)\n"
        "    return int\n"
        "x: reg('x') = 1\n"
        "y: reg('y')\n"
        "print(seen)\n"
    ),
}

bad = 0
for title, src in SCRIPTS.items():
    expected = run_here(src, "exec")
    if expected[1] is not None or sys.version_info >= (3, 14):
        continue
    for combo in COMBOS:
        observed = run_here(convert(src, combo), "eval")
        if observed != expected:
            bad += 1
            print("[%s] %s: expected %r, got %r" % (title, "/".join(combo), expected, observed))

print("bug4: %d differing runs" % bad)
sys.exit(1 if bad else 0)
