"""Maintenance tool: run tools/try_seed.py on many (diff, demo) pairs in parallel and print one line each.
usage: try_seeds_batch.py <out root> <dir>/<i> ...   (e.g. /tmp/wt-out3 Y01/1 Y01/2)"""
import concurrent.futures, json, os, subprocess, sys
VERIF = os.path.dirname(os.path.dirname(os.path.abspath(__file__)))
root = sys.argv[1]
def one(s):
    d, i = s.split('/')
    r = subprocess.run(['/venv/bin/python', os.path.join(VERIF, 'tools', 'try_seed.py'), f'{root}/{d}/change{i}.diff', f'{root}/{d}/demo{i}.py'], capture_output=True, text=True, cwd=VERIF)
    try:
        j = json.loads(r.stdout[r.stdout.index('{'):])
    except Exception:
        return s, None, r.stdout[-300:] + r.stderr[-300:]
    return s, j, ''
with concurrent.futures.ThreadPoolExecutor(max_workers=4) as ex:
    for s, j, err in ex.map(one, sys.argv[2:]):
        if j is None:
            print(s, 'ERROR', err); continue
        own = 'C' + s.split('/')[0][1:]
        caught = j.get('caught', {})
        status = 'OWN' if own in caught else ('other' if caught else 'MISSED')
        conf = f"demo {j.get('demo_with_change_rc')}/{j.get('demo_without_change_rc')} tests={str(j.get('tests'))[:12]}"
        keys = sorted({k for v in caught.values() for k in v})[:3]
        errs = {p: [e[:90] for e in v][:1] for p, v in j.get('analysis_errors', {}).items()}
        print(f"{s}: {status} [{conf}] caught_by={sorted(caught)} {keys} AE={errs if errs else ''}", flush=True)
