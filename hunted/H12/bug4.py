"""bug4: conversion time is quadratic in the number of `def` / `class` statements of one scope.
PendingFunctionDef.__init__ / PendingClassDef.__init__ find their namespace with a linear search over
`self.nsp.inner_nsp` (comparing symt.get_lineno() and get_name()), and every first Namespace*.get_assign /
get_load_name of a name inside a function or class goes to symtable.lookup, which scans all child tables.
2000 defs: 0.7 s, 8000: 7 s, 32000: 90 s (assignments: 32000 in 2 s). Deterministic check: count the calls
of SymbolTable.get_lineno made by the converter for n and 2n functions (linear -> x2, quadratic -> x4)."""
import sys, os, time, symtable

sys.path.insert(0, os.environ["OLREPO"])
import oneliner
from oneliner.config import Configs

calls = [0]
_orig = symtable.SymbolTable.get_lineno


def counting(self):
    calls[0] += 1
    return _orig(self)


symtable.SymbolTable.get_lineno = counting


def defs(n):
    return "".join("def f%d(a):\n    return a + %d\n" % (i, i) for i in range(n)) + "print(f0(1))\n"


def methods(n):
    return "class C:\n" + "".join("    def m%d(self):\n        return %d\n" % (i, i) for i in range(n)) + "print(C().m0())\n"


cfg = Configs()
cfg.unparser, cfg.expr_wrapper = "oneliner", "list"
bad = 0
for name, gen in (("module level defs", defs), ("methods of one class", methods)):
    res = []
    for n in (500, 1000, 2000):
        calls[0] = 0
        t = time.time()
        oneliner.convert_code_string(gen(n), configs=cfg)
        res.append((n, calls[0], time.time() - t))
    for n, c, t in res:
        print("%-22s n=%5d  get_lineno calls=%9d  time=%.2fs" % (name, n, c, t))
    ratio = res[2][1] / max(1, res[1][1])
    print("   calls(2000)/calls(1000) = %.2f  (2 = linear, 4 = quadratic)" % ratio)
    if ratio > 3:
        bad += 1
sys.exit(1 if bad else 0)
