"""bug1: `yield` in statements that follow a return/break/continue is never seen.

_PendingCompoundStmt._iter_branch (pending_nodes.py) stops converting a block
after the first Return/Break/Continue ("remove nodes after an interrupt
operation since they never run").  The dropped statements are not inspected at
all, so a `yield` / `yield from` (README: not convertible, must be refused)
sitting there is silently accepted - although in Python the mere presence of
`yield` makes the function a generator function.  The classic idiom

    def empty():
        return
        yield

is converted into a plain function that returns None.  All 8 option
combinations, every host/runtime version.
"""

import contextlib
import io
import itertools
import json
import os
import subprocess
import sys
import tempfile

sys.path.insert(0, os.environ["OLREPO"])
import oneliner  # noqa: E402
from oneliner import Configs  # noqa: E402

COMBOS = list(
    itertools.product(
        ["ast.unparse", "oneliner"], ["list", "chain_call"], ["if_expr", "short_circuit"]
    )
)
PYENV = "/root/.pyenv/versions/%s/bin/python"


def convert(src, combo):
    c = Configs()
    c.unparser, c.expr_wrapper, c.if_style = combo
    return oneliner.convert_code_string(src, configs=c)


def run_here(text, mode):
    """exec/eval `text` in a fresh namespace -> (stdout, exception or None)"""
    buf = io.StringIO()
    try:
        with contextlib.redirect_stdout(buf):
            code = compile(text, "<%s>" % mode, mode)
            (exec if mode == "exec" else eval)(code, {"__name__": "__main__"})
        return buf.getvalue(), None
    except BaseException as e:  # noqa
        return buf.getvalue(), "%s: %s" % (type(e).__name__, str(e)[:100])


_RUNNER = """
import sys, io, contextlib, json
mode, path = sys.argv[1], sys.argv[2]
txt = open(path, encoding="utf8").read()
buf = io.StringIO(); exc = None
try:
    with contextlib.redirect_stdout(buf):
        code = compile(txt, "<%s>" % mode, mode)
        (exec if mode == "exec" else eval)(code, {"__name__": "__main__"})
except BaseException as e:
    exc = "%s: %s" % (type(e).__name__, str(e)[:100])
sys.stdout.write(json.dumps([buf.getvalue(), exc]))
"""


def run_on(version, text, mode):
    """same as run_here on another interpreter; None when it is not installed"""
    exe = PYENV % version
    if not os.path.exists(exe):
        return None
    with tempfile.TemporaryDirectory() as d:
        runner = os.path.join(d, "runner.py")
        script = os.path.join(d, "script.txt")
        with open(runner, "w") as f:
            f.write(_RUNNER)
        with open(script, "w", encoding="utf8") as f:
            f.write(text)
        r = subprocess.run([exe, runner, mode, script], capture_output=True, text=True, timeout=300)
    try:
        out, exc = json.loads(r.stdout)
        return out, exc
    except Exception:
        return "", "runner failed: " + r.stderr[-200:]


SCRIPTS = {
    "empty generator idiom": (
        "def empty():\n"
        "    return\n"
        "    yield\n"
        "print(list(empty()))\n"
    ),
    "yield after return with a value": (
        "def g():\n"
        "    return 5\n"
        "    yield 1\n"
        "print(type(g()).__name__)\n"
    ),
    "yield from after return": (
        "def g():\n"
        "    return 5\n"
        "    yield from ()\n"
        "print(type(g()).__name__)\n"
    ),
    "yield after break in a loop": (
        "def f(xs):\n"
        "    for x in xs:\n"
        "        break\n"
        "        yield x\n"
        "    return 3\n"
        "print(type(f([1])).__name__)\n"
    ),
}

bad = 0
for title, src in SCRIPTS.items():
    expected = run_here(src, "exec")
    for combo in COMBOS:
        try:
            text = convert(src, combo)
        except (RuntimeError, SyntaxError, NotImplementedError):
            continue  # refused: the documented behaviour for yield
        observed = run_here(text, "eval")
        if observed != expected:
            bad += 1
            print("[%s] %s: yield silently accepted; expected %r, got %r"
                  % (title, "/".join(combo), expected, observed))

print("bug1: %d differing runs" % bad)
sys.exit(1 if bad else 0)
