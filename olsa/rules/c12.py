"""C12 - classes keep their members, bases, metaclass, method kinds and super()."""
from __future__ import annotations

from ..core import AnalysisError, RuleResult
from ..semwalk import events_of, iter_tnodes
from ..vals import Cst, Fresh, PList, Rep, TNode, Transf, UNode, UPrim, is_none
import re

from .common import kinds_label, norm_path, path_events, short_ctx

EXPLANATION = (
    "Template rules on PendingClassDef / PendingFunctionDef: C12-R1 header (bases -> tuple argument "
    "in order, keywords other than metaclass -> call keywords in order, metaclass -> callee else "
    "`type`, decorators consumed and applied after the members are installed); C12-R2 the class name "
    "is stored through the defining namespace and the loader's __class__ / setattr receiver load the "
    "same name there; C12-R3 the loader returns the class dict that member stores go to and the "
    "install loop setattr's every item of exactly that dict; C12-R4 a method loads the free name "
    "__class__ iff it uses zero-argument super and the loader binds __class__ before the body; "
    "C12-R5 the implicit-classmethod set equals {__init_subclass__, __class_getitem__} (data model "
    "3.3.3.1, 3.3.5), only for methods; C06-R6 instance for attributes defined under version guards; "
    "C06-R4 instance for the class namespace (owner of a free name read by a class body)."
    ' C12-R7 zero-argument super() in converter-built frames; C12-R8 class-private names; C12-R9 class creation protocol; shared: C06-R3 (class namespace), C06-R5 (lazy class-dict fallback), C06-R11 (comprehension tables in class bodies), C07-R2 (ClassDef order).'
)
ASSUMPTIONS = ["metaclass derivation, __prepare__, __set_name__, MRO are run-time behaviour of type(...) (not decided)"]

IMPLICIT_CLASSMETHODS = {"__init_subclass__", "__class_getitem__"}


def _class_call(pr):
    """The $Store of the class name whose value is the metaclass call."""
    res = pr.result
    items = res.items if isinstance(res, PList) else []
    for i in items:
        if isinstance(i, TNode) and i.kind == "$Store" and isinstance(i.fields.get("value"), TNode) and i.fields["value"].kind == "Call":
            args = i.fields["value"].fields.get("args")
            if isinstance(args, PList) and len(args.items) == 3:
                return i
    return None


def rule_r1(ctx):
    rr = RuleResult("C12-R1", "class header: bases tuple in order, keywords in order, metaclass as callee else type, decorators applied")
    rr.floor = 2
    entry = ctx.tmpl.pending_by_kind("ClassDef")
    for pr in entry.ok_paths():
        rr.instances += 1
        node = pr.extra["node"]
        what = f"ClassDef|header|{short_ctx(pr, 80)}"
        st = _class_call(pr)
        if st is None:
            rr.fail("C12-R1|ClassDef|no-class-call", "PendingClassDef: no `name := metaclass(name, bases, {})` in the template", what=what)
            continue
        call = st.fields["value"]
        a = call.fields["args"].items
        bad = None
        n0 = a[0].fields.get("value") if isinstance(a[0], TNode) and a[0].kind == "Constant" else None
        if not (isinstance(n0, UPrim) and n0.field == "name" and n0.parent is node):
            bad = ("name-arg", "argument 0 of the metaclass call is not the class name")
        bases = a[1]
        ok_b = False
        if isinstance(bases, TNode) and bases.kind == "Tuple":
            elts = bases.fields.get("elts")
            if isinstance(elts, PList) and len(elts.items) == 1 and isinstance(elts.items[0], Rep):
                r = elts.items[0]
                if norm_path(r.over).endswith("ClassDef.bases") and not r.over.startswith("reversed(") and len(r.items) == 1:
                    it = r.items[0]
                    if isinstance(it, Transf) and isinstance(it.inner, UNode) and it.inner.field == "bases":
                        ok_b = True
        if not ok_b and bad is None:
            bad = ("bases", f"argument 1 is not the tuple of the rewritten bases in source order (got {_show(bases)})")
        if not (isinstance(a[2], TNode) and a[2].kind == "Dict") and bad is None:
            bad = ("namespace-arg", "argument 2 is not a dict display")
        # keywords / metaclass
        meta_ctx = any("=='metaclass'" in k and v is True for k, v in pr.assign.items())
        func = call.fields.get("func")
        kws = call.fields.get("keywords")
        if meta_ctx:
            if not (isinstance(func, Transf) and isinstance(func.inner, UNode) and func.inner.field == "value") and bad is None:
                bad = ("metaclass", "with a metaclass keyword the callee is not the rewritten metaclass expression")
            if isinstance(kws, PList) and kws.items and bad is None:
                bad = ("metaclass-as-keyword", "the metaclass keyword is also passed on as a class keyword")
        else:
            if not (isinstance(func, TNode) and func.kind == "Name" and isinstance(func.fields.get("id"), Cst) and func.fields["id"].value == "type") and bad is None:
                bad = ("default-metaclass", "without a metaclass keyword the callee is not `type`")
            ok_k = False
            if isinstance(kws, PList) and len(kws.items) == 1 and isinstance(kws.items[0], Rep):
                r = kws.items[0]
                if norm_path(r.over).endswith("ClassDef.keywords") and not r.over.startswith("reversed(") and len(r.items) == 1:
                    k = r.items[0]
                    if isinstance(k, TNode) and k.kind == "keyword":
                        ka, kv = k.fields.get("arg"), k.fields.get("value")
                        if isinstance(ka, UPrim) and ka.field == "arg" and isinstance(kv, Transf) and isinstance(kv.inner, UNode) and kv.inner.field == "value" and kv.inner.parent is ka.parent:
                            ok_k = True
            if not ok_k and bad is None:
                bad = ("keywords", f"class keywords are not passed as keyword(arg, rewritten value) in source order (got {_show(kws)})")
        if bad:
            rr.fail(f"C12-R1|ClassDef|{bad[0]}", f"PendingClassDef ({call.site}): {bad[1]} [context: {short_ctx(pr, 80)}]", where=call.site, what=what)
        else:
            rr.ok(what, sample={"rule": "C12-R1", "metaclass_keyword": meta_ctx, "verdict": "metaclass(name, (bases...), {}, **keywords)"})
    # decorators consumed (C08-R5) and applied after installation
    from .c08 import rule_r5 as c08r5

    for f in c08r5(ctx).findings:
        if "ClassDef.decorator_list" in f.key:
            rr.fail("C12-R1|ClassDef|decorators-dropped", "PendingClassDef: ClassDef.decorator_list is never read: class decorators are silently dropped (`@deco class A: ...` yields the undecorated class)")
    for pr in entry.ok_paths():
        evs, w = path_events(pr)
        decs = [e for e in evs if e.kind == "X" and e.path.startswith("ClassDef.decorator_list")]
        if decs:
            rr.instances += 1
            install = [e for e in evs if e.kind == "call" and isinstance(e.node, TNode) and _is_name_call(e.node, "setattr") and e.mult]
            stores = [e for e in evs if e.kind == "store"]
            what = "ClassDef|decorators-applied"
            if not install or len(stores) < 2 or stores[-1].pos < install[-1].pos:
                rr.fail("C12-R1|ClassDef|decorators-not-applied-last", "PendingClassDef: decorators are not applied (result rebound to the class name) after the members are installed", what=what)
            else:
                rr.ok(what)
    return rr


def _is_name_call(t, name):
    f = t.fields.get("func")
    return isinstance(f, TNode) and f.kind == "Name" and isinstance(f.fields.get("id"), Cst) and f.fields["id"].value == name


def _show(v):
    from ..tmpl import show

    return show(v, maxdepth=4)[:120] if v is not None else "nothing"


def rule_r23(ctx):
    rr = RuleResult("C12-R2", "class binding / self-reference / member installation use one name, one namespace, one dict")
    rr.floor = 1
    entry = ctx.tmpl.pending_by_kind("ClassDef")
    for pr in entry.ok_paths():
        rr.instances += 1
        node = pr.extra["node"]
        evs, w = path_events(pr)
        what = f"ClassDef|binding|{short_ctx(pr, 60)}"
        bad = None
        st = _class_call(pr)
        if st is None:
            continue
        nm = st.fields["name"]
        if not (isinstance(nm, UPrim) and nm.field == "name" and nm.parent is node and getattr(st.fields["nsp"], "tag", None) == "self.nsp"):
            bad = ("class-name-store", "the class object is not stored to ClassDef.name through the defining namespace")
        loads = [e for e in evs if e.kind == "load"]
        for e in loads:
            n = e.extra.get("name")
            if not (isinstance(n, UPrim) and n.field == "name" and n.parent is node and getattr(e.extra.get("nsp_obj"), "tag", None) == "self.nsp"):
                bad = bad or ("self-reference", f"a load at {e.site} does not read ClassDef.name in the defining namespace")
        # __class__ := LOAD(name) inside the loader, before the body
        cls_binds = [e for e in evs if e.kind == "bind-const" and e.path == "__class__"]
        body = [e for e in evs if e.kind == "S" and e.path.startswith("ClassDef.body")]
        if not cls_binds or not body or cls_binds[0].pos > body[0].pos or cls_binds[0].deferred != body[0].deferred:
            bad = bad or ("class-cell", "the loader does not bind __class__ to the class before the lowered body (zero-argument super() in methods fails)")
        else:
            ne = cls_binds[0].extra.get("namedexpr")
            v = ne.fields.get("value") if ne is not None else None
            if not (isinstance(v, TNode) and v.kind == "$Load" and isinstance(v.fields.get("name"), UPrim) and v.fields["name"].field == "name" and v.fields["name"].parent is node and getattr(v.fields.get("nsp"), "tag", None) == "self.nsp"):
                bad = bad or ("self-reference", "the loader binds __class__ to something other than get_load_name(ClassDef.name) of the defining namespace (a class stored in a nonlocal/class dict is not found)")
        # R3: loader returns the dict; install loop
        dict_binds = [e for e in evs if e.kind == "bind-fresh" and "CLASS_DICT" in (e.path or "").upper()]
        dict_loads = [e for e in evs if e.kind == "load-fresh" and "CLASS_DICT" in (e.path or "").upper()]
        if not dict_binds or not dict_loads or dict_loads[-1].extra["fresh"] is not dict_binds[0].extra["fresh"] or dict_loads[-1].pos < body[0].pos if body else True:
            bad = bad or ("loader-result", "the loader does not return the class member dict it created (last element of the body list)")
        loader_lams = [t for t in iter_tnodes(pr.result) if t.kind == "Lambda" and any(e.kind == "S" for e in events_of(t.fields.get("body"))[0])]
        for lam in loader_lams:
            b = lam.fields.get("body")
            idx = b.fields.get("slice") if isinstance(b, TNode) and b.kind == "Subscript" else None
            neg1 = (isinstance(idx, TNode) and idx.kind == "Constant" and isinstance(idx.fields.get("value"), Cst) and idx.fields["value"].value == -1) or (
                isinstance(idx, TNode) and idx.kind == "UnaryOp" and isinstance(idx.fields.get("operand"), TNode) and isinstance(idx.fields["operand"].fields.get("value"), Cst) and idx.fields["operand"].fields["value"].value == 1)
            if not neg1:
                bad = bad or ("loader-index", "the loader's body list is not indexed with -1")
        comps = [t for t in iter_tnodes(pr.result) if t.kind == "ListComp"]
        ok_install = False
        for c in comps:
            elt = c.fields.get("elt")
            gens = c.fields.get("generators")
            g = gens.items[0] if isinstance(gens, PList) and gens.items else None
            if not (isinstance(elt, TNode) and elt.kind == "Call" and _is_name_call(elt, "setattr") and isinstance(g, TNode)):
                continue
            args = elt.fields["args"].items
            tgt = g.fields.get("target")
            it = g.fields.get("iter")
            tn = [x.fields.get("id") for x in (tgt.fields.get("elts").items if isinstance(tgt, TNode) and tgt.kind == "Tuple" else []) if isinstance(x, TNode)]
            an = [x.fields.get("id") if isinstance(x, TNode) and x.kind == "Name" else None for x in args[1:3]]
            same = len(tn) == 2 and len(an) == 2 and all(isinstance(p, Cst) and isinstance(q, Cst) and p.value == q.value for p, q in zip(tn, an)) and tn[0].value != tn[1].value
            recv = args[0]
            recv_ok = isinstance(recv, TNode) and recv.kind == "$Load"
            items_call = isinstance(it, TNode) and it.kind == "Call" and isinstance(it.fields.get("func"), TNode) and it.fields["func"].kind == "Attribute" and isinstance(it.fields["func"].fields.get("attr"), Cst) and it.fields["func"].fields["attr"].value == "items"
            if same and recv_ok and items_call:
                ok_install = True
        if not ok_install:
            bad = bad or ("install-loop", "no `[setattr(cls, k, v) for k, v in loader().items()]` install loop over the loader's dict")
        if bad:
            rr.fail(f"C12-R2|ClassDef|{bad[0]}", f"PendingClassDef: {bad[1]} [context: {short_ctx(pr, 80)}]", what=what)
        else:
            rr.ok(what, sample={"rule": "C12-R2/R3", "verdict": "name stored+loaded in self.nsp; __class__ bound before body; loader returns its dict; setattr(cls, k, v) over items()"})
    return rr


def rule_r4(ctx):
    rr = RuleResult("C12-R4", "a method loads the free name __class__ iff it uses zero-argument super")
    rr.floor = 2
    entry = ctx.tmpl.pending_by_kind("FunctionDef")
    for pr in entry.ok_paths():
        zas = [v for k, v in pr.assign.items() if "zero_arg_super_used" in k]
        if not zas:
            continue
        rr.instances += 1
        evs, w = path_events(pr)
        loads = [e for e in evs if e.kind == "load-const" and e.path == "__class__" and e.deferred >= 1]
        what = f"FunctionDef|__class__|zero_arg_super={zas[0]}"
        if zas[0] and not loads:
            rr.fail("C12-R4|FunctionDef|class-cell-not-captured", "PendingFunctionDef: a method using zero-argument super() does not reference __class__ in its lambda body (no closure cell: super() raises RuntimeError)", what=what)
        elif not zas[0] and loads:
            rr.fail("C12-R4|FunctionDef|class-cell-always-loaded", "PendingFunctionDef: __class__ is loaded although zero-argument super is not used (NameError outside a class)", what=what)
        else:
            rr.ok(what, sample={"rule": "C12-R4", "zero_arg_super_used": zas[0], "loads___class__": bool(loads)})
    if rr.instances == 0:
        rr.fail("C12-R4|FunctionDef|zero-arg-super-not-consulted", "PendingFunctionDef never consults zero_arg_super_used", what="consulted")
    return rr


def rule_r5(ctx):
    rr = RuleResult("C12-R5", "implicit class methods: exactly __init_subclass__ and __class_getitem__, only for methods")
    rr.floor = 2
    entry = ctx.tmpl.pending_by_kind("FunctionDef")
    if not entry.ok_paths():
        raise AnalysisError("C12-R5: the FunctionDef template could not be extracted: nothing is concluded about the implicit class methods")
    wrapped_names = set()
    consulted_names = set()
    for pr in entry.ok_paths():
        evs, w = path_events(pr)
        wraps = [e for e in evs if e.kind == "call" and isinstance(e.node, TNode) and _is_name_call(e.node, "classmethod")]
        is_method = [v for k, v in pr.assign.items() if "is_method" in k]
        name_tests = {k.split("==")[-1].strip("'\""): v for k, v in pr.assign.items() if k.startswith("eq:") and "FunctionDef.name==" in k and "get_name" not in k}
        node = pr.extra["node"]
        fixed = node.fields["name"].facts.get("value") if "name" in node.fields else None
        for n in name_tests:
            consulted_names.add(n)
        if fixed in IMPLICIT_CLASSMETHODS and is_method and is_method[0] and not wraps:
            rr.fail(
                f"C12-R5|{fixed}|not-wrapped-on-some-path",
                f"PendingFunctionDef.get_result: on the path [{short_ctx(pr, 140)}] the method `{fixed}` is not passed through classmethod(): type.__new__ makes it a class method whenever the (decorated) attribute is a plain function, e.g. under a tracing decorator built with functools.wraps; stored as a plain function, `cls` is not bound (TypeError on subclass creation / subscription)",
                what=f"wrap|every-path|{fixed}",
            )
        if fixed is None and not wraps and (not is_method or is_method[0]):
            # the path ends without the wrap although the method's name was never compared with
            # (or not excluded from) the implicit names: some other test - the decorator list, an
            # option - short-circuited the decision
            excluded = {n for n, v in name_tests.items() if v is False}
            for n in sorted(IMPLICIT_CLASSMETHODS - excluded):
                rr.fail(
                    f"C12-R5|{n}|not-wrapped-on-some-path",
                    f"PendingFunctionDef.get_result: the path [{short_ctx(pr, 140)}] stores a method without classmethod() and without having excluded the name `{n}`: type.__new__ makes `{n}` a class method whenever the (decorated) attribute is a plain function; stored as a plain function, `cls` is not bound (TypeError on subclass creation / subscription)",
                    what=f"wrap|every-path|{n}",
                )
        if wraps:
            # Python makes these methods class methods AFTER the decorators have been applied
            stores = [e for e in evs if e.kind == "store" and isinstance(e.extra.get("name"), UPrim) and e.extra["name"].field == "name"]
            outer = stores[-1].node.fields.get("value") if stores else None
            if not (isinstance(outer, TNode) and outer.kind == "Call" and _is_name_call(outer, "classmethod")):
                rr.fail(
                    "C12-R5|FunctionDef|wrap-not-outermost",
                    f"PendingFunctionDef.get_result: the implicit classmethod() wrap is applied BEFORE the method's own decorators: a decorator on __init_subclass__/__class_getitem__ receives a classmethod object instead of the function ('classmethod' object is not callable) [context: {short_ctx(pr, 90)}]",
                    what="wrap|order",
                )
            if fixed:
                wrapped_names.add(fixed)
            if is_method and not is_method[0]:
                rr.fail("C12-R5|FunctionDef|wrap-outside-class", "PendingFunctionDef wraps a plain function (not a method) in classmethod()", what="wrap|not-method")
            if not is_method:
                rr.fail("C12-R5|FunctionDef|wrap-without-method-test", "PendingFunctionDef wraps in classmethod() without testing is_method", what="wrap|no-test")
            if not fixed:
                rr.fail("C12-R5|FunctionDef|wrap-any-name", f"PendingFunctionDef wraps in classmethod() without a test on the method name [context: {short_ctx(pr, 90)}]", what="wrap|anyname")
    for n in sorted(IMPLICIT_CLASSMETHODS | wrapped_names):
        rr.instances += 1
        what = f"implicit-classmethod|{n}"
        if n in IMPLICIT_CLASSMETHODS and n not in wrapped_names:
            rr.fail(
                f"C12-R5|{n}|not-wrapped",
                f"PendingFunctionDef.get_result: `{n}` is an implicit class method (data model 3.3.3.1 / 3.3.5) but is not wrapped in classmethod(): installed with setattr it becomes a plain function (`A[int]` -> TypeError)",
                what=what,
            )
        elif n not in IMPLICIT_CLASSMETHODS:
            rr.fail(f"C12-R5|{n}|wrongly-wrapped", f"PendingFunctionDef.get_result wraps `{n}` in classmethod(), which Python does not do implicitly", what=what)
        else:
            rr.ok(what, sample={"rule": "C12-R5", "name": n, "verdict": "wrapped in classmethod() when is_method"})
    return rr


def rule_r7(ctx):
    """Zero-argument `super()` reads `__class__` and the FIRST ARGUMENT OF THE FRAME IT IS CALLED IN.
    The converter moves user code into frames of its own: the test of a `while` into
    `lambda _: test`, loop bodies into the element of a comprehension (a function of its own before
    Python 3.12).  There the first argument is `_` / the iterator `.0`, so a verbatim `super()`
    fails (`super(type, obj): obj must be an instance or subtype of type`) - the lambda case on every
    version, the comprehension case on 3.8-3.11.  Either no user hole lies in such a frame, or the
    expression rewriter spells the two arguments out: super(__class__, <first parameter>)."""
    from .exprcopy import all_expr_paths

    rr = RuleResult("C12-R7", "zero-argument super() keeps working in the frames the converter introduces (lambda, comprehension)")
    rr.floor = 3
    # does the rewriter turn super() into super(__class__, <first parameter>)?
    rewritten = False
    saw_test = False
    verbatim_paths = []
    for pr in all_expr_paths(ctx).get("Call", []):
        tests = [k for k, v in pr.assign.items() if "'super'" in k and v is True]
        if not tests:
            continue
        saw_test = True
        if pr.outcome != "ok" or not any("zero_arg_super_used" in k and v is True for k, v in pr.assign.items()):
            continue
        # the call has no arguments, the method uses zero-argument super and has a parameter: is the
        # call rewritten on THIS path, whatever else the path assumes?
        no_args = all(v is False for k, v in pr.assign.items() if re.search(r"(nonempty|truthy|cmp:len).*Call\.(args|keywords)", k)) and any(re.search(r"Call\.(args|keywords)", k) for k in pr.assign)
        has_param = not any("get_parameters" in k and v is False for k, v in pr.assign.items())
        t = pr.result
        t = getattr(t, "inner", t)
        for c in iter_tnodes(t):
            if c.kind == "Call":
                args = c.fields.get("args")
                items = args.items if isinstance(args, PList) else []
                if len(items) == 2:
                    a0 = getattr(items[0], "inner", items[0])
                    ids = [x.fields.get("id") for x in iter_tnodes(a0) if x.kind == "Name"] if isinstance(a0, TNode) else []
                    if any(isinstance(i, Cst) and i.value == "__class__" for i in ids) or "__class__" in str(getattr(a0, "desc", "")):
                        rewritten = True
                        break
        else:
            if no_args and has_param:
                verbatim_paths.append(pr)
    if rewritten and verbatim_paths:
        # rewritten on some paths only: the extra condition is state of the converter at the moment
        # the expression happens to be rewritten (open loops, open comprehensions), not a property of
        # the frame the call ends up in
        extra = sorted({k.split("=")[0] for pr in verbatim_paths for k, v in pr.assign.items() if not re.search(r"super|zero_arg_super_used|get_parameters|Call\.(args|keywords|func)|ctx:nsp", k)})
        rr.instances += 1
        rr.fail(
            "C12-R7|Call|super-rewrite-conditional",
            f"ExpressionTransformer.get_pending: a zero-argument super() in a method is rewritten to super(__class__, <first parameter>) only on some paths; it stays verbatim when [{'; '.join(extra)[:160]}]. The test of a `while` is rewritten after the loop has been popped from the loop stack, the outermost iterable of a comprehension while the comprehension is already registered: `while super().more(): ...` / `[v for v in super().items()]` inside a loop keep the bare call in a foreign frame (TypeError)",
            what="Call|super-rewrite|conditional",
        )
    T = ctx.tmpl
    seen = set()
    for ci, kinds, entry in T.all_pending():
        for pr in entry.ok_paths():
            kind = kinds_label(pr.extra["node"].kinds)
            evs, w = path_events(pr)
            for e in evs:
                if e.kind not in ("X", "S", "raw"):
                    continue
                hole = re.sub(r":[A-Za-z|]+", "", e.path or "")
                own_body = hole.startswith(("FunctionDef.body", "ClassDef.body"))
                lam = e.deferred - (1 if own_body else 0)
                if not e.comp_elt and lam < 1:
                    continue
                frame = "lambda" if lam >= 1 else "comprehension"
                key = (kind, hole, frame)
                if key in seen:
                    continue
                seen.add(key)
                rr.instances += 1
                what = f"{kind}|{hole}|{frame}"
                if rewritten:
                    rr.ok(what, sample={"rule": "C12-R7", "hole": hole, "frame": frame, "verdict": "super() is rewritten to super(__class__, <first parameter>)"})
                else:
                    when = "on every Python version" if frame == "lambda" else "on Python 3.8-3.11 (the text runs on 3.12+)"
                    rr.fail(
                        f"C12-R7|{kind}|{hole}|zero-arg-super-in-{frame}-frame",
                        f"{ci.name}: {hole} is evaluated inside a converter-built {frame}; `super()` is emitted verbatim{' (the rewriter tests for it but does not produce super(__class__, first parameter))' if saw_test else ''}, and the first argument of that frame is not the method's: `while super().more(): ...` / `for i in r: acc += super().m(i)` in a method raise TypeError {when}",
                        what=what,
                    )
    return rr


def rule_r8(ctx):
    """Private name mangling (language reference 6.2.1): an identifier `__spam` that occurs textually
    inside a class definition (in the class body or in its methods) and does not end in two
    underscores is spelt `_Class__spam` by the compiler - in the symbol table, in attribute access
    and in the class dict.  The converter works on the AST, where the identifier is still `__spam`,
    and its output contains no class statement at all, so nothing is mangled at run time either.
    Two structural consequences are checked: (a) the key used for `symtable` lookups is the raw
    identifier (symtable has the mangled one: KeyError during conversion); (b) attribute names are
    copied verbatim (`self.__x` becomes the attribute `__x`, not `_A__x`)."""
    from .exprcopy import all_expr_paths

    rr = RuleResult("C12-R8", "class-private names: symbol-table keys and attribute names are mangled like the compiler does")
    rr.floor = 3
    T = ctx.tmpl
    root, leaves, glob = T.namespace_leaves()
    # (a) symtable keys
    for ci in leaves:
        if ci is glob:
            continue
        for m in ("get_assign", "get_load_name"):
            e = T.namespace_method(ci, m)
            raw = sorted({k for p in e.paths for k in p.assign if re.search(r"symt\.lookup\(Name\.id\)", k)})
            cooked = sorted({k for p in e.paths for k in p.assign if "symt.lookup(" in k and not re.search(r"symt\.lookup\(Name\.id\)", k)})
            if not raw and not cooked:
                continue
            rr.instances += 1
            what = f"{ci.name}.{m}|symtable-key"
            if raw:
                rr.fail(
                    f"C12-R8|{ci.name}|symtable-key|unmangled",
                    f"{ci.name}.{m}: the symbol table is asked for the identifier exactly as it stands in the AST (`{raw[0].split(':', 1)[-1][:60]}`); for a class-private name (`__x` inside `class A`, also as a local of a method) the table holds `_A__x`: `class A: __x = 1`, `def f(self): __t = 5` and `def __helper(self)` stop the conversion with KeyError",
                    where=ci.module.rel, what=what,
                )
            else:
                rr.ok(what, sample={"rule": "C12-R8", "lookup": cooked[0][:80]})
    # (b) attribute names
    seen = set()
    for kind, paths in all_expr_paths(ctx).items():
        if kind != "Attribute":
            continue
        for pr in paths:
            if pr.outcome != "ok":
                continue
            t = getattr(pr.result, "inner", pr.result)
            for c in iter_tnodes(t) if isinstance(t, TNode) else []:
                if c.kind == "Attribute":
                    rr.instances += 1
                    a = c.fields.get("attr")
                    if isinstance(a, UPrim) and "copier" not in seen:
                        seen.add("copier")
                        rr.fail(
                            "C12-R8|Attribute.attr|unmangled",
                            f"generic expression copier ({c.site}): Attribute.attr is copied verbatim; inside a class `self.__x` means the attribute `_A__x` (6.2.1), the converted program reads and writes `__x`: `vars(obj)` differs, `obj._A__x` fails, and a subclass that uses the same private name overwrites the base class's",
                            where=str(c.site), what="Attribute.attr|copier",
                        )
                    elif not isinstance(a, UPrim):
                        rr.ok("Attribute.attr|copier")
    return rr


def rule_r9(ctx):
    """Class creation protocol (reference 3.3.3): (1) `__mro_entries__` of the bases is resolved
    (`types.resolve_bases`), (2) the metaclass is determined, (3) the namespace is prepared and the
    BODY IS EXECUTED IN IT, (4) the metaclass is called with the POPULATED namespace; `type.__new__`
    then calls `__set_name__` of the attributes, `__init_subclass__` of the parent (which may read
    the class attributes), honours `__slots__`, sets `__hash__ = None` for a class with `__eq__`,
    and wraps `__init_subclass__`/`__class_getitem__` in classmethod only when they are plain
    functions.  Structural clauses checked on the ClassDef / FunctionDef templates."""
    rr = RuleResult("C12-R9", "class creation: bases resolved, body executed before the metaclass call, which receives the populated namespace")
    rr.floor = 2
    entry = ctx.tmpl.pending_by_kind("ClassDef")
    seen = set()
    for pr in entry.ok_paths():
        evs, w = path_events(pr)
        body = [e for e in evs if e.kind == "S" and (e.path or "").startswith("ClassDef.body")]
        creation = None
        for t in iter_tnodes(pr.result):
            if t.kind == "Call":
                args = t.fields.get("args")
                items = args.items if isinstance(args, PList) else []
                if len(items) == 3 and isinstance(items[0], TNode) and items[0].kind == "Constant" and isinstance(items[0].fields.get("value"), UPrim) and isinstance(items[1], TNode) and items[1].kind == "Tuple":
                    creation = t
        rr.instances += 1
        if creation is None:
            raise AnalysisError("C12-R9: the metaclass call (name, bases, namespace) was not found in the ClassDef template")
        ns = creation.fields["args"].items[2]
        empty = isinstance(ns, TNode) and ns.kind == "Dict" and isinstance(ns.fields.get("keys"), PList) and not ns.fields["keys"].items
        if empty and "ns" not in seen:
            seen.add("ns")
            rr.fail(
                "C12-R9|ClassDef|namespace-empty-at-creation",
                "PendingClassDef.get_result: the metaclass is called with an EMPTY namespace `meta(name, bases, {})` and the members are attached afterwards with setattr: a parent's __init_subclass__ (plugin registries) and a metaclass __new__/__init__ see a class without attributes, __set_name__ of descriptors is never called, __slots__ and `__hash__ = None` (class with __eq__) are not honoured, abstract methods do not make the class abstract, enum.Enum subclasses cannot be created",
                what="ClassDef|namespace",
            )
        elif not empty:
            rr.ok("ClassDef|namespace")
        texts = [x.fields.get("id").value for x in iter_tnodes(pr.result) if x.kind == "Name" and isinstance(x.fields.get("id"), Cst)]
        attrs = [x.fields.get("attr").value for x in iter_tnodes(pr.result) if x.kind == "Attribute" and isinstance(x.fields.get("attr"), Cst)]
        if not any(n in ("resolve_bases", "new_class", "prepare_class") for n in texts + attrs) and "bases" not in seen:
            seen.add("bases")
            rr.instances += 1
            rr.fail(
                "C12-R9|ClassDef|bases-not-resolved",
                "PendingClassDef.get_result: the tuple of bases is handed to the metaclass as written; PEP 560 requires `types.resolve_bases` first: `class Stack(typing.Generic[T])` and `class L(list[int])` raise `TypeError: type() doesn't support MRO entry resolution`",
                what="ClassDef|bases",
            )
    # implicit classmethod: only when the (decorated) object is a plain function
    fent = ctx.tmpl.pending_by_kind("FunctionDef")
    for pr in fent.ok_paths():
        evs, w = path_events(pr)
        wraps = [e for e in evs if e.kind == "call" and isinstance(e.node, TNode) and _is_name_call(e.node, "classmethod")]
        if not wraps:
            continue
        rr.instances += 1
        guarded = any(e.guards for e in wraps) or any(t.kind == "IfExp" for t in iter_tnodes(pr.result) if any(c is wraps[0].node for c in iter_tnodes(t)))
        if not guarded and "cm" not in seen:
            seen.add("cm")
            rr.fail(
                "C12-R9|FunctionDef|implicit-classmethod-unconditional",
                "PendingFunctionDef.get_result: __init_subclass__/__class_getitem__ are wrapped in classmethod() unconditionally; type.__new__ wraps them only when the attribute is a plain function. With an explicit `@classmethod` the text contains classmethod(classmethod(f)): TypeError on Python 3.8 and 3.13, `cls` bound to `type` on 3.9",
                what="FunctionDef|implicit-classmethod",
            )
        elif guarded:
            rr.ok("FunctionDef|implicit-classmethod")
    return rr


def rule_c06r6(ctx):
    from .c06 import rule_r6

    src = rule_r6(ctx)
    src.rule = "C12-R6"
    for f in src.findings:
        f.rule = "C12-R6"
        f.key = f.key.replace("C06-R6", "C12-R6")
    return src


def rule_c06r3(ctx):
    """What a class-body name is read from decides the VALUES of the class attributes (shared rule
    C06-R3, restricted to the class namespace)."""
    from .c06 import rule_r3

    src = rule_r3(ctx)
    rr = RuleResult("C06-R3", "class bodies: get_assign and get_load_name denote the same storage (instance of C06-R3)")
    rr.floor = 1
    for f in src.findings:
        if "|NamespaceClass|" in f.key:
            rr.fail(f.key, f.msg, where=f.where)
    rr.instances = max(1, sum(1 for w in map(str, src.nontrivial) if w.startswith("NamespaceClass")))
    for w in sorted(map(str, src.nontrivial)):
        if w.startswith("NamespaceClass"):
            rr.ok(w)
    return rr


def rule_c06r4(ctx):
    """A class body reads the variables of enclosing functions through the owner recorded by
    NamespaceClass.__init__ (shared rule C06-R4, restricted to the class namespace)."""
    from .c06 import rule_r4

    src = rule_r4(ctx)
    rr = RuleResult("C06-R4", "class bodies: the enclosing function recorded as owner of a free name is the one where it is local (instance of C06-R4)")
    rr.floor = 1
    for f in src.findings:
        if "|NamespaceClass|" in f.key:
            rr.fail(f.key, f.msg, where=f.where)
    for w in sorted(map(str, src.nontrivial)):
        if w.startswith("NamespaceClass|"):
            rr.instances += 1
            rr.ok(w)
    rr.instances = max(rr.instances, 1 if rr.findings else 0)
    return rr


def rule_c07r2(ctx):
    """Decorators, bases and keywords of a class statement are evaluated before the body, in order
    (instance of C07-R1/R2 for ClassDef): a decorator looked up after the body sees a rebound name."""
    from .c07 import rule_r1 as c07r1, rule_r2 as c07r2

    rr = RuleResult("C07-R2", "class header evaluated once, in order, before the body (instance of C07-R1/R2)")
    rr.floor = 1
    for src in (c07r1(ctx), c07r2(ctx)):
        for f in src.findings:
            if "|ClassDef|" in f.key:
                rr.fail(f.key, f.msg, where=f.where)
        for w in sorted(map(str, src.nontrivial)):
            if w.startswith("ClassDef"):
                rr.instances += 1
                rr.ok(w)
    return rr


def rule_c06r11(ctx):
    """The globals read inside lambdas / comprehensions of a class body are collected while the symbol
    tables are walked; a comprehension table that is not recognised is never looked at (shared rule
    C06-R11)."""
    from .c06 import rule_r11 as r

    return r(ctx)


def rule_c06r5(ctx):
    """How a class body reads its own members (class dict with a lazy fallback to the plain name) decides
    the values of the class attributes: shared rule C06-R5."""
    from .c06 import rule_r5 as r

    return r(ctx)


RULES = [("C06-R5", rule_c06r5), ("C06-R11", rule_c06r11), ("C07-R2", rule_c07r2), ("C12-R1", rule_r1), ("C12-R2", rule_r23), ("C12-R4", rule_r4), ("C12-R5", rule_r5), ("C12-R7", rule_r7), ("C12-R8", rule_r8), ("C12-R9", rule_r9), ("C12-R6", rule_c06r6), ("C06-R4", rule_c06r4), ("C06-R3", rule_c06r3)]
