from p import run
run("def f():\n    print('f'); return 1\na = b = f()\nprint(a,b)\nclass O: pass\no=O()\ndef g():\n    print('g'); return o\ng().x = print('v')\nd={}\nd[print('k')] = print('val')\nx, y = c = [1,2]\nprint(x,y,c)", False)
run("def a():\n    x = 1\n    def b():\n        nonlocal x\n        x = 2\n        def c():\n            return x\n        return c()\n    return b(), x\nprint(a())", True)
run("def a(p):\n    def b():\n        def c():\n            nonlocal p\n            p += 1\n            return p\n        return c()\n    return b(), p\nprint(a(1))", True)
run("y = 3\nclass A:\n    z = 2\n    f = [y for _ in range(2)]\n    g = lambda self: y\n    h = lambda self, q=z: q\nprint(A.f, A().g(), A().h())", True)
