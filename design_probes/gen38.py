import sys, json
sys.argv=['x']
exec(open('/tmp/probe/oracle_probe.py').read().split("bad=0; tot=0")[0])
out=[]
for sn,(mk,minrank) in slots.items():
    for cn,(c,rank) in children.items():
        try: out.append((sn,cn,U.expr_unparse(mk(c))))
        except Exception as e: pass
json.dump(out,open('/tmp/probe/pairs.json','w'))
print(len(out))
