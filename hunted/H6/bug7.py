"""Host 3.12+ (all 8 option combinations): a generator expression in a class
body that reads a global or builtin name which the class body does not mention
anywhere else crashes the converter with an internal `KeyError`:

    class Config:
        names = tuple(str(i) for i in range(3))

On 3.10/3.11 hosts the same program converts and runs fine."""
import os, sys, io, contextlib, itertools

sys.path.insert(0, os.environ["OLREPO"])
import oneliner
from oneliner.config import Configs

ALL = list(itertools.product(["ast.unparse", "oneliner"], ["list", "chain_call"], ["if_expr", "short_circuit"]))


def make_cfg(unparser, wrapper, if_style):
    c = Configs()
    c.unparser = unparser
    c.expr_wrapper = wrapper
    c.if_style = if_style
    return c


def run(code, mode):
    out = io.StringIO()
    exc = None
    with contextlib.redirect_stdout(out):
        try:
            (exec if mode == "exec" else eval)(compile(code, "<" + mode + ">", mode), {"__name__": "__main__"})
        except BaseException as e:
            exc = type(e).__name__ + ": " + str(e)
    return out.getvalue(), exc

SRC = '''class Config:
    names = tuple(str(i) for i in range(3))
print(Config.names)
'''

expected = run(SRC, "exec")
assert expected == ("('0', '1', '2')\n", None), expected
failed = False
for combo in ALL:
    try:
        text = oneliner.convert_code_string(SRC, configs=make_cfg(*combo))
    except BaseException as e:
        failed = True
        print(combo, "conversion failed:", type(e).__name__, e)
        continue
    got = run(text, "eval")
    if got != expected:
        failed = True
        print(combo, "expected", expected, "got", got)
sys.exit(1 if failed else 0)
