"""Template database: runs engine T over every builder entry of the repository
(statement classes of the dispatch table, namespace decision lists, helpers)
and keeps the per-context results for the rules."""
from __future__ import annotations

import ast

from .core import AnalysisError
from .interp import (
    Interp, PathResult, function_paths, namespace_classes, pending_paths, run_protected,
)
from .interp_base import Decisions, Frame, enumerate_paths
from .model import ClassInfo, FuncInfo, Program
from .reference import asdl
from .vals import Cst, Func, Obj, PList, Rep, TNode, UNode, UPrim, Unknown


def find_dispatch_table(prog: Program):
    """The statement dispatch table: the dict subscripted with type(node) inside
    oneliner.convert:convert (anchor by use, falling back to its name)."""
    mi = prog.modules.get("oneliner.convert")
    if mi is None or "convert" not in mi.functions:
        raise AnalysisError("anchor oneliner.convert:convert vanished")
    fn = mi.functions["convert"]
    names = []
    for n in ast.walk(fn.node):
        if isinstance(n, ast.Subscript) and isinstance(n.value, ast.Name):
            s = n.slice
            if isinstance(s, ast.Call) and isinstance(s.func, ast.Name) and s.func.id == "type":
                names.append((n.value.id, "subscript", n))
        if isinstance(n, ast.Call) and isinstance(n.func, ast.Attribute) and n.func.attr == "get" and isinstance(n.func.value, ast.Name):
            if n.args and isinstance(n.args[0], ast.Call) and isinstance(n.args[0].func, ast.Name) and n.args[0].func.id == "type":
                names.append((n.func.value.id, "get", n))
    for name, how, node in names:
        try:
            tab = prog.const(mi.name, name)
        except AnalysisError:
            continue
        if isinstance(tab, dict) and tab and all(isinstance(k, type) and issubclass(k, ast.AST) for k in tab):
            return name, tab, how, node, fn
    # dispatch by a function: F(type(node))(...) with F a match / if-chain over node classes
    for n in ast.walk(fn.node):
        if isinstance(n, ast.Call) and isinstance(n.func, ast.Name) and len(n.args) == 1 and isinstance(n.args[0], ast.Call) and isinstance(n.args[0].func, ast.Name) and n.args[0].func.id == "type":
            r = prog.resolve(mi.name, n.func.id)
            if isinstance(r, FuncInfo):
                tab, default_raises = _table_of_function(prog, r)
                if tab:
                    return n.func.id, tab, ("call" if default_raises else "call-with-default"), n, fn
    raise AnalysisError("statement dispatch table (TABLE[type(node)] in convert) not found")


def _table_of_function(prog, fi):
    """{ast class: repository class} computed by a function `def f(t): match t: case ast.X: return C ...`
    (or an if/elif chain of `t is ast.X` / `t in (ast.X, ...)` tests); and whether the default raises."""
    params = [a.arg for a in fi.node.args.posonlyargs + fi.node.args.args]
    if len(params) != 1:
        return None, False
    p = params[0]
    body = [st for st in fi.node.body if not (isinstance(st, ast.Expr) and isinstance(st.value, ast.Constant))]
    tab = {}
    default_raises = False

    def ast_cls(e):
        try:
            v = prog.eval_const(fi.module, e)
        except Exception:
            return None
        return v if isinstance(v, type) and issubclass(v, ast.AST) else None

    def ret_cls(stmts):
        if len(stmts) == 1 and isinstance(stmts[0], ast.Return) and isinstance(stmts[0].value, (ast.Name, ast.Attribute)):
            r = prog.resolve_expr_static(fi.module, stmts[0].value)
            return r if isinstance(r, (ClassInfo, FuncInfo)) else None
        return None

    if len(body) == 1 and isinstance(body[0], ast.Match) and isinstance(body[0].subject, ast.Name) and body[0].subject.id == p:
        for case in body[0].cases:
            pats = case.pattern.patterns if isinstance(case.pattern, ast.MatchOr) else [case.pattern]
            if len(pats) == 1 and isinstance(pats[0], ast.MatchAs) and pats[0].pattern is None:
                default_raises = case.guard is None and any(isinstance(x, ast.Raise) for x in case.body) and not any(isinstance(x, ast.Return) for st in case.body for x in ast.walk(st))
                continue
            c = ret_cls(case.body)
            keys = [ast_cls(pt.value) if isinstance(pt, ast.MatchValue) else None for pt in pats]
            if c is None or case.guard is not None or not all(keys):
                return None, False
            for k in keys:
                tab.setdefault(k, c)
        return tab, default_raises
    # if / elif chain
    cur = body
    while cur:
        st = cur[0]
        if isinstance(st, ast.If) and isinstance(st.test, ast.Compare) and len(st.test.ops) == 1 and isinstance(st.test.left, ast.Name) and st.test.left.id == p:
            op, rhs = st.test.ops[0], st.test.comparators[0]
            keys = []
            if isinstance(op, (ast.Is, ast.Eq)):
                keys = [ast_cls(rhs)]
            elif isinstance(op, ast.In) and isinstance(rhs, (ast.Tuple, ast.List, ast.Set)):
                keys = [ast_cls(e) for e in rhs.elts]
            c = ret_cls(st.body)
            if c is None or not keys or not all(keys):
                return None, False
            for k in keys:
                tab.setdefault(k, c)
            cur = st.orelse if st.orelse else cur[1:]
            continue
        default_raises = isinstance(st, ast.Raise)
        break
    return tab, default_raises


class Entry:
    def __init__(self, name, kind, paths):
        self.name = name
        self.kind = kind
        self.paths: list[PathResult] = paths

    def ok_paths(self):
        return [p for p in self.paths if p.outcome == "ok"]


def c05_constraints(key, assign, options):
    """Contexts contradicting an invariant established by rule C05-R1 are pruned:
    break_cnt > 0 implies interrupt_cnt > 0 (every site that increments break_cnt
    also increments interrupt_cnt of the same loop)."""
    if key == "cmp:self.break_cnt>0" or key == "cmp:self.break_cnt==0":
        ic = assign.get("cmp:self.interrupt_cnt==0")
        if ic is True:
            return False if key.endswith(">0") else True
        ic2 = assign.get("cmp:self.interrupt_cnt>0")
        if ic2 is False:
            return False if key.endswith(">0") else True
    if key == "cmp:self.interrupt_cnt==0" or key == "cmp:self.interrupt_cnt>0":
        bc = assign.get("cmp:self.break_cnt>0")
        bc2 = assign.get("cmp:self.break_cnt==0")
        if bc is True or bc2 is False:
            return False if key.endswith("==0") else True
    return None


class Templates:
    def __init__(self, prog: Program, tier="quick"):
        self.prog = prog
        self.tier = tier
        self._entries: dict[str, Entry] = {}
        self.table_name, self.table, self.table_how, self.table_node, self.convert_fn = find_dispatch_table(prog)
        self.pruned = []
        self.errors = {}

    # ------------------------------------------------------------------ stats
    def stats(self):
        n_paths = sum(len(e.paths) for e in self._entries.values())
        return {
            "templates": len(self._entries),
            "contexts": n_paths,
            "pruned_contexts": self.pruned[:10],
            "unresolved_calls": sorted({u for e in self._entries.values() for p in e.paths for u in p.unresolved})[:40],
        }

    # -------------------------------------------------------- statement classes
    def statement_classes(self):
        """{ClassInfo: sorted kinds} from the dispatch table."""
        out: dict = {}
        for k, v in self.table.items():
            if not isinstance(v, ClassInfo):
                raise AnalysisError(f"dispatch table value for {k.__name__} is not a repository class")
            out.setdefault(v, []).append(k.__name__)
        return {c: sorted(ks) for c, ks in out.items()}

    def pending(self, ci: ClassInfo, kinds=None) -> Entry:
        kinds = kinds or self.statement_classes().get(ci)
        key = f"pending:{ci.name}:{','.join(kinds)}"
        if key not in self._entries:
            try:
                paths = list(pending_paths(self.prog, ci, kinds, constraints=[c05_constraints]))
            except AnalysisError as e:
                # contained: the other templates are still analysed; the run ends as ANALYSIS-ERROR
                # (exit 2) unless some rule found a violation, never as a silent pass
                self.errors[key] = str(e)
                paths = []
            # a node of the emitted template that the interpreter could not model (built by a library
            # call such as ast.parse(text), taken from an unknown object) makes every verdict about
            # the statement kind unreliable: contained failure, not a silently thinner template
            if paths:
                from .semwalk import events_of

                for pth in paths:
                    if pth.outcome != "ok":
                        continue
                    try:
                        evs, _w = events_of(pth.result)
                    except AnalysisError as e:
                        self.errors[key] = str(e)
                        paths = []
                        break
                    # (parts of an already REWRITTEN user node - `X(value).elts[*]` - are user code in
                    # rewritten form, not foreign nodes)
                    unk = [e for e in evs if e.kind == "unknown" and not str(e.path).startswith("X(")]
                    if unk:
                        self.errors[key] = f"the emitted template contains a node the analyser cannot model: {unk[0].path} at {unk[0].site}"
                        paths = []
                        break
            self._entries[key] = Entry(key, "pending", paths)
        return self._entries[key]

    def all_pending(self):
        for ci, kinds in self.statement_classes().items():
            yield ci, kinds, self.pending(ci, kinds)

    def pending_by_kind(self, kind: str) -> Entry:
        for ci, kinds in self.statement_classes().items():
            if kind in kinds:
                return self.pending(ci, kinds)
        raise AnalysisError(f"no dispatch entry for ast.{kind}")

    # --------------------------------------------------------------- functions
    def function(self, fi: FuncInfo, make_args, key=None, mode="build", self_cls=None, setup=None) -> Entry:
        key = key or f"func:{fi.fq}"
        if key not in self._entries:
            paths = list(function_paths(self.prog, fi, make_args, mode=mode, setup=setup))
            self._entries[key] = Entry(key, "function", paths)
        return self._entries[key]

    def namespace_method(self, ci: ClassInfo, meth: str) -> Entry:
        fi = ci.find_method(meth)
        if fi is None:
            raise AnalysisError(f"{ci.name}.{meth} vanished")

        def make_args(it: Interp):
            o = Obj(ci, "self")
            o.exact = True
            name = UPrim(UNode(["Name"]), "id", "identifier")
            params = [a.arg for a in fi.node.args.args[1:]]
            args = []
            for p in params:
                if "name" in p:
                    args.append(name)
                else:
                    args.append(TNode("$Param", {"name": Cst(p)}, "param"))
            return args, {}, o

        return self.function(fi, make_args, key=f"nsp:{ci.name}.{meth}")

    def namespace_leaves(self):
        root, leaves, glob = namespace_classes(self.prog)
        return root, leaves, glob


def extract_all(prog: Program, tier="quick") -> Templates:
    return Templates(prog, tier)


def _param(name):
    return TNode("$Param", {"name": Cst(name)}, "param")


def helper_entries(T: Templates):
    """Templates of the helper builders in oneliner/utils.py and the preset."""
    prog = T.prog
    ut = prog.modules.get("oneliner.utils")
    if ut is None:
        raise AnalysisError("anchor module oneliner.utils vanished")
    out = {}
    # wrappers: functions taking a list of nodes and returning one expr
    for name, fi in ut.functions.items():
        a = fi.node.args
        params = [p.arg for p in a.args]
        if params == ["nodes"]:
            def mk(it, _fi=fi):
                nodes = PList([_param("nodes[0]"), Rep([_param("nodes[i]")], "nodes[1:]")])
                return [nodes], {}, None
            out[f"wrapper:{name}"] = T.function(fi, mk, key=f"helper:{name}")
        elif len(params) == 1 and params[0] in ("_slice", "index", "slice_node", "s"):
            kinds = ["Slice"] if "slice" in params[0] else list(asdl.EXPR_KINDS)
            def mk(it, _k=kinds):
                parent = UNode(["Subscript"])
                u = UNode(_k, parent, "slice", None)
                return [u], {}, None
            out[f"slice:{name}"] = T.function(fi, mk, key=f"helper:{name}")
    return out


def expr_wrapper_paths(T: Templates):
    """The closure returned by get_expr_wrapper(configs), applied to lists of length 0, 1, many."""
    prog = T.prog
    ut = prog.modules["oneliner.utils"]
    fi = ut.functions.get("get_expr_wrapper")
    if fi is None:
        raise AnalysisError("anchor oneliner.utils:get_expr_wrapper vanished")
    results = []
    for n in ("0", "1", "many"):
        def mk(it, _n=n):
            it.raw_wrapper = True
            return [Unknown("configs")], {}, None

        def run_one(n=n):
            from .interp import Interp, PathResult, run_protected
            from .interp_base import enumerate_paths

            def run(dec):
                it = Interp(prog, dec)
                pr = PathResult()

                def body():
                    f = Func(fi, fi.node, None, module=fi.module)
                    w = it.invoke(f, [Unknown("configs")], {}, fi.node)
                    if n == "0":
                        nodes = PList([])
                    elif n == "1":
                        nodes = PList([_param("nodes[0]")])
                    else:
                        nodes = PList([_param("nodes[0]"), _param("nodes[1]"), Rep([_param("nodes[i]")], "nodes[2:]")])
                    pr.extra["n"] = n
                    pr.result = it.call(w, [nodes], {}, fi.node, None)

                return run_protected(it, pr, body)

            return [pr for _d, pr in enumerate_paths(run, None, what="get_expr_wrapper")]

        results.extend(run_one())
    return results
