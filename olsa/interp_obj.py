"""Engine T, part 4: summary objects (instances of repository classes), volatile
state, module globals."""
from __future__ import annotations

import ast

from .core import AnalysisError
from .interp_base import Frame, PathAbort
from .model import ClassInfo, ExtRef, FuncInfo, ModuleInfo, Unevaluable, _ann_classes
from .vals import (
    AstCls, BoundBuiltin, Cst, Ext, Func, Obj, PDict, PList, PSet, PTuple, RepoCls, RepoMod,
    SColl, SVal, TNode, Unknown, V,
)


_SA_CACHE: dict = {}


def _self_assignments(ci: ClassInfo, attr):
    key = (id(ci), attr)
    if key not in _SA_CACHE:
        _SA_CACHE[key] = _self_assignments_uncached(ci, attr)
    return _SA_CACHE[key]


def _self_assignments_uncached(ci: ClassInfo, attr):
    """All `self.<attr> = RHS` / annotated assignments in methods of the MRO:
    [(class, method FuncInfo, stmt)]"""
    out = []
    for c in ci.mro():
        for fi in c.methods.values():
            for n in ast.walk(fi.node):
                ts = []
                if isinstance(n, ast.Assign):
                    ts = n.targets
                elif isinstance(n, ast.AnnAssign) and n.value is not None:
                    ts = [n.target]
                for t in ts:
                    if isinstance(t, ast.Attribute) and t.attr == attr and isinstance(t.value, ast.Name) and t.value.id == "self":
                        out.append((c, fi, n))
        if out:
            break
    return out


class ObjMixin:
    def to_value(self, x, origin=None) -> V:
        """Convert a constant evaluated by M into an abstract value."""
        if isinstance(x, V):
            return x
        if isinstance(x, ClassInfo):
            return RepoCls(x)
        if isinstance(x, FuncInfo):
            return Func(x, x.node, None, module=x.module, defcls=x.cls)
        if isinstance(x, ModuleInfo):
            return RepoMod(x)
        if isinstance(x, ExtRef):
            if x.dotted.startswith("ast.") and hasattr(ast, x.dotted[4:]):
                obj = getattr(ast, x.dotted[4:])
                if isinstance(obj, type) and issubclass(obj, ast.AST):
                    return AstCls(obj)
                return Ext(x.dotted)
            return Ext(x.dotted)
        if isinstance(x, type) and issubclass(x, ast.AST):
            return AstCls(x)
        if isinstance(x, list):
            l = PList([self.to_value(i) for i in x])
            l.shared = True
            return l
        if isinstance(x, tuple):
            return PTuple([self.to_value(i) for i in x])
        if isinstance(x, (set, frozenset)):
            s = PSet([self.to_value(i) for i in x])
            s.shared = True
            return s
        if isinstance(x, dict):
            d = PDict([(self.to_value(k), self.to_value(v)) for k, v in x.items()])
            d.shared = True
            return d
        if x is None or isinstance(x, (str, int, float, bool, bytes, complex)) or x is Ellipsis:
            return Cst(x)
        raise AnalysisError(f"cannot represent constant {x!r}")

    def module_global(self, mi: ModuleInfo, name, node=None):
        key = (mi.name if mi else None, name)
        if key in self.global_cache:
            return self.global_cache[key]
        v = self._module_global(mi, name, node)
        self.global_cache[key] = v
        return v

    def _module_global(self, mi, name, node):
        prog = self.prog
        if mi is not None:
            if name in mi.consts:
                v = self.to_value(mi.consts[name])
                return v
            r = prog.resolve(mi.name, name)
            if isinstance(r, (ClassInfo, FuncInfo, ModuleInfo, ExtRef)):
                return self.to_value(r)
            if isinstance(r, tuple) and r[0] == "assign":
                _k, rhs, m2 = r
                # module-level object built by constructor calls (shared by all conversions)
                for k, b in m2.bindings.items():
                    if b[0] == "assign" and b[1] is rhs and k in m2.consts:
                        return self.to_value(m2.consts[k])
                fr = Frame(m2)
                fr.is_module = True
                saved = self.cur_site
                v = self.ev(rhs, fr)
                self.cur_site = saved
                self.mark_shared(v)
                return v
        import builtins

        if hasattr(builtins, name):
            if name in ("True", "False", "None"):
                return Cst({"True": True, "False": False, "None": None}[name])
            return Ext(f"builtins.{name}")
        raise AnalysisError(
            f"name {name!r} is not defined in module {mi.name if mi else '?'} "
            f"(line {getattr(node, 'lineno', '?')})"
        )

    def mark_shared(self, v, seen=None):
        seen = seen if seen is not None else set()
        if id(v) in seen:
            return
        seen.add(id(v))
        if isinstance(v, TNode):
            v.shared = True
            for f in v.fields.values():
                self.mark_shared(f, seen)
        elif isinstance(v, (PList, PSet)):
            v.shared = True
            for i in v.items:
                if isinstance(i, V):
                    self.mark_shared(i, seen)
        elif isinstance(v, PDict):
            v.shared = True
            for k, x in v.pairs:
                self.mark_shared(x, seen)
        elif isinstance(v, PTuple):
            for i in v.items:
                self.mark_shared(i, seen)

    def class_attr_value(self, owner: ClassInfo, name, val_node):
        key = ("cls", owner.fq, name)
        if key in self.global_cache:
            return self.global_cache[key]
        try:
            v = self.to_value(self.prog.eval_const(owner.module, val_node))
        except Unevaluable:
            fr = Frame(owner.module)
            fr.is_module = True
            v = self.ev(val_node, fr)
        self.mark_shared(v)
        self.global_cache[key] = v
        return v

    # ------------------------------------------------------------ obj getattr
    def obj_getattr(self, o: Obj, name, node):
        volatile = name in self.volatile
        if name in o.attrs:
            if not volatile or o.attr_phase.get(name) == self.phase:
                return o.attrs[name]
            return self.volatile_view(o, name, o.attrs[name])
        if o.cls is None:
            u = Unknown(f"{o.tag}.{name}")
            u.recv = o
            u.meth = name
            return u
        # methods
        m = o.cls.find_method(name)
        if m is None and not o.exact:
            # defined only in subclasses: refine by a context decision
            cands = [s for s in o.cls.all_subclasses() if name in s.methods and s not in o.excluded]
            if cands:
                tops = [c for c in cands if not any(c is not d and c.is_subclass_of(d) for d in cands)]
                c = tops[0] if len(tops) == 1 else self.decide(f"class:{o.tag}", sorted(tops, key=lambda c: c.name))
                o.cls = c
                m = c.find_method(name)
        if m is not None:
            if not o.exact and not o.concrete:
                # dynamic dispatch: overriding subclasses
                overriders = [s for s in o.cls.all_subclasses() if name in s.methods and s not in o.excluded]
                if overriders:
                    leafs = sorted({s for s in [o.cls] + o.cls.all_subclasses() if s not in o.excluded and not s.all_subclasses()}, key=lambda c: c.name)
                    if len(leafs) > 1:
                        c = self.decide(f"class:{o.tag}", leafs)
                        o.cls = c
                        o.exact = True
                        m = c.find_method(name)
            decos = {ast.unparse(d).split(".")[-1] for d in m.node.decorator_list}
            if "staticmethod" in decos:
                return Func(m, m.node, None, bound_self=None, module=m.module, defcls=m.cls)
            if "classmethod" in decos:
                return Func(m, m.node, None, bound_self=RepoCls(o.cls), module=m.module, defcls=m.cls)
            if "property" in decos or "cached_property" in decos:
                return self.invoke(Func(m, m.node, None, bound_self=o, module=m.module, defcls=m.cls), [], {}, node)
            return Func(m, m.node, None, bound_self=o, module=m.module, defcls=m.cls)
        # instance attribute assigned in a method of the class
        assigns = _self_assignments(o.cls, name)
        if not assigns and not o.exact:
            cands = [s for s in o.cls.all_subclasses() if _self_assignments(s, name) and s not in o.excluded]
            tops = [c for c in cands if not any(c is not d and c.is_subclass_of(d) for d in cands)]
            if tops:
                c = tops[0] if len(tops) == 1 else self.decide(f"class:{o.tag}", sorted(tops, key=lambda c: c.name))
                o.cls = c
                assigns = _self_assignments(c, name)
        if assigns and not o.concrete and not self._single_unconditional(assigns):
            # conditionally (or repeatedly) assigned attribute of a summary object: unknown
            init = None
            ca = o.cls.find_class_attr(name)
            if ca is not None and ca[1][0] is not None:
                init = self.class_attr_value(ca[0], name, ca[1][0])
            else:
                try:
                    init = self.summary_attr(o, name, assigns)
                except Exception:
                    init = None
                if not isinstance(init, (PList, PSet, PDict)):
                    init = None
            return self.volatile_view(o, name, init)
        if assigns:
            init_val = self.summary_attr(o, name, assigns)
            if volatile or (not o.concrete and isinstance(init_val, (PList, PSet, PDict))):
                # containers of summary objects are filled by code we did not run
                return self.volatile_view(o, name, init_val)
            o.attrs[name] = init_val
            o.attr_phase[name] = -1
            return init_val
        ca = o.cls.find_class_attr(name)
        if ca is not None:
            owner, (val, ann, guard) = ca
            if guard is not None:
                self.guarded_attr_reads.append((owner.name, name, guard, self.cur_site))
            if val is not None:
                cv = self.class_attr_value(owner, name, val)
                if volatile:
                    return self.volatile_view(o, name, cv)
                return cv
            # annotation only
            return self.annotated_value(o, name, owner, ann, volatile)
        if name == "__class__":
            return RepoCls(o.cls)
        if name == "__dict__":
            return SColl(o, "__dict__", kind="dict")
        self.events.append(("attr-error", f"{o.cls.name}.{name} is never defined", self.cur_site))
        u = Unknown(f"{o.tag}.{name}")
        return u

    @staticmethod
    def _single_unconditional(assigns):
        if len(assigns) != 1:
            return False
        c, fi, st = assigns[0]
        return fi.name == "__init__" and any(st is x for x in fi.node.body)

    def annotated_value(self, o, name, owner, ann, volatile):
        classes, elems = _ann_classes(self.prog, owner.module, ann)
        if volatile or elems or self._ann_is_collection(ann):
            return self.volatile_view(o, name, None, ann=(owner, ann))
        if classes:
            c = sorted(classes, key=lambda c: c.name)[0]
            sub = Obj(c, f"{o.tag}.{name}")
            o.attrs[name] = sub
            o.attr_phase[name] = -1
            return sub
        u = Unknown(f"{o.tag}.{name}")
        o.attrs[name] = u
        o.attr_phase[name] = -1
        return u

    @staticmethod
    def _ann_is_collection(ann):
        if isinstance(ann, ast.Constant) and isinstance(ann.value, str):
            try:
                ann = ast.parse(ann.value, mode="eval").body
            except SyntaxError:
                return False
        if isinstance(ann, ast.Subscript) and isinstance(ann.value, ast.Name):
            return ann.value.id in ("list", "set", "dict", "List", "Set", "Dict")
        return False

    def summary_attr(self, o: Obj, name, assigns):
        """Value of an attribute of a *summary* object: the RHS of its (single)
        initialisation, evaluated with unknown parameters."""
        inits = [a for a in assigns if a[1].name == "__init__"] or assigns
        c, fi, st = inits[0]
        if len(inits) > 1 or name in self.volatile:
            pass
        fr = Frame(fi.module, {}, func=Func(fi, fi.node, None, module=fi.module, defcls=c), self_obj=o, defcls=c)
        a = fi.node.args
        params = a.posonlyargs + a.args + a.kwonlyargs
        for i, p in enumerate(params):
            if i == 0 and p.arg == "self":
                fr.locals["self"] = o
            else:
                classes, _e = _ann_classes(self.prog, fi.module, p.annotation)
                if classes:
                    fr.locals[p.arg] = Obj(sorted(classes, key=lambda c: c.name)[0], f"{o.tag}<{p.arg}>")
                else:
                    fr.locals[p.arg] = Unknown(f"{c.name}.{p.arg}")
        saved = self.cur_site
        try:
            v = self.ev(st.value, fr)
        except AnalysisError:
            v = Unknown(f"{o.tag}.{name}")
        self.cur_site = saved
        if isinstance(v, TNode):
            v.owner = (o.tag, name)
        return v

    def volatile_view(self, o: Obj, name, init, ann=None):
        key = ("vol", o.uid, name)
        if key in self.vol_cache:
            self.vol_reads.append(self.vol_cache[key])
            return self.vol_cache[key]
        elem_classes, elem_is_list, kind = set(), False, None
        # element types from annotations anywhere in the MRO
        if o.cls is not None:
            for c in o.cls.mro():
                if name in c.class_attrs and c.class_attrs[name][1] is not None:
                    annn = c.class_attrs[name][1]
                    _c, e = _ann_classes(self.prog, c.module, annn)
                    elem_classes |= e
                    src = annn
                    if isinstance(src, ast.Constant) and isinstance(src.value, str):
                        try:
                            src = ast.parse(src.value, mode="eval").body
                        except SyntaxError:
                            pass
                    if isinstance(src, ast.Subscript) and isinstance(src.value, ast.Name):
                        kind = {"list": "list", "set": "set", "dict": "dict"}.get(src.value.id.lower(), kind)
                        inner = src.slice
                        if isinstance(inner, ast.Subscript) and isinstance(inner.value, ast.Name) and inner.value.id == "list":
                            elem_is_list = True
                    break
        if isinstance(init, PList):
            kind = kind or "list"
        elif isinstance(init, PSet):
            kind = kind or "set"
        elif isinstance(init, PDict):
            kind = kind or "dict"
        if kind:
            v = SColl(o, name, elem_classes, kind, elem_is_list)
            if isinstance(init, PList) and o.attr_phase.get(name, -2) >= 0:
                pass
        else:
            v = SVal(o, name, init)
        self.vol_cache[key] = v
        self.vol_reads.append(v)
        return v

    def scoll_elem(self, sc: SColl, label):
        if label in sc._elems:
            return sc._elems[label]
        tag = f"{sc.desc}[{label}]"
        if sc.elem_is_list:
            e = PList([])
            e.sym_elem_of = tag
        elif sc.elem_classes:
            c = sorted(sc.elem_classes, key=lambda c: c.name)[0]
            if len(sc.elem_classes) > 1:
                c = None
            e = Obj(c, tag)
        else:
            e = Unknown(tag)
        sc._elems[label] = e
        return e

    # ------------------------------------------------------------ obj setattr
    def obj_setattr(self, o: Obj, name, val, node, aug=None):
        foreign = not (o is self.self_obj)
        volatile = name in self.volatile
        if foreign or volatile or not o.concrete:
            self.effects.append({
                "kind": "inc" if aug and aug[0] == "Add" else ("aug" if aug else "set"),
                "target": f"{o.tag}.{name}", "obj": o.tag, "attr": name, "value": aug[1] if aug else val,
                "site": self.cur_site, "rep": list(self.rep_stack), "phase": self.phase,
            })
        # descriptor protocol: a class attribute with __set__ (data descriptor)
        if o.cls is not None:
            ca = o.cls.find_class_attr(name)
            if ca is not None and ca[1][0] is not None and isinstance(ca[1][0], ast.Call):
                pass
        if isinstance(val, TNode) and getattr(val, "owner", None) is None:
            val.owner = (o.tag, name)
        o.attrs[name] = val
        o.attr_phase[name] = self.phase
