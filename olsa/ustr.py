"""Ustr - the same abstract interpreter with a string-template domain, applied to
oneliner/expr_unparse.py: per node kind the yielded (slot precedence, child)
pairs and the decision tree of returned token skeletons."""
from __future__ import annotations

import ast

from .core import AnalysisError
from .interp import Interp, PathResult, run_protected
from .interp_base import Decisions, enumerate_paths
from .model import ClassInfo, FuncInfo, Program
from .reference import asdl
from .vals import Cst, Func, Gen, Hole, Obj, PTuple, UNode, UPrim, Unknown



def _lost_element(v, seen=None, depth=0):
    """Description of an `Unknown` standing for 'some element of a list' inside a string template."""
    seen = set() if seen is None else seen
    if id(v) in seen or depth > 40:
        return None
    seen.add(id(v))
    if isinstance(v, Unknown) and str(v.desc).startswith(("elem", "elem(")):
        return v.desc
    for attr in ("parts", "args", "items"):
        for x in getattr(v, attr, None) or []:
            if not isinstance(x, (str, int, type(None))):
                r = _lost_element(x, seen, depth + 1)
                if r:
                    return r
    if hasattr(v, "fields") and isinstance(getattr(v, "fields"), dict):
        for x in v.fields.values():
            r = _lost_element(x, seen, depth + 1)
            if r:
                return r
    return None

class UnparserModel:
    def __init__(self, prog: Program):
        self.prog = prog
        self.mi = prog.modules.get("oneliner.expr_unparse")
        if self.mi is None:
            raise AnalysisError("anchor module oneliner.expr_unparse vanished")
        self.gen_map, self.gen_map_where = self._find_gen_map()
        self.driver_cmp, self.driver = self._driver_comparison()
        self._paths: dict[str, list[PathResult]] = {}
        self._prec: dict[str, object] | None = None
        self.consts = {k: v for k, v in self.mi.consts.items() if isinstance(v, int) and k.isupper()}

    # ------------------------------------------------------------- anchors
    def _find_gen_map(self):
        cands = []
        for ci in self.mi.classes.values():
            for name, (val, ann, g) in ci.class_attrs.items():
                if val is None:
                    continue
                try:
                    v = self.prog.eval_const(self.mi, val)
                except Exception:
                    continue
                if isinstance(v, dict) and len(v) >= 10 and all(isinstance(k, type) and issubclass(k, ast.AST) for k in v) and all(isinstance(x, FuncInfo) for x in v.values()):
                    cands.append((v, f"{ci.name}.{name}"))
        for name, v in self.mi.consts.items():
            if isinstance(v, dict) and len(v) >= 10 and all(isinstance(k, type) and issubclass(k, ast.AST) for k in v) and all(isinstance(x, FuncInfo) for x in v.values()):
                cands.append((v, name))
        # the same table reachable under two names (class attribute aliasing a module-level dict)
        uniq = []
        for v, nm in cands:
            if not any(v == u for u, _n in uniq):
                uniq.append((v, nm))
        cands = uniq
        if not cands:
            reg = self._registry_by_decorator()
            if reg:
                cands.append(reg)
        if len(cands) != 1:
            raise AnalysisError(f"the unparser's generator table (node kind -> generator) was not found uniquely ({len(cands)} candidates)")
        return {k.__name__: f for k, f in cands[0][0].items()}, cands[0][1]

    def _registry_by_decorator(self):
        """Generator functions registered with `@register(<ast class>)`, where `register(k)` returns
        a decorator that stores its argument in a module-level dict under k."""
        table = {}
        regs = set()
        for fi in self.mi.functions.values():
            for d in fi.node.decorator_list:
                if not (isinstance(d, ast.Call) and isinstance(d.func, ast.Name) and len(d.args) == 1 and not d.keywords):
                    continue
                deco = self.mi.functions.get(d.func.id)
                if deco is None:
                    continue
                dparams = [a.arg for a in deco.node.args.args]
                stores = [
                    n for n in ast.walk(deco.node)
                    if isinstance(n, ast.Assign) and len(n.targets) == 1 and isinstance(n.targets[0], ast.Subscript)
                    and isinstance(n.targets[0].value, ast.Name) and isinstance(n.targets[0].slice, ast.Name)
                    and dparams and n.targets[0].slice.id == dparams[0] and isinstance(n.value, ast.Name)
                ]
                inner = [n for n in ast.walk(deco.node) if isinstance(n, ast.FunctionDef) and n is not deco.node]
                if len(stores) != 1 or len(inner) != 1 or stores[0].value.id not in [a.arg for a in inner[0].args.args]:
                    continue
                try:
                    k = self.prog.eval_const(self.mi, d.args[0])
                except Exception:
                    continue
                if isinstance(k, type) and issubclass(k, ast.AST):
                    if k in table:
                        raise AnalysisError(f"two generators registered for ast.{k.__name__}")
                    table[k] = fi
                    regs.add(stores[0].targets[0].value.id)
        if len(table) >= 10 and len(regs) == 1:
            return table, next(iter(regs))
        return None

    def _driver_comparison(self):
        """The comparison that decides parenthesisation: <node precedence> OP <slot precedence>."""
        for fi in self.mi.functions.values():
            for n in ast.walk(fi.node):
                if isinstance(n, ast.If) and isinstance(n.test, ast.Compare) and len(n.test.ops) == 1:
                    l, r = n.test.left, n.test.comparators[0]
                    txt_l, txt_r = ast.unparse(l), ast.unparse(r)
                    if "precedence" in txt_l and "precedence" in txt_r:
                        wraps = any(isinstance(x, ast.JoinedStr) and "(" in ast.unparse(x) for s in n.body for x in ast.walk(s))
                        if not wraps:
                            continue
                        op = {ast.Gt: ">", ast.GtE: ">=", ast.Lt: "<", ast.LtE: "<="}.get(type(n.test.ops[0]))
                        node_left = "node_prec" in txt_l or ("outer" not in txt_l and "slot" not in txt_l)
                        if op is None:
                            raise AnalysisError("driver comparison operator not recognised")
                        if not node_left:
                            op = {">": "<", ">=": "<=", "<": ">", "<=": ">="}[op]
                        return op, fi
        raise AnalysisError("the driver's parenthesisation test (node precedence vs slot precedence) was not found")

    def wraps(self, node_prec, slot_prec):
        return {">": node_prec > slot_prec, ">=": node_prec >= slot_prec, "<": node_prec < slot_prec, "<=": node_prec <= slot_prec}[self.driver_cmp]

    # ----------------------------------------------------------- generators
    def paths(self, kind) -> list[PathResult]:
        if kind in self._paths:
            return self._paths[kind]
        fi = self.gen_map.get(kind)
        if fi is None:
            self._paths[kind] = []
            return []
        prog = self.prog
        nparams = len(fi.node.args.args)

        def run(dec: Decisions):
            it = Interp(prog, dec, mode="unparse")
            pr = PathResult()

            def body():
                node = UNode([kind])
                pr.extra["node"] = node
                args = [node]
                for p in fi.node.args.args[1:]:
                    args.append(Unknown(p.arg, typ="str"))
                f = Func(fi, fi.node, None, module=fi.module)
                r = it.invoke(f, args, {}, fi.node)
                if isinstance(r, Gen):
                    r = it.run_gen(r)
                pr.result = r

            return run_protected(it, pr, body)

        out = [pr for _d, pr in enumerate_paths(run, None, what=f"unparse[{kind}]")]
        # a text assembled from elements the interpreter lost track of ("an element of some list") is
        # not the repository's skeleton: no rule may read anything off it
        for pr in out:
            if pr.outcome == "ok":
                lost = _lost_element(pr.result)
                if lost:
                    raise AnalysisError(f"the text unparse_{kind} returns goes through containers the string model cannot follow ({lost})")
        self._paths[kind] = out
        return out

    # ----------------------------------------------------------- precedence
    def node_precedences(self):
        """{variant: int | 'INF'} via an abstract run of get_node_precedence."""
        if self._prec is not None:
            return self._prec
        fi = self.mi.functions.get("get_node_precedence")
        if fi is None:
            raise AnalysisError("anchor oneliner.expr_unparse:get_node_precedence vanished")
        prog = self.prog
        out = {}
        for kind in asdl.EXPR_KINDS:
            def run(dec: Decisions, kind=kind):
                it = Interp(prog, dec, mode="unparse")
                pr = PathResult()

                def body():
                    node = UNode([kind])
                    pr.extra["node"] = node
                    f = Func(fi, fi.node, None, module=fi.module)
                    pr.result = it.invoke(f, [node], {}, fi.node)

                return run_protected(it, pr, body)

            for _d, pr in enumerate_paths(run, None, what=f"get_node_precedence[{kind}]"):
                node = pr.extra["node"]
                variant = kind
                if kind in ("BinOp", "BoolOp", "UnaryOp"):
                    op = node.fields.get("op")
                    if op is None or len(op.kinds) != 1:
                        # the function did not look at the operator: same value for all
                        ops = sorted(op.kinds) if op is not None else list(
                            asdl.OPERATOR_KINDS if kind == "BinOp" else asdl.BOOLOP_KINDS if kind == "BoolOp" else asdl.UNARYOP_KINDS)
                    else:
                        ops = [next(iter(op.kinds))]
                else:
                    ops = [None]
                for o in ops:
                    v = f"{kind}:{o}" if o else kind
                    if pr.outcome != "ok":
                        out[v] = ("error", str(pr.raised))
                    elif isinstance(pr.result, Cst) and isinstance(pr.result.value, int):
                        warned = any(e[0] == "warn" for e in pr.events)
                        out[v] = "INF" if warned else pr.result.value
                    else:
                        out[v] = ("unknown", repr(pr.result))
        self._prec = out
        return out


def analyse_unparser(prog) -> UnparserModel:
    return UnparserModel(prog)


def hole_field(h: Hole):
    """(field name, list?) of the child of a hole relative to the generator's node."""
    c = h.child
    if isinstance(c, UNode):
        chain = []
        n = c
        while n.parent is not None:
            chain.append((n.field, n.index))
            n = n.parent
        chain.reverse()
        return chain
    return None
