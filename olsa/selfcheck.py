"""setup_cmd: verify that the analyser imports and that its reference tables are
consistent with the analysing interpreter's `ast` module. Builds nothing."""
import ast
import sys


def selfcheck():
    from . import core, model  # noqa: F401
    from .reference import inplace

    ops = {c.__name__ for c in ast.operator.__subclasses__()}
    missing = ops - set(inplace.INPLACE)
    if missing:
        print(f"ANALYSIS-ERROR reference/inplace.py lacks {sorted(missing)}")
        return 2
    print(f"olsa selfcheck ok (python {sys.version.split()[0]}, {len(ops)} operators)")
    return 0
