"""Engine T: the abstract interpreter of the builder code (assembled from the
mixins) and its entry drivers."""
from __future__ import annotations

import ast

from .core import AnalysisError
from .interp_base import (
    Decisions, Frame, PathAbort, Raised, ReturnSig, VolatileScan, enumerate_paths,
)
from .interp_call import CallMixin
from .interp_obj import ObjMixin
from .interp_ops import OpsMixin
from .interp_stmt import StmtMixin
from .model import Program
from .vals import (
    Cst, Func, Gen, Obj, PList, TNode, UNode, UPrim, Unknown, V,
)

_VOL_CACHE: dict[int, VolatileScan] = {}


def volatile_scan(prog: Program) -> VolatileScan:
    if id(prog) not in _VOL_CACHE:
        _VOL_CACHE[id(prog)] = VolatileScan(prog).finalize(prog)
    return _VOL_CACHE[id(prog)]


class PathResult:
    def __init__(self):
        self.decisions: list = []
        self.assign: dict = {}
        self.outcome = "ok"  # ok | raise | abort
        self.raised = None
        self.phase_at_end = 0
        self.result = None
        self.self_obj = None
        self.effects = []
        self.events = []
        self.notes = []
        self.yields = []
        self.lowered = []
        self.transfs = []
        self.freshes = []
        self.constructed = []
        self.holes = []
        self.str_tests = []
        self.guarded_attr_reads = []
        self.unresolved = set()
        self.ext_calls = set()
        self.recursion_cut = set()
        self.rec_cut_args = []
        self.text_calls = []
        self.extra = {}

    def ctx(self):
        """Readable context label of the path."""
        return "; ".join(f"{k}={v}" for k, v in self.assign.items())

    def ctx_short(self, keep=("ctx:", "truthy:self", "cmp:self", "eq:self.nsp_global")):
        return "; ".join(f"{k}={v}" for k, v in self.assign.items() if k.startswith(keep))


class Interp(StmtMixin, OpsMixin, ObjMixin, CallMixin):
    def __init__(self, prog: Program, decisions: Decisions, mode="build"):
        self.prog = prog
        self.decisions = decisions
        self.mode = mode  # "build" (templates) | "unparse" (string skeletons)
        vs = volatile_scan(prog)
        self.volatile = vs.volatile
        self.foreign_setters = set()
        self.phase = 0
        self.cur_site = ("?", 0)
        self.effects = []
        self.events = []
        self.notes = []
        self.yields = []
        self.lowered = []
        self.transfs = []
        self.freshes = []
        self.constructed = []
        self.instantiated = []
        self.holes = []
        self.str_tests = []
        self.guarded_attr_reads = []
        self.unresolved_calls = set()
        self.ext_calls = set()
        self.recursion_cut = set()
        self.rec_cut_args = []
        self.recorders = []
        self.rep_stack = []
        self.call_stack = []
        self.rec_limit = 2
        self.global_cache = {}
        self.vol_cache = {}
        self.text_calls = []
        self.key_alias = []  # (element path, path of the first segment's element) in loops over a + b + c
        self.vol_reads = []  # log of reads of volatile attributes (live read vs. snapshot)
        self.intervals = {}
        self._star_counter = {}
        self.self_obj = None
        self.fresh_in_condition = False
        self.no_summary = set()
        self._instantiable = None
        self.expr_nsp = None
        self.carried = []
        self.namespace_root = None
        self.summaries = {}
        self.method_summaries = {}
        self._install_summaries()

    def _install_summaries(self):
        prog = self.prog
        # anchors by symbol; a vanished anchor is an analysis error
        et = prog.modules.get("oneliner.expr_transform")
        if et is None or "expr_transf" not in et.functions:
            raise AnalysisError("anchor oneliner.expr_transform:expr_transf vanished")
        self.summaries[et.functions["expr_transf"].fq] = self.sum_expr_transf
        ri = prog.modules.get("oneliner.reserved_identifiers")
        if ri is None or "ol_name" not in ri.functions:
            raise AnalysisError("anchor oneliner.reserved_identifiers:ol_name vanished")
        self.summaries[ri.functions["ol_name"].fq] = self.sum_ol_name
        ut = prog.modules.get("oneliner.utils")
        if ut is not None and "ast_debug_info" in ut.functions:
            self.summaries[ut.functions["ast_debug_info"].fq] = self.sum_debug_info
        ns = prog.modules.get("oneliner.namespaces")
        if ns is None or "Namespace" not in ns.classes:
            raise AnalysisError("anchor oneliner.namespaces:Namespace vanished")
        self.namespace_root = ns.classes["Namespace"]
        self.method_summaries[("Namespace", "get_assign")] = self.sum_get_assign
        self.method_summaries[("Namespace", "get_load_name")] = self.sum_get_load_name
        pn = prog.modules.get("oneliner.pending_nodes")
        if pn is not None:
            for ci in pn.classes.values():
                if "_iter_branch" in ci.methods:
                    self.summaries[ci.methods["_iter_branch"].fq] = self.sum_iter_branch

    # the expression wrapper stored on the global namespace is summarised as $Wrap
    def obj_getattr(self, o, name, node):
        if name in ("expr_wraper", "expr_wrapper") and o.cls is not None and self.mode == "build" and not getattr(self, "raw_wrapper", False):
            if o.cls.find_method(name) is None:
                return TNode("$Wrapper", {"obj": o}, self.cur_site)
        return super().obj_getattr(o, name, node)

    def snapshot(self, pr: PathResult):
        pr.decisions = list(self.decisions.trace)
        pr.assign = dict(self.decisions.assign)
        pr.effects = self.effects
        pr.events = self.events
        pr.notes = self.notes
        pr.yields = self.yields
        pr.lowered = self.lowered
        pr.transfs = self.transfs
        pr.freshes = self.freshes
        pr.constructed = self.constructed
        pr.holes = self.holes
        pr.str_tests = self.str_tests
        pr.guarded_attr_reads = self.guarded_attr_reads
        pr.unresolved = self.unresolved_calls
        pr.ext_calls = self.ext_calls
        pr.recursion_cut = self.recursion_cut
        pr.rec_cut_args = self.rec_cut_args
        pr.text_calls = self.text_calls
        pr.fresh_in_condition = self.fresh_in_condition
        pr.intervals = dict(self.intervals)
        pr.carried = self.carried
        return pr


def run_protected(it: Interp, pr: PathResult, fn):
    try:
        fn()
    except Raised as r:
        pr.outcome = "raise"
        pr.raised = r
    except PathAbort as a:
        pr.outcome = "abort"
        pr.raised = a
    pr.phase_at_end = it.phase
    it.snapshot(pr)
    return pr


def namespace_classes(prog: Program):
    ns = prog.modules.get("oneliner.namespaces")
    if ns is None or "Namespace" not in ns.classes:
        raise AnalysisError("anchor oneliner.namespaces:Namespace vanished")
    root = ns.classes["Namespace"]
    leaves = [c for c in root.all_subclasses() if not c.all_subclasses()]
    if not leaves:
        raise AnalysisError("no concrete Namespace subclass found")
    glob = [c for c in leaves if "Global" in c.name]
    if len(glob) != 1:
        raise AnalysisError("cannot identify the global namespace class")
    return root, sorted(leaves, key=lambda c: c.name), glob[0]


def pending_paths(prog: Program, ci, kinds, constraints=None):
    """Abstractly run the life cycle of one Pending* class on a symbolic user
    node of the given kinds: constructor, child conversion (_iter_nodes),
    get_result.  Yields one PathResult per context."""
    root, leaves, glob = namespace_classes(prog)

    def run(dec: Decisions):
        it = Interp(prog, dec)
        pr = PathResult()

        def body():
            node = UNode(kinds)
            nsp_cls = it.decide("ctx:nsp", leaves)
            nsp = Obj(nsp_cls, "self.nsp")
            nsp.exact = True
            nsp_global = nsp if nsp_cls is glob else Obj(glob, "self.nsp_global")
            nsp_global.exact = True
            pr.extra["node"] = node
            pr.extra["nsp"] = nsp
            pr.extra["nsp_cls"] = nsp_cls.name
            o = Obj(ci, "self", concrete=True)
            it.self_obj = o
            pr.self_obj = o
            init = ci.find_method("__init__")
            it.phase = 0
            if init is not None:
                f = Func(init, init.node, None, bound_self=o, module=init.module, defcls=init.cls)
                it.invoke(f, [node], {"nsp": nsp, "nsp_global": nsp_global}, init.node)
            # phase 1: drive the generator that yields the child statements
            it.phase = 1
            gen = o.attrs.get("iter_node")
            if isinstance(gen, Gen):
                it.run_gen(gen)
            elif gen is not None:
                raise AnalysisError(f"{ci.name}.iter_node is not a generator: {gen!r}")
            # namespace pushed by convert() for definitions
            it.phase = 2
            gr = ci.find_method("get_result")
            if gr is None:
                raise AnalysisError(f"{ci.name} has no get_result")
            f = Func(gr, gr.node, None, bound_self=o, module=gr.module, defcls=gr.cls)
            pr.result = it.invoke(f, [], {}, gr.node)

        return run_protected(it, pr, body)

    for dec, pr in enumerate_paths(run, constraints, what=f"{ci.name}{sorted(kinds)}"):
        yield pr


def function_paths(prog: Program, fi, make_args, self_cls=None, mode="build", constraints=None, setup=None, summarise_self=False):
    """Abstractly run one function/method with symbolic arguments.
    make_args(it) -> (args list, kwargs dict, self_obj|None)."""

    def run(dec: Decisions):
        it = Interp(prog, dec, mode=mode)
        pr = PathResult()

        def body():
            args, kwargs, self_obj = make_args(it)
            if not summarise_self:
                it.no_summary.add(fi.node)
            if setup:
                setup(it)
            it.self_obj = self_obj
            pr.self_obj = self_obj
            pr.extra["args"] = args
            pr.extra["kwargs"] = kwargs
            f = Func(fi, fi.node, None, bound_self=self_obj, module=fi.module, defcls=fi.cls)
            r = it.invoke(f, args, kwargs, fi.node)
            if isinstance(r, Gen):
                r = it.run_gen(r)
            pr.result = r

        return run_protected(it, pr, body)

    for dec, pr in enumerate_paths(run, constraints, what=fi.fq):
        yield pr
