"""Engine T, part 3: truth / comparison / isinstance with refinement, attribute
and item access on abstract values, the object (summary) model."""
from __future__ import annotations

import ast

from .core import AnalysisError
from .interp_base import MUTATORS, Frame, PathAbort
from .model import ClassInfo, ExtRef, FuncInfo, ModuleInfo, Unevaluable, _ann_classes
from .reference import asdl
from .vals import (
    LIST_WITH_NONE, AstCls, BoundBuiltin, Cst, Ext, Fresh, Func, Gen, Hole, Obj, PDict, PList,
    PSet, PTuple, Rep, RepoCls, RepoMod, SColl, Splice, Str, StrOp, SuperProxy, SVal, Sym,
    TNode, TypeOf, UList, UNode, UPrim, Unknown, V, is_none,
    Transf,
)


class OpsMixin:
    # ------------------------------------------------------------- decisions
    def decide(self, key, options=(True, False)):
        for a, b in self.key_alias:
            key = key.replace(a, b)
        return self.decisions.decide(key, options)

    def note(self, text):
        if text not in self.notes:
            self.notes.append(text)

    def describe(self, v) -> str:
        if isinstance(v, Cst):
            return repr(v.value)
        if isinstance(v, (UNode, UList, UPrim)):
            return v.path()
        if isinstance(v, (Unknown, SVal, SColl)):
            return v.desc
        if isinstance(v, Obj):
            return v.tag
        if isinstance(v, TNode):
            return f"{v.kind}@{v.site}"
        if isinstance(v, Fresh):
            return f"fresh({v.const_name})"
        if isinstance(v, Sym):
            return v.key()
        if isinstance(v, Hole):
            return f"text({self.describe(v.child)})"
        if isinstance(v, TypeOf):
            return f"type({self.describe(v.node)})"
        if isinstance(v, Str):
            return "str(" + "+".join(p if isinstance(p, str) else self.describe(p) for p in v.parts) + ")"
        if isinstance(v, StrOp):
            return f"{v.op}(" + ",".join(self.describe(a) if isinstance(a, V) else repr(a) for a in v.args) + ")"
        if isinstance(v, AstCls):
            return v.cls.__name__
        if isinstance(v, RepoCls):
            return v.ci.name
        if isinstance(v, Func):
            return v.fi.fq if v.fi else f"<{v.name}>"
        if isinstance(v, PList):
            return f"list#{len(v.items)}"
        if type(v).__name__ == "Lowered":
            return f"lowered({self.describe(v.src)})"
        if type(v).__name__ == "Transf":
            return f"X({self.describe(v.inner)})"
        return type(v).__name__

    def render_str(self, v):
        if isinstance(v, Cst):
            return str(v.value)
        if isinstance(v, Str):
            return "".join(p if isinstance(p, str) else "{" + self.describe(p) + "}" for p in v.parts)
        return self.describe(v)

    # ----------------------------------------------------------------- truth
    def truth(self, v, node=None, assume=False):
        if isinstance(v, Cst):
            return bool(v.value)
        if isinstance(v, (UNode, UPrim)):
            if v.is_none:
                return False
            if isinstance(v, UPrim) and v.typ in ("int",):
                return self.decide(f"truthy:{v.path()}")
            if v.opt:
                r = self.decide(f"isnone:{v.path()}", [False, True])
                if r:
                    v.is_none = True
                    return False
                v.opt = False
            if isinstance(v, UPrim) and v.typ in ("string", "identifier", "constant", "object"):
                return True if v.typ == "identifier" else self.decide(f"truthy:{v.path()}")
            return True
        if isinstance(v, UList):
            return self.len_cmp(v, ">", 0)
        if isinstance(v, PList):
            if v.sym_elem_of:
                return self.decide(f"nonempty:{v.sym_elem_of}")
            if not v.items:
                return False
            if any(not isinstance(i, (Rep, Splice)) for i in v.items):
                return True
            return self.decide(f"nonempty:list({self.items_desc(v)})")
        if isinstance(v, (PTuple, PSet)):
            return bool(v.items)
        if isinstance(v, PDict):
            return bool(v.pairs)
        if isinstance(v, SColl):
            if v.known:
                return True
            return self.decide(f"nonempty:{v.desc}")
        if isinstance(v, SVal):
            if self.is_counter(v):
                return self.sym_cmp(Sym({v.desc: 1}), ">", 0)
            return self.decide(f"truthy:{v.desc}")
        if isinstance(v, Unknown):
            if assume:
                return True
            return self.decide(f"truthy:{v.desc}")
        if isinstance(v, Sym):
            if not v.terms:
                return bool(v.const)
            return self.sym_cmp(v, "!=", 0)
        if isinstance(v, (TNode, Obj, Func, AstCls, RepoCls, Ext, Fresh, Gen, RepoMod, BoundBuiltin)):
            return True
        if isinstance(v, Hole):
            return self.decide(f"nonempty:{self.describe(v)}")
        if isinstance(v, (Str, StrOp)):
            if isinstance(v, Str) and any(isinstance(p, str) and p for p in v.parts):
                return True
            return self.decide(f"nonempty:{self.describe(v)}")
        raise AnalysisError(f"truth value of {v!r}")

    def is_counter(self, v):
        """A volatile int attribute that starts at a non-negative constant and is only incremented."""
        if isinstance(v, SVal) and isinstance(v.init, Cst) and isinstance(v.init.value, int) and not isinstance(v.init.value, bool):
            if v.desc not in self.intervals:
                self.intervals[v.desc] = (max(0, v.init.value) if v.init.value >= 0 else None, None)
            return True
        return False

    def items_desc(self, lst):
        out = []
        for i in lst.items:
            if isinstance(i, Rep):
                out.append(f"rep:{i.over}")
            elif isinstance(i, Splice):
                out.append(f"splice:{self.describe(i.v)}")
            else:
                out.append("item")
        return ",".join(out)

    # ------------------------------------------------------------ comparison
    def len_cmp(self, lst, op, n):
        return self.sym_cmp(Sym({f"len({lst.path() if hasattr(lst, 'path') else self.describe(lst)})": 1}), op, n)

    def sym_cmp(self, s: Sym, op, n):
        """Decide `s op n` for a linear form with one symbol, keeping an interval per symbol."""
        if not s.terms:
            return {"==": s.const == n, "!=": s.const != n, "<": s.const < n, ">": s.const > n,
                    "<=": s.const <= n, ">=": s.const >= n}[op]
        if len(s.terms) != 1:
            return self.decide(f"cmp:{s.key()}{op}{n}")
        (name, coef), = s.terms.items()
        if coef != 1:
            return self.decide(f"cmp:{s.key()}{op}{n}")
        bound = n - s.const  # name op bound
        lo, hi = self.intervals.get(name, (0 if name.startswith("len(") else None, None))

        def known(o, b):
            # truth of `name o b` given [lo, hi], or None
            if o == "==":
                if lo is not None and hi is not None and lo == hi:
                    return lo == b
                if (lo is not None and b < lo) or (hi is not None and b > hi):
                    return False
                return None
            if o == "!=":
                k = known("==", b)
                return None if k is None else not k
            if o == ">":
                if lo is not None and lo > b:
                    return True
                if hi is not None and hi <= b:
                    return False
                return None
            if o == ">=":
                return known(">", b - 1)
            if o == "<":
                k = known(">=", b)
                return None if k is None else not k
            if o == "<=":
                k = known(">", b)
                return None if k is None else not k

        k = known(op, bound)
        if k is not None:
            return k
        r = self.decide(f"cmp:{name}{op}{bound}")
        # narrow
        eff = op if r else {"==": "!=", "!=": "==", ">": "<=", ">=": "<", "<": ">=", "<=": ">"}[op]
        if eff == "==":
            lo, hi = bound, bound
        elif eff == ">":
            lo = bound + 1 if lo is None else max(lo, bound + 1)
        elif eff == ">=":
            lo = bound if lo is None else max(lo, bound)
        elif eff == "<":
            hi = bound - 1 if hi is None else min(hi, bound - 1)
        elif eff == "<=":
            hi = bound if hi is None else min(hi, bound)
        elif eff == "!=":
            if lo is not None and lo == bound:
                lo = bound + 1
            if hi is not None and hi == bound:
                hi = bound - 1
        self.intervals[name] = (lo, hi)
        return r

    def compare(self, op, l, r, node):
        opn = type(op).__name__
        if opn in ("Is", "IsNot"):
            res = self.identical(l, r)
            return res if opn == "Is" else not res
        if opn in ("In", "NotIn"):
            res = self.contains(r, l, node)
            return res if opn == "In" else not res
        sym = {"Eq": "==", "NotEq": "!=", "Lt": "<", "LtE": "<=", "Gt": ">", "GtE": ">="}[opn]
        if isinstance(l, Cst) and isinstance(r, Cst):
            try:
                return {"==": l.value == r.value, "!=": l.value != r.value, "<": l.value < r.value,
                        "<=": l.value <= r.value, ">": l.value > r.value, ">=": l.value >= r.value}[sym]
            except TypeError:
                raise AnalysisError(f"comparison of {l!r} and {r!r}")
        # version guards: sys.version_info <op> tuple
        if isinstance(l, Ext) and l.dotted == "sys.version_info" and isinstance(r, (PTuple, Cst)):
            tup = tuple(i.value for i in r.items) if isinstance(r, PTuple) else r.value
            return self.decide(f"host:version{sym}{tup}")
        ls, rs = self.as_sym(l), self.as_sym(r)
        if ls is not None and rs is not None:
            diff_terms = dict(ls.terms)
            for k, c in rs.terms.items():
                diff_terms[k] = diff_terms.get(k, 0) - c
            d = Sym({k: c for k, c in diff_terms.items() if c}, ls.const - rs.const)
            return self.sym_cmp(d, sym, 0)
        if sym in ("==", "!=") and not (
            (isinstance(l, SVal) and self.is_counter(l) and isinstance(r, Cst))
            or (isinstance(r, SVal) and self.is_counter(r) and isinstance(l, Cst))
        ):
            res = self.equal(l, r)
            return res if sym == "==" else not res
        if isinstance(l, (SVal, Unknown)) and isinstance(r, Cst) and isinstance(r.value, int):
            # counters / unknown ints against a constant
            return self.sym_cmp(Sym({l.desc: 1}), sym, r.value)
        if isinstance(r, (SVal, Unknown)) and isinstance(l, Cst) and isinstance(l.value, int):
            flip = {"<": ">", "<=": ">=", ">": "<", ">=": "<=", "==": "==", "!=": "!="}[sym]
            return self.sym_cmp(Sym({r.desc: 1}), flip, l.value)
        if isinstance(l, StrOp) and l.op == "ord" and isinstance(r, Cst):
            return self.decide(f"ord:{self.describe(l.args[0])}{sym}{r.value}")
        if isinstance(r, StrOp) and r.op == "ord" and isinstance(l, Cst):
            flip = {"<": ">", "<=": ">=", ">": "<", ">=": "<="}[sym]
            return self.decide(f"ord:{self.describe(r.args[0])}{flip}{l.value}")
        return self.decide(f"cmp:{self.describe(l)}{sym}{self.describe(r)}")

    def identical(self, l, r):
        if is_none(r) or is_none(l):
            other = l if is_none(r) else r
            if is_none(other):
                return True
            if isinstance(other, (UNode, UPrim)):
                if not other.opt:
                    return False
                res = self.decide(f"isnone:{other.path()}", [False, True])
                if res:
                    other.is_none = True
                else:
                    other.opt = False
                return res
            if isinstance(other, (Unknown, SVal)):
                if getattr(other, "not_none", False):
                    return False
                return self.decide(f"isnone:{other.desc}", [False, True])
            return False
        if isinstance(l, Cst) and isinstance(r, Cst):
            return l.value is r.value or (l.value == r.value and type(l.value) is type(r.value))
        if isinstance(l, TypeOf) and isinstance(r, AstCls):
            return self.kind_test(l.node, {r.cls.__name__})
        if isinstance(r, TypeOf) and isinstance(l, AstCls):
            return self.kind_test(r.node, {l.cls.__name__})
        if isinstance(l, Func) and isinstance(r, Func):
            return l.node is r.node
        if isinstance(l, Obj) and isinstance(r, Obj):
            return l is r
        if isinstance(l, (UNode,)) and isinstance(r, Cst) and r.value is Ellipsis:
            return False
        if isinstance(l, UPrim) and isinstance(r, Cst):
            return self.equal(l, r)
        if l is r:
            return True
        if isinstance(l, AstCls) and isinstance(r, AstCls):
            return l.cls is r.cls
        if isinstance(l, (Unknown, SVal)) or isinstance(r, (Unknown, SVal)):
            return self.decide(f"is:{self.describe(l)}:{self.describe(r)}")
        return False

    def equal(self, l, r):
        if isinstance(r, UPrim) and not isinstance(l, UPrim):
            l, r = r, l
        if isinstance(l, UPrim) and isinstance(r, Cst):
            if l.is_none:
                return r.value is None
            key = f"eq:{r.value!r}"
            if key in l.facts:
                return l.facts[key]
            if l.typ == "identifier" and isinstance(r.value, str) and r.value and not (r.value.isidentifier() or r.value == "*" or "." in r.value):
                return False
            res = self.decide(f"eq:{l.path()}=={r.value!r}")
            l.facts[key] = res
            if res:
                l.facts["value"] = r.value
            return res
        if isinstance(l, Cst) and isinstance(r, Cst):
            return l.value == r.value
        if isinstance(l, TypeOf) or isinstance(r, TypeOf):
            return self.identical(l, r)
        if isinstance(l, (Hole, Str, StrOp)) or isinstance(r, (Hole, Str, StrOp)):
            return self.decide(f"eq:{self.describe(l)}=={self.describe(r)}")
        if isinstance(l, (Unknown, SVal)) or isinstance(r, (Unknown, SVal)):
            return self.decide(f"eq:{self.describe(l)}=={self.describe(r)}")
        if isinstance(l, Fresh) or isinstance(r, Fresh):
            self.note(f"comparison on a fresh identifier at {self.cur_site}")
            self.fresh_in_condition = True
            return self.decide(f"eq:{self.describe(l)}=={self.describe(r)}")
        if isinstance(l, (PList, PTuple)) and isinstance(r, (PList, PTuple)):
            if len(l.items) != len(r.items):
                return False
            return all(self.equal(a, b) for a, b in zip(l.items, r.items))
        return l is r

    def contains(self, coll, item, node):
        if isinstance(coll, (PList, PTuple, PSet)):
            if isinstance(item, TypeOf):
                names = set()
                for i in coll.items:
                    if isinstance(i, AstCls):
                        names.add(i.cls.__name__)
                    else:
                        raise AnalysisError(f"type(...) in a list with non-class members at {self.cur_site}")
                return self.kind_test(item.node, names)
            seq = self.concrete_seq(coll)
            if seq is None:
                return self.decide(f"in:{self.describe(item)}:{self.describe(coll)}")
            if isinstance(item, Func):
                return any(isinstance(i, Func) and i.node is item.node for i in seq)
            for i in seq:
                if self.equal(item, i):
                    return True
            return False
        if isinstance(coll, PDict):
            for k, _ in coll.pairs:
                if self.equal(item, k):
                    return True
            return False
        if isinstance(coll, Cst) and isinstance(coll.value, str):
            if isinstance(item, Cst):
                return item.value in coll.value
            return self.decide(f"in:{self.describe(item)}:{coll.value!r}")
        if isinstance(coll, UPrim) and isinstance(item, Cst):
            key = f"contains:{item.value}"
            if key in coll.facts:
                return coll.facts[key]
            res = self.decide(f"contains:{coll.path()}:{item.value!r}")
            coll.facts[key] = res
            return res
        if isinstance(coll, (Hole, Str, StrOp)) and isinstance(item, Cst):
            key = f"contains:{item.value}"
            facts = getattr(coll, "facts", None)
            if facts is not None and key in facts:
                return facts[key]
            res = self.decide(f"contains:{self.describe(coll)}:{item.value!r}")
            if facts is not None:
                facts[key] = res
            self.str_tests.append(("contains", coll, item.value, res, self.cur_site))
            return res
        if isinstance(coll, (Hole, Str, StrOp)) and isinstance(item, (Unknown, Hole, Str, StrOp)):
            # a symbolic piece of text (e.g. the quote character `qm`) looked for in a symbolic text
            res = self.decide(f"contains:{self.describe(coll)}:<{self.describe(item)}>")
            self.str_tests.append(("contains", coll, f"<{self.describe(item)}>", res, self.cur_site))
            return res
        if isinstance(coll, (SColl, Unknown, SVal)):
            return self.decide(f"in:{self.describe(item)}:{coll.desc}")
        raise AnalysisError(f"membership test in {coll!r} at {self.cur_site}")

    # ------------------------------------------------------------ isinstance
    def kind_names(self, cls):
        """Set of concrete ast kind names denoted by an ast class value (or tuple)."""
        if isinstance(cls, PTuple):
            out = set()
            for c in cls.items:
                k = self.kind_names(c)
                if k is None:
                    return None
                out |= k
            return out
        if isinstance(cls, AstCls):
            c = cls.cls
            subs = [s.__name__ for s in c.__subclasses__()]
            return {c.__name__} | set(subs) | {x.__name__ for s in c.__subclasses__() for x in s.__subclasses__()}
        return None

    def kind_test(self, node: UNode, names: set):
        if not isinstance(node, UNode):
            if isinstance(node, TNode):
                return node.kind in names
            return self.decide(f"kind:{self.describe(node)}:{sorted(names)}")
        if node.is_none:
            return False
        inter = node.kinds & names
        if not inter:
            return False
        if node.kinds <= names and not node.opt:
            return True
        res = self.decide(f"isinstance:{node.path()}:{'|'.join(sorted(inter))}")
        if res:
            node.kinds = frozenset(inter)
            node.opt = False
        else:
            node.kinds = node.kinds - names
        return res

    def repo_classes(self, cls):
        if isinstance(cls, RepoCls):
            return {cls.ci}
        if isinstance(cls, PTuple):
            out = set()
            for c in cls.items:
                r = self.repo_classes(c)
                if r is None:
                    return None
                out |= r
            return out
        return None

    def isinstance_test(self, v, cls, force=None):
        kn = self.kind_names(cls)
        if kn is not None and type(v).__name__ == "Transf" and isinstance(v.inner, TNode) and not v.inner.kind.startswith("$"):
            if v.inner.kind in ("Name", "NamedExpr"):
                return self.decide(f"isinstance:X({v.inner.kind}@{v.inner.site}):{'|'.join(sorted(kn))[:50]}")
            return v.inner.kind in kn
        if kn is not None and type(v).__name__ == "Transf" and isinstance(v.inner, UNode):
            # the rewriter preserves the kind of every node except names and walruses
            changing = {"Name", "NamedExpr", "Subscript", "Call", "List"}
            if not (kn & changing):
                return self.kind_test(v.inner, kn)
            res = self.decide(f"isinstance:X({v.inner.path()}):{'|'.join(sorted(kn))[:50]}")
            if res and kn & v.inner.kinds and not (kn & {"Name"}):
                # either the user wrote that kind, or it is the rewritten form of a name / walrus
                origin = self.decide(f"rewritten-from:X({v.inner.path()})", ["same-kind", "name-or-walrus"]) if v.inner.kinds & {"Name", "NamedExpr"} else "same-kind"
                if origin == "same-kind":
                    v.inner.kinds = frozenset(kn & v.inner.kinds)
                    v.inner.opt = False
                else:
                    v.inner.kinds = frozenset(v.inner.kinds & {"Name", "NamedExpr"})
            if res and kn == {"Name"} and "Name" in v.inner.kinds:
                # a rewritten node that is still a plain Name is the user's own name, loaded plainly
                v.inner.kinds = frozenset(["Name"])
                v.inner.opt = False
            return res
        if kn is not None:
            if isinstance(v, UNode):
                if force:
                    inter = v.kinds & kn
                    if not inter or v.is_none:
                        return False
                    v.kinds = frozenset(inter)
                    v.opt = False
                    return True
                return self.kind_test(v, kn)
            if isinstance(v, TNode):
                if v.kind == "$Store":
                    # the storage form chosen by the namespace (a walrus or a call)
                    return self.decide(f"storeform:{'|'.join(sorted(kn))[:40]}")
                if v.kind.startswith("$"):
                    return self.decide(f"isinstance:{v.kind}:{'|'.join(sorted(kn))[:40]}")
                return v.kind in kn
            if isinstance(v, (Cst, PList, PTuple, PDict, Obj, UPrim, Str, Fresh)):
                return False
            if isinstance(v, UList):
                return False
            if force:
                return True
            return self.decide(f"isinstance:{self.describe(v)}:{'|'.join(sorted(kn))[:60]}")
        rc = self.repo_classes(cls)
        if rc is not None:
            if isinstance(v, Obj):
                return self.obj_isinstance(v, rc, force)
            if isinstance(v, (Unknown, SVal)):
                if force:
                    return True
                return self.decide(f"isinstance:{v.desc}:{'|'.join(sorted(c.name for c in rc))}")
            return False
        # builtin types
        names = self.builtin_type_names(cls)
        if names is not None:
            if isinstance(v, Cst):
                return type(v.value).__name__ in names or (isinstance(v.value, bool) and "int" in names)
            if isinstance(v, PList):
                return "list" in names
            if isinstance(v, PTuple):
                return "tuple" in names
            if isinstance(v, PDict):
                return "dict" in names
            if isinstance(v, PSet):
                return "set" in names
            if isinstance(v, UList):
                return "list" in names
            if isinstance(v, (Str, StrOp, Hole, Fresh)):
                return "str" in names
            if isinstance(v, UPrim):
                if v.is_none:
                    return False
                if v.typ in ("identifier", "string"):
                    return "str" in names
                if v.typ == "int":
                    return "int" in names
                # constant: any of the literal types
                key = f"consttype:{'|'.join(sorted(names))}"
                if key in v.facts:
                    return v.facts[key]
                if force:
                    v.facts[key] = True
                    return True
                res = self.decide(f"isinstance:{v.path()}:{'|'.join(sorted(names))}")
                v.facts[key] = res
                return res
            if isinstance(v, (UNode, TNode, Obj, Func)):
                return False
            if isinstance(v, (Unknown, SVal)):
                if force:
                    return True
                return self.decide(f"isinstance:{v.desc}:{'|'.join(sorted(names))}")
        if isinstance(cls, (Unknown, Ext)):
            if force:
                return True
            return self.decide(f"isinstance:{self.describe(v)}:{self.describe(cls)}")
        raise AnalysisError(f"isinstance({v!r}, {cls!r}) at {self.cur_site}")

    def instantiable(self, ci):
        """Is the class instantiated anywhere (constructor call or dispatch table)?"""
        cache = self.prog.__dict__.setdefault("_olsa_cache", {})
        self._instantiable = cache.get("instantiable")
        if self._instantiable is None:
            names = set()
            for mi in self.prog.modules.values():
                for n in ast.walk(mi.tree):
                    if isinstance(n, ast.Call) and isinstance(n.func, (ast.Name, ast.Attribute)):
                        names.add(n.func.id if isinstance(n.func, ast.Name) else n.func.attr)
                    elif isinstance(n, ast.Dict):
                        for v in n.values:
                            if isinstance(v, ast.Name):
                                names.add(v.id)
                    elif isinstance(n, ast.Return) and isinstance(n.value, ast.Name):
                        names.add(n.value.id)  # a factory / dispatch function handing out the class
                    elif isinstance(n, (ast.List, ast.Tuple, ast.Set)) and isinstance(getattr(n, "ctx", ast.Load()), ast.Load):
                        for v in n.elts:
                            if isinstance(v, ast.Name) and v.id[:1].isupper() and not any(True for _ in ()):
                                pass
            self._instantiable = names
            cache["instantiable"] = names
        return ci.name in self._instantiable

    def isinstance_force(self, v, cls):
        return self.isinstance_test(v, cls, force=True)

    def builtin_type_names(self, cls):
        if isinstance(cls, Ext) and cls.dotted.startswith("builtins."):
            return {cls.dotted.split(".", 1)[1]}
        if isinstance(cls, PTuple):
            out = set()
            for c in cls.items:
                n = self.builtin_type_names(c)
                if n is None:
                    return None
                out |= n
            return out
        return None

    def obj_isinstance(self, o: Obj, classes, force=False):
        if o.cls is None:
            if force:
                if len(classes) == 1:
                    o.cls = next(iter(classes))
                return True
            res = self.decide(f"isinstance:{o.tag}:{'|'.join(sorted(c.name for c in classes))}")
            if res and len(classes) == 1:
                o.cls = next(iter(classes))
            return res
        if any(o.cls.is_subclass_of(c) for c in classes):
            return True
        if o.exact:
            return False
        live = [c for c in [o.cls] + o.cls.all_subclasses() if c not in o.excluded and self.instantiable(c)]
        if live and all(any(c.is_subclass_of(k) for k in classes) for c in live):
            tops = [c for c in live if not any(c is not d and c.is_subclass_of(d) for d in live)]
            if len(tops) == 1:
                o.cls = tops[0]
                o.exact = not tops[0].all_subclasses()
            return True
        # candidates: subclasses of the upper bound that are subclasses of one of `classes`
        cands = [s for s in o.cls.all_subclasses() if any(s.is_subclass_of(c) for c in classes) and s not in o.excluded]
        if not cands:
            return False
        if force:
            res = True
        else:
            res = self.decide(f"isinstance:{o.tag}:{'|'.join(sorted(c.name for c in classes))}")
        if res:
            # refine to the most general candidate
            tops = [c for c in cands if not any(c is not d and c.is_subclass_of(d) for d in cands)]
            if len(tops) == 1:
                o.cls = tops[0]
                if not tops[0].all_subclasses():
                    o.exact = True
        else:
            o.excluded |= set(cands)
        return res

    # ------------------------------------------------------------- attributes
    def getattr(self, v, name, node=None):
        if isinstance(v, Obj):
            return self.obj_getattr(v, name, node)
        if isinstance(v, PTuple) and name in getattr(v, "names", ()):
            return v.items[v.names.index(name)]
        if isinstance(v, PTuple) and getattr(v, "record_cls", None) is not None and v.record_cls.find_method(name) is not None:
            m = v.record_cls.find_method(name)
            return Func(m, m.node, None, bound_self=v, module=m.module, defcls=m.cls)
        if isinstance(v, UNode):
            return self.unode_getattr(v, name, node)
        if isinstance(v, TNode):
            if name in v.fields:
                return v.fields[name]
            if v.kind in ("$Param", "$LoweredItem") and name in ("elts", "values", "keys", "body", "args", "value", "left", "right", "operand", "test", "orelse", "generators", "elt", "func", "keywords", "target"):
                # looking INSIDE an expression that some statement was lowered to: the lists of such
                # nodes may still be completed by the enclosing loop/function (flag sets are appended
                # later), so what is seen now is not what is emitted
                self.effects.append({"kind": "inspect-lowered", "attr": name, "target": v.kind, "site": self.cur_site, "rep": list(self.rep_stack), "phase": self.phase})
                out = PList([])
                out.sym_elem_of = f"{v.kind}.{name}"
                return out
            if name == "_fields":
                cls = getattr(ast, v.kind, None)
                if cls is None or v.kind.startswith("$"):
                    raise AnalysisError("reflection on a template node")
                return PTuple([Cst(f) for f in cls._fields])
            info = asdl.field_info(v.kind, name)
            if info and info[1] == "?":
                return Cst(None)
            if name in ("lineno", "col_offset"):
                return Unknown("pos")
            self.events.append(("attr-error", f"{v.kind}.{name} read but never set", self.cur_site))
            raise PathAbort(f"AttributeError {v.kind}.{name}")
        if isinstance(v, RepoMod):
            return self.module_global(v.mi, name, node)
        if isinstance(v, RepoCls):
            m = v.ci.find_method(name)
            if m is not None:
                decos = {ast.unparse(d).split(".")[-1] for d in m.node.decorator_list}
                if "classmethod" in decos:
                    return Func(m, m.node, None, bound_self=v, module=m.module, defcls=m.cls)
                return Func(m, m.node, None, module=m.module, defcls=m.cls)
            ca = v.ci.find_class_attr(name)
            if ca is not None:
                owner, (val, ann, _g) = ca
                if val is not None:
                    return self.class_attr_value(owner, name, val)
            if name == "__name__":
                return Cst(v.ci.name)
            raise AnalysisError(f"class attribute {v.ci.name}.{name}")
        if isinstance(v, Ext):
            if v.dotted == "ast" and hasattr(ast, name):
                return AstCls(getattr(ast, name))
            return Ext(f"{v.dotted}.{name}")
        if isinstance(v, SuperProxy):
            mro = v.obj.cls.mro()
            after = mro[mro.index(v.after_cls) + 1:] if v.after_cls in mro else mro[1:]
            for c in after:
                if name in c.methods:
                    m = c.methods[name]
                    return Func(m, m.node, None, bound_self=v.obj, module=m.module, defcls=c)
            if name == "__init__":
                return Ext("builtins.object.__init__")
            raise AnalysisError(f"super().{name} not found")
        if isinstance(v, (PList, PDict, PSet, PTuple, SColl, Str, StrOp, Hole, Fresh, Gen)):
            return BoundBuiltin(v, name)
        if isinstance(v, Cst):
            if isinstance(v.value, str):
                return BoundBuiltin(v, name)
            if v.value is None:
                self.events.append(("attr-error", f"None.{name}", self.cur_site))
                raise PathAbort(f"AttributeError None.{name}")
            return BoundBuiltin(v, name)
        if isinstance(v, UPrim):
            if v.is_none:
                self.events.append(("attr-error", f"None.{name} ({v.path()})", self.cur_site))
                raise PathAbort("attribute of None")
            return BoundBuiltin(v, name)
        if isinstance(v, UList):
            return BoundBuiltin(v, name)
        if isinstance(v, (Unknown, SVal)):
            u = Unknown(f"{v.desc}.{name}")
            u.recv = v
            u.meth = name
            return u
        if isinstance(v, TypeOf):
            u = v.node
            if name == "__name__":
                if isinstance(u, UNode) and not u.opt and 1 <= len(u.kinds) <= 16:
                    # a small sum type (operators): the text is used to compute something, split
                    kinds = sorted(u.kinds)
                    k = kinds[0] if len(kinds) == 1 else self.decide(f"kind:{u.path()}", kinds)
                    u.kinds = frozenset([k])
                    return Cst(k)
                return Unknown(f"type({self.describe(v.node)}).__name__", typ="str")
            if name in ("__base__", "__bases__", "__mro__") and isinstance(u, UNode) and u.kinds:
                import ast as _ast

                bases = {getattr(_ast, k).__base__ for k in u.kinds if hasattr(_ast, k)}
                if len(bases) == 1 and name == "__base__":
                    return AstCls(bases.pop())
                if len(bases) == 1 and name == "__bases__":
                    return PTuple([AstCls(bases.pop())])
        if isinstance(v, AstCls):
            if name == "__name__":
                return Cst(v.cls.__name__)
            if name == "_fields":
                return PTuple([Cst(f) for f in v.cls._fields])
        if isinstance(v, Func):
            return Unknown(f"{self.describe(v)}.{name}")
        if isinstance(v, Sym):
            return BoundBuiltin(v, name)
        if type(v).__name__ == "Transf" and isinstance(v.inner, TNode) and v.inner.kind not in ("Name", "NamedExpr") and not v.inner.kind.startswith("$"):
            from .vals import Transf

            sub = v.inner.fields.get(name)
            if sub is None:
                return self.getattr(v.inner, name, node)

            def wrap(x):
                if isinstance(x, (TNode, UNode)):
                    return Transf(v.nsp, x, v.site)
                return x

            if isinstance(sub, PList):
                return PList([wrap(i) if not isinstance(i, (Rep, Splice)) else i for i in sub.items])
            return wrap(sub)
        if type(v).__name__ == "Transf" and isinstance(v.inner, UNode):
            if v.inner.kinds == {"Name"} and name == "id":
                return self.unode_getattr(v.inner, name, node)
            if v.inner.kinds & {"Name", "NamedExpr"}:
                # the rewritten form of a name / walrus (a namespace-specific load or store)
                return Unknown(f"X({v.inner.path()}).{name}")
            sub = self.unode_getattr(v.inner, name, node)
            if isinstance(sub, UNode):
                from .vals import Transf

                return Transf(v.nsp, sub, v.site)
            if isinstance(sub, UList) and sub.elem_type not in asdl.PRIMITIVE:
                # the children of a rewritten node are rewritten nodes: a view of the list whose
                # elements come wrapped
                import copy as _copy

                view = _copy.copy(sub)
                view.xform = (v.nsp, v.site)
                return view
            return sub
        raise AnalysisError(f"attribute {name} of {v!r} at {self.cur_site}")

    def unode_getattr(self, u: UNode, name, node):
        if u.is_none:
            self.events.append(("attr-error", f"None.{name} ({u.path()})", self.cur_site))
            raise PathAbort("attribute of None")
        if name in u.fields:
            return u.fields[name]
        if name in ("lineno", "col_offset", "end_lineno", "end_col_offset"):
            return Unknown(f"{u.path()}.{name}", typ="int")
        if name == "_fields":
            if len(u.kinds) == 1:
                import ast as _ast

                return PTuple([Cst(f) for f in getattr(_ast, next(iter(u.kinds)))._fields])
            k = self.decide(f"kind:{u.path()}", sorted(u.kinds))
            u.kinds = frozenset([k])
            import ast as _ast

            return PTuple([Cst(f) for f in getattr(_ast, k)._fields])
        if u.opt:
            # reading a field of a possibly-None node: Python would raise on None
            self.events.append(("maybe-none", f"{u.path()}.{name}", self.cur_site))
        infos = {}
        for k in u.kinds:
            fi = asdl.field_info(k, name)
            if fi is not None:
                infos[k] = fi
        if not infos:
            self.events.append(("attr-error", f"{u.path()}.{name}: no such field", self.cur_site))
            raise PathAbort(f"no field {name} on {u.kinds}")
        if len(infos) < len(u.kinds):
            # only some kinds have it: split
            have = frozenset(infos)
            if not self.kind_test(u, set(have)):
                self.events.append(("attr-error", f"{u.path()}.{name}: missing on {sorted(u.kinds)}", self.cur_site))
                raise PathAbort("missing field")
        types = set(infos[k] for k in u.kinds if k in infos)
        if len(types) != 1:
            # split further by kind
            k = self.decide(f"kind:{u.path()}", sorted(u.kinds))
            u.kinds = frozenset([k])
            types = {infos[k]}
        (t, q), = types
        if q == "*":
            may_none = any((k, name) in LIST_WITH_NONE for k in u.kinds)
            val = UList(u, name, t, may_none=may_none)
        elif t in asdl.PRIMITIVE:
            val = UPrim(u, name, t, opt=(q == "?"))
        else:
            val = UNode(asdl.kinds_of_type(t), u, name, None, opt=(q == "?"))
        u.fields[name] = val
        return val

    def setattr(self, v, name, val, node=None, aug=None):
        if isinstance(v, Obj):
            return self.obj_setattr(v, name, val, node, aug)
        if isinstance(v, TNode):
            if v.shared:
                self.effects.append({"kind": "shared-write", "target": f"{v.kind}@{v.site}.{name}", "site": self.cur_site})
            v.fields[name] = val
            return
        if isinstance(v, UNode):
            self.effects.append({"kind": "user-tree-write", "target": f"{v.path()}.{name}", "site": self.cur_site})
            v.fields[name] = val
            return
        if isinstance(v, (Unknown, SVal)):
            self.effects.append({"kind": "set", "target": f"{v.desc}.{name}", "value": val, "site": self.cur_site, "rep": list(self.rep_stack)})
            return
        if isinstance(v, (RepoCls, RepoMod)):
            tgt = v.ci.name if isinstance(v, RepoCls) else v.mi.name
            self.effects.append({"kind": "shared-write", "target": f"{tgt}.{name}", "site": self.cur_site})
            return
        if isinstance(v, Transf):
            # a field of an already rewritten node is replaced afterwards (by another rewritten value):
            # recorded, the node stays "the user expression rewritten in that namespace"
            self.effects.append({"kind": "rewritten-node-write", "target": f"{v.inner!r}.{name}", "value": val, "site": self.cur_site, "rep": list(self.rep_stack), "phase": getattr(self, "phase", None)})
            return
        raise AnalysisError(f"attribute store {name} on {v!r} at {self.cur_site}")

    # ----------------------------------------------------------------- items
    def getitem(self, base, idx, node):
        if isinstance(base, (PList, PTuple)):
            if isinstance(idx, Cst) and isinstance(idx.value, int):
                seq = self.concrete_seq(base)
                if seq is not None:
                    try:
                        return seq[idx.value]
                    except IndexError:
                        self.events.append(("index-error", f"{self.describe(base)}[{idx.value}]", self.cur_site))
                        raise PathAbort("IndexError")
                # symbolic list with Rep items
                items = base.items
                if idx.value >= 0 and all(not isinstance(i, (Rep, Splice)) for i in items[: idx.value + 1]) and len(items) > idx.value:
                    return items[idx.value]
                if idx.value < 0 and all(not isinstance(i, (Rep, Splice)) for i in items[idx.value:]) and len(items) >= -idx.value:
                    return items[idx.value]
                if isinstance(base, PList) and base.sym_elem_of:
                    return Unknown(f"{base.sym_elem_of}[{idx.value}]")
                return Unknown(f"{self.describe(base)}[{idx.value}]")
            if isinstance(idx, (Sym, Unknown)):
                return TNode("$Index", {"list": base, "index": idx}, self.cur_site)
        if isinstance(base, UList):
            if isinstance(idx, Cst) and isinstance(idx.value, int):
                return base.elem(idx.value)
            return base.elem("?")
        if isinstance(base, PDict):
            if isinstance(idx, TypeOf):
                return self.table_lookup(base, idx, node)
            for k, v in base.pairs:
                if self.equal(idx, k):
                    return v
            self.events.append(("key-error", f"{self.describe(idx)}", self.cur_site))
            raise PathAbort("KeyError")
        if isinstance(base, SColl):
            if isinstance(idx, Cst) and idx.value == -1 and base.kind == "list":
                if base.known:
                    return base.known[-1]
                if not self.truth(base):
                    self.events.append(("index-error", f"{base.desc}[-1] on an empty list", self.cur_site))
                    raise PathAbort("IndexError")
                return self.scoll_elem(base, "-1" if not base.popped else f"-1~{base.popped}")
            return self.scoll_elem(base, self.describe(idx))
        if isinstance(base, (Unknown, SVal)):
            return Unknown(f"{base.desc}[{self.describe(idx)}]")
        if isinstance(base, (Hole, Str, StrOp, UPrim)) or (isinstance(base, Cst) and isinstance(base.value, str)):
            if isinstance(base, Cst) and isinstance(idx, Cst):
                return Cst(base.value[idx.value])
            if isinstance(base, StrOp) and base.op == "split" and isinstance(idx, Cst) and isinstance(base.args[0], UPrim):
                src = base.args[0]
                d = UPrim(src.parent, src.field, src.typ, index=src.index)
                d.derived = f"split({base.args[1]!r})[{idx.value}]"
                d.facts = {f"contains:{base.args[1]}": False}
                return d
            s = StrOp("index", [base, idx.value if isinstance(idx, Cst) else idx])
            return s
        if isinstance(base, Ext) or isinstance(base, RepoCls) or isinstance(base, AstCls):
            return base  # generic alias Foo[T]
        if isinstance(base, Cst) and isinstance(base.value, (tuple, list)) and isinstance(idx, Cst):
            return Cst(base.value[idx.value])
        if self.mode == "unparse" and isinstance(base, TNode) and base.kind in ("$NestHole", "$Index") and isinstance(idx, Cst) and isinstance(idx.value, int):
            # a character of the text accumulated so far (the unparser asks what a piece ends with)
            return StrOp("index", [base, idx.value])
        raise AnalysisError(f"subscript of {base!r} with {idx!r} at {self.cur_site}")

    def table_lookup(self, table: PDict, key: TypeOf, node):
        """TABLE[type(user_node)]: split on the node kind."""
        u = key.node
        if not isinstance(u, UNode):
            raise AnalysisError("table lookup by type of a non-user node")
        kinds = sorted(u.kinds)
        k = kinds[0] if len(kinds) == 1 else self.decide(f"kind:{u.path()}", kinds)
        u.kinds = frozenset([k])
        for kk, v in table.pairs:
            if isinstance(kk, AstCls) and kk.cls.__name__ == k:
                return v
        self.events.append(("key-error", f"type {k} not in table", self.cur_site))
        raise PathAbort("KeyError")

    def getslice(self, base, lo, hi, stp, node):
        def c(x):
            return None if x is None else (x.value if isinstance(x, Cst) else x)

        if isinstance(base, (PList, PTuple)) and all(x is None or isinstance(x, Cst) for x in (lo, hi, stp)):
            seq = self.concrete_seq(base)
            if seq is not None:
                return PList(seq[slice(c(lo), c(hi), c(stp))])
        if isinstance(base, Cst) and isinstance(base.value, str) and all(x is None or isinstance(x, Cst) for x in (lo, hi, stp)):
            return Cst(base.value[slice(c(lo), c(hi), c(stp))])
        if isinstance(base, PList) and not base.sym_elem_of and hi is None and stp is None and isinstance(lo, Cst) and isinstance(lo.value, int) and lo.value >= 0:
            k = lo.value
            if len(base.items) >= k and all(not isinstance(i, (Rep, Splice)) for i in base.items[:k]):
                return PList(list(base.items[k:]))
        if isinstance(base, PList) and not base.sym_elem_of and lo is None and stp is None and isinstance(hi, Cst) and isinstance(hi.value, int) and hi.value >= 0:
            k = hi.value
            if len(base.items) >= k and all(not isinstance(i, (Rep, Splice)) for i in base.items[:k]):
                return PList(list(base.items[:k]))  # a prefix that lies in the concrete part
        if lo is None and hi is None and isinstance(stp, Cst) and stp.value == -1 and isinstance(base, (UList, PList, SColl, StrOp)):
            return StrOp("reversed", [base])
        desc = f"{'' if lo is None else c(lo)}:{'' if hi is None else c(hi)}" + ("" if stp is None else f":{c(stp)}")
        return StrOp("slice", [base, desc])

    def setitem(self, base, idx, val, node):
        if isinstance(base, PDict):
            if base.shared:
                self.effects.append({"kind": "shared-write", "target": "dict", "site": self.cur_site})
            for i, (k, v) in enumerate(base.pairs):
                if isinstance(k, Cst) and isinstance(idx, Cst) and k.value == idx.value:
                    base.pairs[i] = (k, val)
                    return
            if self.rep_stack and not isinstance(idx, Cst):
                # filled once per element of a symbolic list, keyed by a value of the element: entries
                # with equal keys collapse, the order is that of the first occurrence of each key
                base.sym.append(Rep([PTuple([idx, val])], f"bykey({self.rep_stack[-1]})", None))
                return
            base.pairs.append((idx, val))
            return
        if isinstance(base, PList):
            if base.shared:
                self.effects.append({"kind": "shared-write", "target": "list", "site": self.cur_site})
            if isinstance(idx, Cst) and isinstance(idx.value, int):
                seq = self.concrete_seq(base)
                if seq is not None and -len(seq) <= idx.value < len(seq):
                    base.items[idx.value] = val
                    return
            n = TNode("$SetItem", {"index": idx, "value": val}, self.cur_site)
            # what the list holds at this moment (symbolic length) and the loops the store sits in:
            # needed to judge WHICH element an index denotes
            terms, const = {}, 0
            for it_ in base.items:
                if isinstance(it_, Rep):
                    k = f"len({it_.over})"
                    terms[k] = terms.get(k, 0) + len(it_.items)
                elif isinstance(it_, TNode) and it_.kind == "$SetItem":
                    pass
                else:
                    const += 1
            n.len_before = Sym(terms, const)
            n.rep = list(self.rep_stack)
            base.items.append(n)
            return
        if isinstance(base, (Unknown, SVal, SColl)):
            self.effects.append({"kind": "setitem", "target": base.desc, "key": idx, "value": val, "site": self.cur_site, "rep": list(self.rep_stack)})
            return
        raise AnalysisError(f"item store on {base!r} at {self.cur_site}")
