"""C01 - clauses that occur only in C01's statement: added names, option
siblings (the options change the shape, never the meaning), pipeline."""
from __future__ import annotations

import ast
import itertools

from ..core import AnalysisError, RuleResult
from ..extract import expr_wrapper_paths
from ..semwalk import events_of
from ..vals import Cst, Fresh, TNode, Transf, UNode, UPrim, V
from .common import all_templates, cached, kinds_label, path_events, short_ctx

EXPLANATION = (
    "The behavioural core of C01 (same stdout/globals for every program) is the conjunction of "
    "C05-C07, C09, C11-C14 and is not decidable statically. Decided here: C01-R1 every identifier the "
    "converter itself binds in a user-visible scope is __ol_-prefixed or itertools/importlib; C01-R2 "
    "for every conversion-time branch on an option the sibling templates contain the same holes with "
    "equal multiplicity and equivalent guards (truth-table comparison), and both expression wrappers "
    "evaluate all nodes once, in order; C01-R3 the same source reaches ast.parse and symtable, the "
    "tree handed to either unparser is the unmodified result of convert, and every supported "
    "statement kind has a dispatch row. Conjuncts evaluated by this check with their own rule ids: the "
    "structural clauses of C02, C05-C07, C09, C11-C14 and C04-R3 (replacement fields of f-strings "
    "printed by the project's unparser, one of the option values C01 quantifies over)."
)
ASSUMPTIONS = ["behavioural equivalence itself is not decided (see the per-feature properties)"]

ALLOWED = {"itertools", "importlib"}
PY_OWN = {"__class__"}


def rule_r1(ctx):
    rr = RuleResult("C01-R1", "names the converter binds in user-visible scopes are __ol_-prefixed or itertools/importlib")
    rr.exhaustive = True
    rr.floor = 20
    seen = set()
    for origin, kind, pr, tmpl in all_templates(ctx):
        if origin.startswith(("Namespace", "wrapper:", "slice:", "get_expr_wrapper")):
            continue
        evs, w = path_events(pr) if pr is not None else events_of(tmpl)
        # binders that hide a name: comprehensions, and lambdas that are not a user scope
        user_scope_lams = set()
        for b in w.binders:
            if b["kind"] == "lambda":
                inside = [e for e in evs if any(x is b for x in e.scope) and e.kind == "S"]
                if inside or any(isinstance(n, UPrim) for n in b["names"]):
                    user_scope_lams.add(id(b))
        for e in evs:
            if e.kind not in ("bind-const", "bind-fresh", "bind-computed", "bind-unknown", "bind-other"):
                continue
            hidden = any(b["kind"] == "comp" or id(b) not in user_scope_lams for b in e.scope)
            if e.role == "comprehension.target":
                hidden = True
            key = (e.site, e.path, e.kind)
            if key not in seen:
                seen.add(key)
                rr.instances += 1
            what = f"{origin}|{e.kind}|{e.path}|{e.site}"
            if e.kind == "bind-fresh":
                fr = e.extra.get("fresh")
                if fr is not None and isinstance(fr.template, str) and fr.template.startswith("__ol_"):
                    rr.ok(what, nontrivial=True)
                else:
                    rr.fail(f"C01-R1|{kind}|{e.path}|fresh-not-reserved", f"{origin} ({e.site}): binds a fresh name from template {getattr(fr, 'template', None)!r} that lacks the reserved prefix", where=e.site, what=what)
                continue
            if e.kind != "bind-const":
                if not hidden:
                    rr.fail(f"C01-R1|{kind}|{e.kind}", f"{origin} ({e.site}): binds a computed name {e.path} in a user-visible scope", where=e.site, what=what)
                continue
            name = e.path
            if hidden or name.startswith("__ol_") or name in ALLOWED or name in PY_OWN:
                rr.ok(what, sample={"rule": "C01-R1", "site": e.site, "name": name, "scope": "hidden" if hidden else "user-visible", "verdict": "allowed"})
            else:
                rr.fail(
                    f"C01-R1|{kind}|{name}|user-visible-binding",
                    f"{origin} ({e.site}): the converted program binds the plain name {name!r} in a user-visible scope (only __ol_* and itertools/importlib may be added): a user variable of that name is clobbered",
                    where=e.site, what=what,
                )
    return rr


# ------------------------------------------------------------------ R2
def _atom(n):
    """Stable atom name of a value whose truthiness is unknown."""
    if isinstance(n, Transf) and isinstance(n.inner, UNode):
        return "X:" + n.inner.short_path()
    if isinstance(n, TNode) and n.kind == "$Wrap":
        evs, _w = events_of(n)
        ss = [e.path for e in evs if e.kind == "S"]
        return "wrap:" + ",".join(ss)
    if isinstance(n, TNode) and n.kind == "$Param":
        return "P:" + n.fields["name"].value
    return f"node:{getattr(n, 'kind', type(n).__name__)}"


def truth(n, env):
    """Truth value of an emitted expression under an assignment of the atoms."""
    if isinstance(n, TNode):
        if n.kind == "Constant":
            v = n.fields.get("value")
            if isinstance(v, Cst):
                return bool(v.value)
        if n.kind == "BoolOp":
            vals = [truth(x, env) for x in n.fields["values"].items]
            return all(vals) if n.fields["op"].kind == "And" else any(vals)
        if n.kind == "UnaryOp" and n.fields["op"].kind == "Not":
            return not truth(n.fields["operand"], env)
        if n.kind == "IfExp":
            return truth(n.fields["body"], env) if truth(n.fields["test"], env) else truth(n.fields["orelse"], env)
        if n.kind in ("List", "Tuple"):
            elts = n.fields.get("elts")
            if elts is not None and getattr(elts, "items", None):
                return True
    return env[_atom(n)]


def atoms_of(n, out):
    if isinstance(n, TNode) and n.kind in ("BoolOp",):
        for x in n.fields["values"].items:
            atoms_of(x, out)
        return
    if isinstance(n, TNode) and n.kind == "UnaryOp":
        return atoms_of(n.fields["operand"], out)
    if isinstance(n, TNode) and n.kind == "IfExp":
        for f in ("test", "body", "orelse"):
            atoms_of(n.fields[f], out)
        return
    if isinstance(n, TNode) and n.kind == "Constant":
        return
    if isinstance(n, TNode) and n.kind in ("List", "Tuple") and getattr(n.fields.get("elts"), "items", None):
        return
    out.add(_atom(n))


def guard_table(ev, atoms):
    """Tuple of booleans: is the event evaluated, for every assignment of the atoms."""
    rows = []
    for vals in itertools.product((False, True), repeat=len(atoms)):
        env = dict(zip(atoms, vals))
        ok = True
        for pol, (_t, _uid, node) in ev.guards:
            try:
                if truth(node, env) != pol:
                    ok = False
                    break
            except KeyError:
                ok = None
                break
        rows.append(ok)
    return tuple(rows)


def _signature(pr):
    """hole -> (count, deferred, mult, guard truth table) of a template."""
    evs, w = path_events(pr)
    holes = [e for e in evs if e.kind in ("X", "S", "raw", "param")]
    atoms = set()
    for e in holes:
        for pol, (_t, _uid, node) in e.guards:
            atoms_of(node, atoms)
    atoms = sorted(atoms)
    sig = {}
    for e in holes:
        key = f"{e.kind}:{e.path}"
        sig.setdefault(key, []).append((e.deferred, tuple(m for m in e.mult if not m.startswith("iterations@")) , guard_table(e, atoms)))
    order = [f"{e.kind}:{e.path}" for e in holes]
    return sig, atoms, order


def _order_conflict(base, other, skip=()):
    """Do two templates evaluate some pair of holes, that can both run in one execution, in opposite
    orders?  (Holes in mutually exclusive branches of one test have no order.)"""
    from .common import exclusive

    def firsts(pr):
        out = {}
        for e in path_events(pr)[0]:
            if e.kind in ("X", "S", "raw", "param"):
                k = f"{e.kind}:{e.path}"
                if k not in skip:
                    out.setdefault(k, e)
        return out

    fb, fo = firsts(base), firsts(other)
    keys = [k for k in fb if k in fo]
    for i, x in enumerate(keys):
        for y in keys[i + 1:]:
            if exclusive(fb[x], fb[y]) and exclusive(fo[x], fo[y]):
                continue
            if (fb[x].pos < fb[y].pos) != (fo[x].pos < fo[y].pos):
                return True
    return False


def _option_keys(pr):
    return [k for k in pr.assign if "configs." in k]


def rule_r2(ctx):
    rr = RuleResult("C01-R2", "option siblings: same holes, same multiplicity, same order, equivalent guards")
    rr.exhaustive = True
    rr.floor = 3
    T = ctx.tmpl
    n_groups = 0
    for ci, kinds, entry in T.all_pending():
        okp = entry.ok_paths()
        if not any("configs." in k for p in okp for k in p.assign):
            continue
        rr.instances += 1
        # siblings: paths that differ in an option decision and agree on every other decision they share
        pairs = []
        for i, a in enumerate(okp):
            for b in okp[i + 1:]:
                oa = {k: v for k, v in a.assign.items() if "configs." in k}
                ob = {k: v for k, v in b.assign.items() if "configs." in k}
                if oa == ob:
                    continue
                if all(b.assign.get(k, v) == v for k, v in a.assign.items() if "configs." not in k):
                    pairs.append((a, b))
        for base, other in pairs:
            if True:
                n_groups += 1
                rest = (id(base), id(other))
                bsig, batoms, border = _signature(base)
                bsig = dict(bsig)
                osig, oatoms, oorder = _signature(other)
                osig = dict(osig)
                label = kinds_label(base.extra["node"].kinds)
                what = f"{label}|siblings|{hash(rest) & 0xffff}"
                diff = None
                # a lowered block that the context says is empty may be absent from a sibling
                empties = set()
                for p_ in (base, other):
                    for k, v in p_.assign.items():
                        if k.startswith("cmp:len(lowered(") and ((k.endswith(">0") and v is False) or (k.endswith("==0") and v is True)):
                            empties.add("S:" + k[len("cmp:len(lowered("):].split(")")[0])
                        if k.startswith("nonempty:list(splice:lowered(") and v is False:
                            empties.add("S:" + k[len("nonempty:list(splice:lowered("):].split(")")[0])
                for e_ in empties:
                    bsig.pop(e_, None)
                    osig.pop(e_, None)
                border = [x for x in border if x not in empties]
                oorder = [x for x in oorder if x not in empties]
                if set(bsig) != set(osig):
                    diff = f"holes differ: {sorted(set(bsig) ^ set(osig))}"
                elif border != oorder and _order_conflict(base, other, empties):
                    diff = f"holes are evaluated in a different order: {border} vs {oorder}"
                else:
                    for k in bsig:
                        b, o = bsig[k], osig[k]
                        if len(b) != len(o):
                            diff = f"{k} occurs {len(b)} vs {len(o)} times"
                        elif batoms == oatoms and [x[2] for x in b] != [x[2] for x in o]:
                            diff = f"{k} is evaluated under different conditions"
                        elif batoms != oatoms:
                            # compare on the union of atoms
                            ua = sorted(set(batoms) | set(oatoms))
                            be = [e for e in path_events(base)[0] if f"{e.kind}:{e.path}" == k]
                            oe = [e for e in path_events(other)[0] if f"{e.kind}:{e.path}" == k]
                            if [guard_table(e, ua) for e in be] != [guard_table(e, ua) for e in oe]:
                                diff = f"{k} is evaluated under different conditions"
                        if [x[0] for x in b] != [x[0] for x in o] or [x[1] for x in b] != [x[1] for x in o]:
                            diff = diff or f"{k} has different multiplicity / laziness"
                if diff:
                    bo = "; ".join(f"{k.split('configs.')[-1]}={v}" for k, v in base.assign.items() if "configs." in k)
                    oo = "; ".join(f"{k.split('configs.')[-1]}={v}" for k, v in other.assign.items() if "configs." in k)
                    rr.fail(
                        f"C01-R2|{label}|option-siblings-differ",
                        f"{ci.name}.get_result: the templates for [{bo}] and [{oo}] are not equivalent: {diff} (e.g. `(test and (body or <falsy>)) or orelse` runs the else branch after the body) [context: {short_ctx(base, 80)}]",
                        what=what,
                    )
                else:
                    rr.ok(what, sample={"rule": "C01-R2", "statement": label, "holes": border[:4], "verdict": "siblings equivalent"})
    rr.note(f"{n_groups} sibling groups compared")
    # both wrappers evaluate every node once, in order, eagerly
    wp = cached(ctx, "expr_wrapper_paths", lambda: expr_wrapper_paths(T))
    by_n = {}
    for pr in wp:
        by_n.setdefault(pr.extra.get("n"), []).append(pr)
    for n, prs in by_n.items():
        rr.instances += 1
        for pr in prs:
            what = f"wrapper|n={n}|{short_ctx(pr, 60)}"
            if pr.outcome == "abort":
                raise AnalysisError(f"C01-R2: get_expr_wrapper cannot be analysed: {pr.raised}")
            if pr.outcome != "ok":
                rr.fail("C01-R2|wrapper|raises", f"the expression wrapper raises for a block of {n} statement(s): {getattr(pr.raised, 'exc', pr.raised)} {getattr(pr.raised, 'msg', '')}", what=what)
                continue
            evs, w = events_of(pr.result)
            params = [e for e in evs if e.kind == "param"]
            names = [e.path for e in params]
            want = {"0": [], "1": ["nodes[0]"], "many": ["nodes[0]", "nodes[1]", "nodes[i]"]}[n]
            nest = [e for e in evs if e.kind == "nest-begin"]
            order_ok = all((e.extra.get("hole_first") and not e.path.startswith("reversed(")) or (not e.extra.get("hole_first") and e.path.startswith("reversed(")) for e in nest)
            if names != want or any(e.deferred or e.guards for e in params) or not order_ok:
                rr.fail(
                    "C01-R2|wrapper|evaluation",
                    f"expression wrapper ({short_ctx(pr, 60)}): the statements of a block must be evaluated once each, left to right, unconditionally; got {names} (deferred/guarded: {[bool(e.deferred or e.guards) for e in params]}, order ok: {order_ok})",
                    what=what,
                )
            else:
                rr.ok(what, sample={"rule": "C01-R2", "wrapper": short_ctx(pr, 60), "n": n, "evaluates": names})
    return rr


# ------------------------------------------------------------------ R3
def rule_r3(ctx):
    rr = RuleResult("C01-R3", "pipeline: one source for parse and symtable, the unparsers receive the unmodified result of convert, every supported kind has a dispatch row")
    rr.floor = 4
    prog = ctx.prog
    fi = prog.func("oneliner", "convert_code_string")
    params = [a.arg for a in fi.node.args.args]
    src = params[0] if params else None
    assigned = {}
    for n in ast.walk(fi.node):
        if isinstance(n, ast.Assign):
            for t in n.targets:
                if isinstance(t, ast.Name):
                    assigned.setdefault(t.id, []).append(n)
        elif isinstance(n, (ast.AugAssign, ast.AnnAssign)) and isinstance(n.target, ast.Name):
            assigned.setdefault(n.target.id, []).append(n)

    def callee(c):
        f = c.func
        return f.attr if isinstance(f, ast.Attribute) else (f.id if isinstance(f, ast.Name) else None)

    calls = [n for n in ast.walk(fi.node) if isinstance(n, ast.Call)]
    parse = [c for c in calls if callee(c) == "parse"]
    symt = [c for c in calls if callee(c) == "symtable"]
    conv = [c for c in calls if callee(c) == "convert"]
    unp = [c for c in calls if callee(c) in ("unparse", "expr_unparse")]
    rr.instances += 4
    what = "pipeline|source"
    if len(parse) != 1 or len(symt) != 1 or src in assigned:
        rr.fail("C01-R3|convert_code_string|source", f"{fi.where()}: the source text must reach exactly one ast.parse and one symtable.symtable call unmodified", where=fi.where(), what=what)
    else:
        a, b = parse[0].args[0], symt[0].args[0]
        mode_ok = all(
            (len(c.args) > 2 and isinstance(c.args[2], ast.Constant) and c.args[2].value == "exec")
            or any(kw.arg in ("mode", "compile_type") and isinstance(kw.value, ast.Constant) and kw.value.value == "exec" for kw in c.keywords)
            for c in (parse[0], symt[0])
        )
        if not (isinstance(a, ast.Name) and isinstance(b, ast.Name) and a.id == b.id == src):
            rr.fail("C01-R3|convert_code_string|source", f"{fi.where()}: ast.parse and symtable.symtable do not receive the same source text ({ast.unparse(a)} vs {ast.unparse(b)})", where=fi.where(), what=what)
        elif not mode_ok:
            rr.fail("C01-R3|convert_code_string|mode", f"{fi.where()}: parse/symtable are not both in 'exec' mode", where=fi.where(), what=what)
        else:
            rr.ok(what, sample={"rule": "C01-R3", "parse": ast.unparse(parse[0])[:50], "symtable": ast.unparse(symt[0])[:60]})
    what = "pipeline|convert"
    if len(conv) != 1:
        rr.fail("C01-R3|convert_code_string|convert-call", f"{fi.where()}: expected exactly one call of convert()", where=fi.where(), what=what)
    else:
        c = conv[0]
        ok = len(c.args) >= 3 and all(isinstance(x, ast.Name) for x in c.args[:3])
        if ok:
            a0, a1 = c.args[0].id, c.args[1].id
            ok = (
                len(assigned.get(a0, [])) == 1 and assigned[a0][0].value is parse[0]
                and len(assigned.get(a1, [])) == 1 and assigned[a1][0].value is symt[0]
            ) if parse and symt else False
        if not ok:
            rr.fail("C01-R3|convert_code_string|convert-args", f"{fi.where()}: convert() does not receive the parsed tree and the symbol table of the source", where=fi.where(), what=what)
        else:
            rr.ok(what)
    what = "pipeline|unparse"
    if not unp or len(conv) != 1:
        rr.fail("C01-R3|convert_code_string|unparse", f"{fi.where()}: no unparser call found", where=fi.where(), what=what)
    else:
        outs = [k for k, v in assigned.items() if any(s.value is conv[0] for s in v if isinstance(s, ast.Assign))]
        bad = None
        for u in unp:
            if not (u.args and isinstance(u.args[0], ast.Name) and u.args[0].id in outs and len(assigned[u.args[0].id]) == 1):
                bad = u
        if bad is not None or not outs:
            rr.fail("C01-R3|convert_code_string|unparse-arg", f"{fi.where()}: an unparser does not receive the unmodified result of convert() ({ast.unparse(bad) if bad is not None else ''})", where=fi.where(), what=what)
        else:
            rr.ok(what, sample={"rule": "C01-R3", "unparsers": [ast.unparse(u)[:40] for u in unp]})
    # dispatch rows for the supported fragment
    from ..reference.unsupported import SUPPORTED_STMTS

    what = "pipeline|dispatch-rows"
    have = {k.__name__ for k in ctx.tmpl.table}
    missing = [k for k in SUPPORTED_STMTS if k not in have]
    if missing:
        rr.fail("C01-R3|dispatch|missing-row", f"the dispatch table has no row for the supported statement kinds {missing}", what=what)
    else:
        rr.ok(what)
    return rr


def _conjuncts():
    """C01 is the conjunction of the per-feature properties: their structural clauses are
    necessary conditions of C01 as well, so the C01 check evaluates them too (same rule ids and
    finding keys as in the check of the property they belong to)."""
    import importlib

    out = []
    for mod, ids in (
        ("c02", ("C02-R1", "C02-R2", "C02-R3")),
        ("c04", ("C04-R3",)),  # unparser="oneliner" is one of the options C01 quantifies over: replacement fields must survive
        ("c05", None), ("c06", None), ("c07", None), ("c09", ("C09-R1", "C09-R2")),
        ("c11", ("C11-R1", "C11-R2", "C11-R4", "C11-R5")), ("c12", ("C12-R1", "C12-R2", "C12-R4", "C12-R5")),
        ("c13", None), ("c14", ("C14-R1", "C14-R2", "C14-R5")),
    ):
        m = importlib.import_module(f"olsa.rules.{mod}")
        for rid, fn in m.RULES:
            if ids is None or rid in ids:
                out.append((rid, fn))
    return out


RULES = [("C01-R1", rule_r1), ("C01-R2", rule_r2), ("C01-R3", rule_r3)] + _conjuncts()
