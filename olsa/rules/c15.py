"""C15 - the output runs on every Python 3.8+ (syntax floor of the custom
unparser, host independence of emission decisions, template floor)."""
from __future__ import annotations

import ast
import re

from ..core import AnalysisError, RuleResult
from ..model import version_test
from ..reference import asdl
from ..semwalk import iter_tnodes
from ..vals import TNode
from .c03 import _check_pairs, render
from .common import all_templates, kinds_label, path_events, short_ctx

EXPLANATION = (
    "Only the part of C15 that is in the shape of the code: C15-R1 the parenthesisation table of "
    "C03-R3 evaluated against the 3.8 column of the grammar (walrus parenthesised in subscripts and "
    "set displays, ...); C15-R2 before 3.12 the expression of a replacement field may contain neither "
    "a backslash nor the quote of an enclosing f-string: the renderer must refuse (raise) on every "
    "path that emits a field, on every host, either by testing the expression's text in the field "
    "renderer or the whole field's text wherever one is embedded; C15-R3 no emission decision in expr_unparse.py / "
    "pending_nodes.py / utils.py / presets is control-dependent on sys.version_info (the output "
    "must be valid for the RUNTIME, about which the host version says nothing); C15-R4 the "
    "templates use only node kinds and fields of the 3.8 abstract grammar; C15-R5 every "
    "sys.version_info comparison is enumerated with its threshold; C15-R6 builtins, keywords and "
    "methods used by emitted code exist on 3.8; C12-R7 zero-argument super() in converter-built "
    "frames; C15-R8 user code moved into comprehension frames (locals()/eval()); C15-R9 a table of "
    "stdlib printers whose syntax follows the HOST version (ast.unparse: PEP 701 quote re-use from "
    "3.12 on): a node kind concerned that the rewriter passes through must not reach such a printer."
)
ASSUMPTIONS = [
    "what ast.unparse of each host emits, and any run-time behaviour on 3.8-3.13, is not decided (no interpreter is run)",
]


def rule_r1(ctx):
    rr = RuleResult("C15-R1", "parenthesisation is sufficient for the Python 3.8 grammar as well")
    rr.exhaustive = True
    rr.floor = 60
    rr = _check_pairs(ctx, rr, "C15-R1", floor38=True)
    # a bare (unparenthesised) index tuple may contain a starred element only from 3.11 on: it may be
    # printed bare only when it is known to contain a slice (then it cannot have been parenthesised
    # in the source, and 3.8-3.10 sources cannot put a star there)
    import re

    from .c03 import _hole_fields

    U = ctx.ustr
    for pr in U.paths("Subscript"):
        if pr.outcome != "ok":
            continue
        if not any(fp == ("slice", "elts") for fp, h in _hole_fields(pr)):
            continue
        rr.instances += 1
        has_slice = any(re.match(r"isinstance:Subscript\.slice.*elts\[\*\d*\]:Slice$", k) and v is True for k, v in pr.assign.items())
        what = f"Subscript|bare-index-tuple|{'slice' if has_slice else 'any'}"
        if has_slice:
            rr.ok(what)
        else:
            rr.fail(
                "C15-R1|Subscript.slice|bare-index-tuple|may-contain-starred",
                f"{U.gen_map['Subscript'].where()}: an index tuple is printed without parentheses although it is not known to contain a slice: `grid[(*pos, 1)]` becomes `grid[*pos,1]`, a syntax error before Python 3.11",
                where=U.gen_map["Subscript"].where(), what=what,
            )
    return rr


def _field_tests(ctx, needle, want_field_level=False):
    """Where the renderers test the text of a replacement field for `needle` before emitting it.
    Returns (where, tested paths, paths that emit although the needle is present, paths that emit a
    field without having made the test).  Two placements are sufficient for the pre-3.12 rule "the
    EXPRESSION of a replacement field contains neither a backslash nor the quote of the f-string":
      value - the field renderer tests the text of its own expression (FormattedValue.value);
      field - every place that embeds the text of a whole field tests that text (a superset: it also
              refuses format specs, where both are legal - see C04-R7)."""
    U = ctx.ustr
    pf = U.paths("FormattedValue")
    pj = U.paths("JoinedStr")

    def has(p, subject):
        return [k for k in p.assign if k.startswith("contains:") and re.search(subject, k) and needle in k.split("):", 1)[-1]]

    if want_field_level:
        # is the text of a WHOLE field (format spec included) refused anywhere?
        spec_sub = r"text\(FormattedValue\.format_spec.*values\[\*\]\)"
        out = []
        for p in pj:
            out += [p for k in has(p, r"text\(JoinedStr\.values\[\*\]\)") if p.assign[k] is True and p.outcome == "raise"]
        for p in pf:
            out += [p for k in has(p, spec_sub) if p.assign[k] is True and p.outcome == "raise"]
        return out
    # placement "value"
    t = [p for p in pf if has(p, r"text\(FormattedValue\.value\)")]
    if t:
        accepted = [p for p in t if p.outcome != "raise" and any(p.assign[k] is True for k in has(p, r"text\(FormattedValue\.value\)"))]
        untested = [p for p in pf if p.outcome == "ok" and not has(p, r"text\(FormattedValue\.value\)")]
        return "value", t, accepted, untested
    # placement "field": the f-string renderer, and the format spec rendered by the field renderer
    tj = [p for p in pj if has(p, r"text\(JoinedStr\.values\[\*\]\)")]
    if not tj:
        return None, [], [], []
    accepted = [p for p in tj if p.outcome != "raise" and any(p.assign[k] is True for k in has(p, r"text\(JoinedStr\.values\[\*\]\)"))]
    untested = [p for p in pj if p.outcome == "ok" and any(k.endswith(":FormattedValue") and v is True for k, v in p.assign.items()) and not has(p, r"text\(JoinedStr\.values\[\*\]\)")]
    spec_sub = r"text\(FormattedValue\.format_spec.*values\[\*\]\)"
    for p in pf:
        nested = any(re.match(r"isinstance:FormattedValue\.format_spec.*:FormattedValue$", k) and v is True for k, v in p.assign.items())
        if not nested:
            continue
        if not has(p, spec_sub):
            if p.outcome == "ok":
                untested.append(p)
        elif p.outcome != "raise" and any(p.assign[k] is True for k in has(p, spec_sub)):
            accepted.append(p)
    return "field", tj, accepted, untested


def rule_r2(ctx):
    rr = RuleResult("C15-R2", "the expression of a replacement field that contains a backslash or the quote of the f-string is refused, on every host")
    rr.floor = 1
    U = ctx.ustr
    rr.instances += 1
    what = "JoinedStr|backslash"
    where, tests, bad, untested = _field_tests(ctx, "\\\\")
    skipped = [p for p in untested if any(k.startswith("host:") for k in p.assign)]
    if where is None:
        rr.fail("C15-R2|JoinedStr|backslash-not-tested", f"{U.gen_map['JoinedStr'].where()}: the f-string renderer never tests for a backslash: on Python < 3.12 a backslash inside a replacement field is a syntax error", what=what)
    elif bad:
        rr.fail("C15-R2|JoinedStr|backslash-accepted", f"{U.gen_map['JoinedStr'].where()}: a field text containing a backslash is emitted [{short_ctx(bad[0], 100)}]", what=what)
    elif skipped:
        rr.fail(
            "C15-R2|JoinedStr|backslash-test-host-dependent",
            f"{U.gen_map['JoinedStr'].where()}: the backslash test is skipped on some hosts [{short_ctx(skipped[0], 100)}]: a 3.12+ host emits `f'{{x[\"\\xe9\"]}}'`, which Python 3.8-3.11 cannot lex",
            where=U.gen_map["JoinedStr"].where(), what=what,
        )
    elif untested:
        rr.fail("C15-R2|JoinedStr|backslash-test-skipped", f"{U.gen_map['FormattedValue'].where()}: a replacement field is emitted on a path that never tests its expression for a backslash [{short_ctx(untested[0], 100)}]", what=what)
    else:
        rr.ok(what, sample={"rule": "C15-R2", "tested": where, "verdict": "raise when the expression of a replacement field contains a backslash, on every host"})
    # the quote of the f-string itself cannot occur in a field either (it could only be escaped with
    # a backslash): a string constant inside the field that contains it - `f"""{d["it's"]}"""` - is
    # written with the other quote and would carry the outer one raw
    rr.instances += 1
    what = "JoinedStr|outer-quote"
    where, qtests, accepted, untested = _field_tests(ctx, "<qm>")
    if where is None:
        rr.fail(
            "C15-R2|JoinedStr|outer-quote-not-tested",
            f"{U.gen_map['JoinedStr'].where()}: the f-string renderer never tests whether a replacement field contains the quotation mark of the f-string: `f\"\"\"{{d[\"it's\"]}}\"\"\"` becomes `f'{{d[\"it's\"]}}'`, which Python 3.8-3.11 cannot lex (unterminated string)",
            where=U.gen_map["JoinedStr"].where(), what=what,
        )
    elif accepted:
        rr.fail("C15-R2|JoinedStr|outer-quote-accepted", f"{U.gen_map['JoinedStr'].where()}: a field text containing the quotation mark of the f-string is emitted [{short_ctx(accepted[0], 100)}]", what=what)
    elif untested:
        rr.fail("C15-R2|JoinedStr|outer-quote-test-skipped", f"{U.gen_map['FormattedValue'].where()}: a replacement field is emitted on a path that never tests its expression for the quotation mark of the f-string [{short_ctx(untested[0], 100)}]", what=what)
    else:
        rr.ok(what, sample={"rule": "C15-R2", "tested": where, "verdict": "raise when the expression of a replacement field contains the quote of the f-string"})
    # quotes of nested literals (shared with C04-R4)
    from .c04 import rule_r4 as c04r4

    src = c04r4(ctx)
    rr.instances += src.instances
    for f in src.findings:
        if f.key.endswith(("refused-in-field", "-refused")):
            continue  # a refusal is never invalid text: a matter of C04 (literals), not of the syntax floor
        rr.fail(f.key.replace("C04-R4", "C15-R2"), f.msg, where=f.where)
    for w in src.nontrivial:
        rr.ok("quotes|" + str(w))
    return rr


EMISSION_MODULES = ("oneliner.expr_unparse", "oneliner.pending_nodes", "oneliner.utils", "oneliner.presets", "oneliner.reserved_identifiers", "oneliner.convert", "oneliner.expr_transform")


def _version_tests(prog):
    out = []
    for mi in prog.modules.values():
        for n in ast.walk(mi.tree):
            tests = []
            if isinstance(n, (ast.If, ast.IfExp, ast.While, ast.Assert)):
                tests.append(n.test)
            for t in tests:
                for sub in ast.walk(t):
                    vt = version_test(prog, mi, sub) if isinstance(sub, ast.Compare) else None
                    if vt is not None:
                        out.append((mi, n, sub, vt))
    return out


def rule_r3(ctx):
    rr = RuleResult("C15-R3", "no emission decision depends on the host's sys.version_info")
    rr.floor = 1
    prog = ctx.prog
    vts = _version_tests(prog)
    n_emission_funcs = 0
    for mi in prog.modules.values():
        if mi.name.startswith(EMISSION_MODULES):
            n_emission_funcs += len(mi.functions) + sum(len(c.methods) for c in mi.classes.values())
    rr.instances += 1
    found = False
    for mi, stmt, cmp_node, (op, tup) in vts:
        if not mi.name.startswith(EMISSION_MODULES):
            continue
        found = True
        rr.instances += 1
        fn = None
        for f in ast.walk(mi.tree):
            if isinstance(f, ast.FunctionDef) and any(x is stmt for x in ast.walk(f)):
                fn = f
        rr.fail(
            f"C15-R3|{mi.name.split('.')[-1]}|{fn.name if fn else '<module>'}|host-version-test",
            f"{mi.rel}:{stmt.lineno} ({fn.name if fn else '<module>'}): `{ast.unparse(cmp_node)}` makes what is EMITTED depend on the interpreter that runs the converter; the output must be valid for the runtime (3.8+), whatever the host",
            where=f"{mi.rel}:{stmt.lineno}", what=f"host-test|{mi.rel}|{stmt.lineno}",
        )
    # engine T / Ustr: no context decision on the host in emission entries
    for origin, kind, pr, tmpl in all_templates(ctx):
        if pr is None or origin.startswith("Namespace"):
            continue
        hs = [k for k in pr.assign if k.startswith("host:")]
        if hs:
            found = True
            rr.fail(f"C15-R3|{origin.split('.')[0]}|host-context", f"{origin}: the emitted template depends on the host version ({hs[0]})", what=f"T|{origin}")
    if not found:
        rr.ok("no host-dependent emission", sample={"rule": "C15-R3", "emission_functions_scanned": n_emission_funcs, "host_tests_in_emission_code": 0})
    else:
        rr.ok("scan", nontrivial=False)
    return rr


def rule_r4(ctx):
    rr = RuleResult("C15-R4", "templates use only node kinds and fields of the Python 3.8 abstract grammar")
    rr.exhaustive = True
    rr.floor = 100
    seen = set()
    for origin, kind, pr, tmpl in all_templates(ctx):
        for t in iter_tnodes(tmpl):
            if t.kind.startswith("$"):
                continue
            key = (t.kind, t.site)
            if key in seen:
                continue
            seen.add(key)
            rr.instances += 1
            what = f"{t.kind}|{t.site}"
            if t.kind not in asdl.ASDL_38:
                rr.fail(f"C15-R4|{t.kind}|not-in-3.8", f"{origin} ({t.site}): emits ast.{t.kind}, which does not exist in the Python 3.8 grammar", where=t.site, what=what)
                continue
            extra = [f for f in t.fields if f not in asdl.ASDL_38[t.kind]]
            if extra:
                rr.fail(f"C15-R4|{t.kind}|field-not-in-3.8", f"{origin} ({t.site}): ast.{t.kind} is built with fields {extra} unknown to Python 3.8", where=t.site, what=what)
            else:
                rr.ok(what)
    return rr


def rule_r5(ctx):
    rr = RuleResult("C15-R5", "enumeration of every sys.version_info comparison and its threshold")
    rr.floor = 1
    prog = ctx.prog
    vts = _version_tests(prog)
    for mi, stmt, cmp_node, (op, tup) in vts:
        rr.instances += 1
        what = f"{mi.rel}:{stmt.lineno}"
        if tup is None or op == "?":
            rr.fail(f"C15-R5|{mi.name.split('.')[-1]}|unrecognised-version-test", f"{mi.rel}:{stmt.lineno}: `{ast.unparse(cmp_node)}` is not a comparison with a constant version tuple", what=what)
        else:
            rr.ok(what, sample={"rule": "C15-R5", "site": what, "test": ast.unparse(cmp_node), "threshold": list(tup)})
    if not vts:
        rr.instances += 1
        rr.ok("no version tests")
    from .c06 import rule_r6

    src = rule_r6(ctx)
    for f in src.findings:
        rr.fail(f.key.replace("C06-R6", "C15-R5"), f.msg, where=f.where)
    return rr


# run-time API the generated code may rely on: what Python 3.8 does NOT have (library reference,
# "New in version" / "Changed in version" notes of builtins, str/bytes/int methods, itertools, importlib)
NEW_BUILTINS = {
    "aiter": "3.10", "anext": "3.10", "EncodingWarning": "3.10", "BaseExceptionGroup": "3.11",
    "ExceptionGroup": "3.11", "PythonFinalizationError": "3.13",
}
NEW_KEYWORDS = {
    ("zip", "strict"): "3.10", ("int", "base"): None, ("sum", "start"): None, ("pow", "mod"): None,
    ("print", "flush"): None, ("open", "encoding"): None, ("compile", "_feature_version"): None,
    ("round", "ndigits"): None, ("bisect", "key"): "3.10", ("dataclass", "slots"): "3.10",
    ("map", "strict"): "3.14", ("reversed", "strict"): None,
}
NEW_METHODS = {
    "removeprefix": "3.9", "removesuffix": "3.9", "bit_count": "3.10", "is_integer": None,
    "pairwise": "3.10", "batched": "3.12", "lcm": "3.9", "isqrt": None, "nextafter": "3.9", "ulp": "3.9",
    "cache": "3.9", "topological_sort": "3.9", "packages_distributions": "3.10", "__class_getitem__": None,
    "add_note": "3.11", "__notes__": "3.11", "exceptions": "3.11", "isascii": None, "readline": None,
}


def rule_r6(ctx):
    """The generated text calls into the run-time library: every builtin, keyword argument and
    method it uses must exist on Python 3.8 (the oldest runtime of the property)."""
    from ..semwalk import iter_tnodes
    from ..vals import Cst, PList, Rep
    from .common import all_templates

    rr = RuleResult("C15-R6", "run-time API used by the emitted code exists on Python 3.8 (builtins, keyword arguments, methods)")
    rr.floor = 20
    seen = set()
    n_calls = 0

    def const_str(v):
        return v.value if isinstance(v, Cst) and isinstance(v.value, str) else None

    for origin, kind, pr, tmpl in all_templates(ctx):
        for t in iter_tnodes(tmpl):
            if t.kind == "Name":
                nm = const_str(t.fields.get("id"))
                if nm in NEW_BUILTINS and (origin, nm) not in seen:
                    seen.add((origin, nm))
                    rr.instances += 1
                    rr.fail(f"C15-R6|{nm}|builtin", f"{origin} ({t.site}): the generated code uses the builtin `{nm}`, new in Python {NEW_BUILTINS[nm]}: NameError on older runtimes", where=t.site, what=f"builtin|{nm}|{origin}")
            elif t.kind == "Attribute":
                nm = const_str(t.fields.get("attr"))
                if nm in NEW_METHODS and NEW_METHODS[nm] and (origin, nm) not in seen:
                    seen.add((origin, nm))
                    rr.instances += 1
                    rr.fail(f"C15-R6|{nm}|attribute", f"{origin} ({t.site}): the generated code uses `.{nm}`, new in Python {NEW_METHODS[nm]}: AttributeError on older runtimes", where=t.site, what=f"attr|{nm}|{origin}")
            elif t.kind == "Call":
                n_calls += 1
                f = t.fields.get("func")
                fname = const_str(f.fields.get("id")) if getattr(f, "kind", None) == "Name" else (const_str(f.fields.get("attr")) if getattr(f, "kind", None) == "Attribute" else None)
                kws = t.fields.get("keywords")
                items = []
                if isinstance(kws, PList):
                    for k in kws.items:
                        items += k.items if isinstance(k, Rep) else [k]
                for k in items:
                    arg = const_str(k.fields.get("arg")) if getattr(k, "kind", None) == "keyword" else None
                    if fname and arg:
                        rr.instances += 1
                        ver = NEW_KEYWORDS.get((fname, arg))
                        what = f"kw|{fname}|{arg}|{origin}"
                        if ver and (origin, fname, arg) not in seen:
                            seen.add((origin, fname, arg))
                            rr.fail(f"C15-R6|{fname}|{arg}|keyword", f"{origin} ({t.site}): the generated code calls `{fname}(..., {arg}=...)`; the keyword `{arg}` is new in Python {ver}: TypeError on older runtimes (every destructuring assignment fails on 3.8 and 3.9)", where=t.site, what=what)
                        elif (fname, arg) in NEW_KEYWORDS:
                            rr.ok(what)
                        else:
                            rr.note(f"keyword {fname}({arg}=) in {origin}: not in the table of post-3.8 keywords")
                            rr.ok(what, nontrivial=False)
    rr.instances += n_calls
    rr.ok("calls", sample={"rule": "C15-R6", "calls_examined": n_calls, "verdict": "no builtin/keyword/method newer than 3.8"})
    return rr


def rule_r7(ctx):
    """Before Python 3.12 a comprehension is a function of its own; what the converter moves into
    the element of a comprehension runs in a new frame there (shared rule C12-R7: zero-argument
    super())."""
    from .c12 import rule_r7 as r

    return r(ctx)


def rule_r8(ctx):
    """Frame introspection: `locals()`, `vars()`, `dir()`, `eval()`, `exec()` look at the frame they are
    called in.  A loop body is lowered to the element of a comprehension, which before Python 3.12 is
    a frame of its own (and on 3.13 `locals()` in an inlined comprehension at module level is not
    `globals()`): the same text behaves differently across the supported versions, and nothing the
    converter can emit restores the original frame."""
    rr = RuleResult("C15-R8", "no user code is moved into a comprehension frame (locals()/vars()/dir()/eval()/exec() would see it before 3.12)")
    rr.floor = 2
    T = ctx.tmpl
    seen = set()
    for ci, kinds, entry in T.all_pending():
        for pr in entry.ok_paths():
            kind = kinds_label(pr.extra["node"].kinds)
            evs, w = path_events(pr)
            for e in evs:
                if e.kind in ("X", "S", "raw") and e.comp_elt:
                    hole = re.sub(r":[A-Za-z|]+", "", e.path or "")
                    if (kind, hole) in seen:
                        continue
                    seen.add((kind, hole))
                    rr.instances += 1
                    rr.fail(
                        f"C15-R8|{kind}|{hole}|frame-introspection",
                        f"{ci.name}: {hole} runs inside the element of a converter-built comprehension: `for i in r: print('{{a}} {{i}}'.format(**locals()))` / `eval('a + b')` in a function work on a 3.12 runtime and raise KeyError / NameError on 3.8-3.11 (the comprehension is a frame of its own there)",
                        what=f"{kind}|{hole}",
                    )
    if not seen:
        rr.instances += 2
        rr.ok("templates")
    return rr


# Printers of the standard library whose output SYNTAX follows the version of the interpreter that
# runs them, with the node kinds concerned (read off Lib/ast.py of 3.8-3.13; confirmed with the
# interpreters of the sandbox, hunted/H6/bug5.py).
HOST_PRINTERS = {
    "ast.unparse": {
        "JoinedStr": "from 3.12 on ast.unparse writes a string literal inside a replacement field with the quote of the "
                     "enclosing f-string (PEP 701): `print(f\"{d['a']}\")` is emitted as `print(f'{d['a']}')`, a SyntaxError on 3.8-3.11; "
                     "on the same hosts the literal text of a FORMAT SPEC is written raw (a carriage return, NUL, lone surrogate or the quote: "
                     "`f'{x:\\r>3}'` gives text with a real CR - not one line, does not compile)",
        "Subscript": "from 3.11 on ast.unparse prints every non-empty index tuple without its parentheses, also one that contains a "
                     "starred element (PEP 646): `a[(*b, 1)]` is emitted as `a[*b, 1]`, a SyntaxError on 3.8-3.10",
    },
}


def rule_r9(ctx):
    """The text returned on each option path: when it is printed by a routine of the HOST's standard
    library whose syntax follows the host version, a node kind concerned must not reach it."""
    from .exprcopy import all_expr_paths

    rr = RuleResult("C15-R9", "no version-sensitive node kind is printed by a printer whose syntax follows the host's version")
    rr.floor = 1
    prog = ctx.prog
    fi = prog.func("oneliner", "convert_code_string")
    rets = [n for n in ast.walk(fi.node) if isinstance(n, ast.Return) and n.value is not None]
    if not rets:
        raise AnalysisError("C15-R9: convert_code_string has no return")
    calls = []
    for r in rets:
        for c in ast.walk(r.value):
            if isinstance(c, ast.Call):
                calls.append(c)
        # follow local names once (text = printer(tree); return text...)
        for nm in [x.id for x in ast.walk(r.value) if isinstance(x, ast.Name)]:
            for a in ast.walk(fi.node):
                if isinstance(a, ast.Assign) and any(isinstance(t, ast.Name) and t.id == nm for t in a.targets):
                    calls += [c for c in ast.walk(a.value) if isinstance(c, ast.Call)]
    from ..model import ExtRef

    resolved = {id(c): t for c, t in ctx.cg.call_sites.get(fi.fq, [])}
    printers = []
    for c in calls:
        t = resolved.get(id(c))
        if isinstance(t, ExtRef) and t.dotted in HOST_PRINTERS:
            printers.append((c, t.dotted))
    rr.instances += len(rets)
    if not printers:
        rr.ok("returns", sample={"rule": "C15-R9", "returns": len(rets), "verdict": "no host-versioned printer produces the returned text"})
        return rr
    paths = all_expr_paths(ctx)
    for c, dotted in printers:
        for kind, why in HOST_PRINTERS[dotted].items():
            rr.instances += 1
            what = f"{dotted}|{kind}"
            if any(p.outcome == "ok" for p in paths.get(kind, [])):
                rr.fail(
                    f"C15-R9|convert_code_string|{dotted}|{kind}|host-syntax",
                    f"{fi.where()} line {c.lineno}: the returned text is printed by the host's `{dotted}` and ast.{kind} nodes of the script reach it unchanged: {why}. The result of the conversion depends on the version of the converting host (3.10/3.11 hosts produce working text)",
                    where=fi.where(), what=what,
                )
            else:
                rr.ok(what, sample={"rule": "C15-R9", "printer": dotted, "kind": kind, "verdict": "the kind never reaches the printer"})
    return rr


def rule_c06r11(ctx):
    """Hosts before 3.12 give comprehensions symbol tables of their own; how generate_nsp treats them
    (shared rule C06-R11) decides whether such a host converts what a 3.12 host converts."""
    from .c06 import rule_r11 as r

    return r(ctx)


def rule_c12r5(ctx):
    """Wrapping a method that the user already wrapped gives classmethod(classmethod(f)) /
    staticmethod(staticmethod(f)): what that does depends on the runtime (wrapper objects are callable
    from 3.10 on, chained classmethods exist in 3.9-3.12 only) - shared rule C12-R5."""
    from .c12 import rule_r5 as r

    return r(ctx)


RULES = [("C12-R5", rule_c12r5), ("C15-R1", rule_r1), ("C15-R2", rule_r2), ("C15-R3", rule_r3), ("C15-R4", rule_r4), ("C15-R5", rule_r5), ("C15-R6", rule_r6), ("C12-R7", rule_r7), ("C15-R8", rule_r8), ("C15-R9", rule_r9), ("C06-R11", rule_c06r11)]
