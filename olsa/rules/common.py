"""Helpers shared by the rule modules."""
from __future__ import annotations

import re

from ..core import RuleResult
from ..semwalk import Ev, events_of, upath


def short_ctx(pr, limit=160):
    s = pr.ctx().replace("<class oneliner.namespaces:", "").replace("<class oneliner.pending_nodes:", "").replace(">", "")
    return s if len(s) <= limit else s[:limit] + "..."


def nsp_of(pr):
    return pr.extra.get("nsp_cls", "?")


def norm_path(p: str) -> str:
    return re.sub(r"\[\*\d*\]", "[*]", p)


def kinds_label(kinds):
    return "|".join(sorted(kinds))


def exclusive(a: Ev, b: Ev) -> bool:
    """Two events lie in mutually exclusive branches (same test, opposite polarity)."""
    ga = {(g[1][1]): g[0] for g in a.guards}
    for pol, (_t, uid, _n) in b.guards:
        if uid in ga and ga[uid] != pol:
            return True
    return False


def path_events(pr):
    """(events, walker) of the result template of an ok path (cached on the path)."""
    if "events" not in pr.extra:
        pr.extra["events"] = events_of(pr.result)
    return pr.extra["events"]


def where_of(ev: Ev):
    return ev.site or ""
