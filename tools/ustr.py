import sys
from olsa.model import get_program
from olsa.ustr import analyse_unparser, hole_field
from olsa.tmpl import show
p=get_program(); U=analyse_unparser(p)
print('driver cmp', U.driver_cmp, 'gen_map', U.gen_map_where, len(U.gen_map))
if len(sys.argv)>1 and sys.argv[1]=='prec':
    print(U.node_precedences()); sys.exit()
kinds=sys.argv[1:] or list(U.gen_map)
for k in kinds:
    try: ps=U.paths(k)
    except Exception as e:
        print('####',k,'ERROR',e); continue
    print('####',k,len(ps))
    for pr in ps[:int(1e9) if len(sys.argv)>1 else 2]:
        print('  ',pr.outcome, pr.ctx()[:200])
        for h in pr.holes: print('      hole', hole_field(h), show(h.prec), getattr(h,'rep',None))
        print('      =>', show(pr.result)[:300] if pr.outcome=='ok' else (pr.raised, pr.events[:2]))
