"""C05 - break/continue/return/else: the conversion-time counter / run-time flag
protocol (decided), and structural validation of the guard-insertion function."""
from __future__ import annotations

import ast

from ..core import AnalysisError, RuleResult
from ..interp import Interp, PathResult, run_protected
from ..interp_base import Decisions, Frame, enumerate_paths
from ..semwalk import events_of, iter_tnodes
from ..vals import (
    Cst, Fresh, Func, Lowered, Obj, PList, Rep, Splice, SVal, TNode, Transf, UNode, UPrim, Unknown,
)
from .common import cached, kinds_label, norm_path, path_events, preset_templates, short_ctx

EXPLANATION = (
    "Protocol rules between conversion-time counters and run-time flags, decided on the effects and "
    "templates extracted by engine T: C05-R1 a counter of owner o is incremented iff the lowered "
    "break/continue/return sets / is registered for o's flag (return: for every loop of the stack); "
    "C05-R2 every flag that is tested is initialised to False at the prescribed place and set to "
    "True by every registered body under the same context condition; C05-R3 polarity and "
    "short-circuit order of guards, loop test, else clause and the iterator wrapper's __next__; "
    "C05-R4 each block is lowered under the (counter, flag) pair of the owner Python prescribes, "
    "the loop stack is popped between body and else; C05-R5 iteration accounting; C05-IB structural "
    "validation of _iter_branch on a generic three-statement block (order, nesting, polarity), a "
    "pruning oracle on [compound-or-simple statement, statement] (a statement is dropped only after "
    "one that cannot complete normally) and the strict, refreshed counter comparison; C05-R4 also "
    "requires the counter getter to read the volatile counter when polled (no captured snapshot)."
    ' C05-R6: lowered expressions are placed, never inspected. C05-R7: the rewritten test of a while loop ends up where its TRUTH is asked (predicate of takewhile/filter, comprehension if, and/or/not, conditional expression), not where a value is compared or passed on.'
)
ASSUMPTIONS = [
    "the guard-insertion algorithm is validated structurally only, not proved for every nesting",
    "child statements leave the loop stack balanced (each loop pushes in its constructor and pops after its body)",
]


def _owner(t):
    return getattr(t, "owner", None)


def _sets_flag(body_items, owner_tag):
    """Kinds of flags set to True in a lowered interrupt body: list of (owner tag, attr, form)."""
    out = []
    stack = list(body_items)
    while stack:
        i = stack.pop(0)
        if isinstance(i, Rep):
            for x in i.items:
                stack.append(x)
            continue
        if not isinstance(i, TNode):
            continue
        if i.kind == "NamedExpr":
            tgt = i.fields.get("target")
            val = i.fields.get("value")
            if isinstance(val, TNode) and val.kind == "Constant" and isinstance(val.fields.get("value"), Cst) and val.fields["value"].value is True and _owner(tgt):
                out.append((_owner(tgt)[0], _owner(tgt)[1], "walrus"))
        elif i.kind == "Call":
            f = i.fields.get("func")
            if isinstance(f, TNode) and f.kind == "Name" and isinstance(f.fields.get("id"), Cst) and f.fields["id"].value == "setattr":
                a = i.fields["args"].items
                if len(a) == 3 and _owner(a[0]) and isinstance(a[1], TNode) and isinstance(a[1].fields.get("value"), Cst) and isinstance(a[2], TNode) and isinstance(a[2].fields.get("value"), Cst) and a[2].fields["value"].value is True:
                    out.append((_owner(a[0])[0], _owner(a[0])[1], "setattr:" + str(a[1].fields["value"].value)))
    return out


def _emitted_list(pr):
    """The python list object emitted as List(elts=...) by an interrupt statement."""
    res = pr.result
    items = res.items if isinstance(res, PList) else []
    if len(items) == 1 and isinstance(items[0], TNode) and items[0].kind == "List" and isinstance(items[0].fields.get("elts"), PList):
        return items[0].fields["elts"]
    return None


def rule_r1(ctx):
    rr = RuleResult("C05-R1", "counter incremented for owner o iff the lowered interrupt sets / is registered for o's flag")
    rr.floor = 3
    T = ctx.tmpl
    spec = {
        "Break": {"break_cnt", "interrupt_cnt"},
        "Continue": {"interrupt_cnt"},
        "Return": {"break_cnt", "interrupt_cnt"},
    }
    for kind, loop_counters in spec.items():
        entry = T.pending_by_kind(kind)
        for pr in entry.ok_paths():
            rr.instances += 1
            what = f"{kind}|{short_ctx(pr, 110)}"
            incs = {}
            for e in pr.effects:
                if e["kind"] == "inc":
                    incs.setdefault(e["obj"], set()).add(e["attr"])
                    if e["phase"] != 0:
                        rr.fail(f"C05-R1|{kind}|counter-late", f"Pending{kind}: counter {e['target']} is incremented outside the constructor: guards built before it see a stale counter", what=what)
            regs = {}
            for e in pr.effects:
                if e["kind"] == "append" and e.get("attr") in ("interrupt_node_bodies", "return_node_bodies"):
                    regs.setdefault(e["obj"], []).append(e)
            emitted = _emitted_list(pr)
            bad = None
            if emitted is None:
                bad = ("shape", "the statement is not lowered to one List display")
            loop_tag = "self.nsp.loop_stack[-1]" if kind != "Return" else "self.nsp.loop_stack[*]"
            loop_inc = incs.get(loop_tag, set())
            if kind == "Return":
                # no enclosing loop is a legal context: the Rep over the stack is then empty
                if incs.get("self.nsp", set()) != {"return_cnt"}:
                    bad = bad or ("return-counter", f"return_cnt of the function is not incremented exactly once (incremented: {sorted(incs.get('self.nsp', set()))})")
                rep_ok = all(e.get("rep") == ["self.nsp.loop_stack"] for e in pr.effects if e.get("obj") == loop_tag)
                if not rep_ok:
                    bad = bad or ("not-every-loop", "the updates for the enclosing loops do not iterate over the whole loop stack")
            other = {o: a for o, a in incs.items() if o not in (loop_tag, "self.nsp")}
            if other:
                bad = bad or ("foreign-counter", f"counters of unexpected objects are incremented: {other}")
            if loop_inc != loop_counters:
                bad = bad or ("loop-counters", f"counters incremented on the owning loop are {sorted(loop_inc)}, expected {sorted(loop_counters)}")
            # registration <=> interrupt_cnt
            reg_loop = regs.get(loop_tag, [])
            if ("interrupt_cnt" in loop_inc) != bool(reg_loop):
                bad = bad or ("registration", "interrupt_cnt is incremented without registering the lowered body for the loop's interrupt-flag injection (or vice versa)")
            for e in reg_loop + regs.get("self.nsp", []):
                if emitted is not None and e["value"] is not emitted:
                    bad = bad or ("registered-other-list", "the list registered for flag injection is not the list emitted in the output")
            if kind == "Return" and not regs.get("self.nsp"):
                bad = bad or ("registration-function", "the lowered return is not registered in return_node_bodies of the function")
            # break flag <=> break_cnt
            if emitted is not None:
                flags = _sets_flag(emitted.items, loop_tag)
                loop_flags = [f for f in flags if f[0] == loop_tag]
                sets_break = any(f[1] in ("flow_ctrl_break_expr", "flow_ctrl_wrapped_iter_expr") or "break" in f[2] for f in loop_flags)
                if ("break_cnt" in loop_inc) != sets_break:
                    bad = bad or ("break-flag", f"break_cnt incremented={'break_cnt' in loop_inc} but the lowered body sets the loop's break flag={sets_break}")
                foreign = [f for f in flags if f[0] not in (loop_tag,)]
                if foreign:
                    bad = bad or ("foreign-flag", f"the lowered body sets the flag of another object: {foreign}")
                if kind == "Return" and loop_flags:
                    # must be inside the Rep over the loop stack
                    if not any(isinstance(i, Rep) and i.over == "self.nsp.loop_stack" for i in emitted.items):
                        bad = bad or ("not-every-loop", "the break flags are not set for every loop of the stack")
            if bad:
                rr.fail(f"C05-R1|{kind}|{bad[0]}", f"Pending{kind}: {bad[1]} [context: {short_ctx(pr, 100)}]", what=what)
            else:
                rr.ok(what, sample={"rule": "C05-R1", "statement": kind, "context": short_ctx(pr, 70), "incremented": {k: sorted(v) for k, v in incs.items()}, "registered_for": sorted(regs)})
    return rr


def _is_not_of(test, pred):
    return isinstance(test, TNode) and test.kind == "UnaryOp" and isinstance(test.fields.get("op"), TNode) and test.fields["op"].kind == "Not" and pred(test.fields.get("operand"))


def _is_break_flag(n):
    """Name owned as flow_ctrl_break_expr, or Attribute(<wrapped iter>, '_break')."""
    if isinstance(n, TNode) and n.kind == "Name" and _owner(n) and _owner(n)[0] == "self" and "break" in _owner(n)[1]:
        return True
    if isinstance(n, TNode) and n.kind == "Attribute" and isinstance(n.fields.get("attr"), Cst) and n.fields["attr"].value == "_break":
        v = n.fields.get("value")
        return isinstance(v, TNode) and v.kind == "Name" and _owner(v) and _owner(v)[0] == "self"
    return False


def _ctx_true(pr, frag):
    """Value of the context decision about self.<frag> (> 0 / truthy), or None."""
    for k, v in pr.assign.items():
        if f"self.{frag}" in k:
            if k.endswith("==0"):
                return not v
            if k.endswith(">0") or k.startswith("truthy:"):
                return v
    return None


def rule_r23(ctx):
    rr = RuleResult("C05-R2", "flag life cycle, polarity and short-circuit order in the loop / function templates")
    rr.floor = 3
    T = ctx.tmpl
    for kind in ("While", "For"):
        entry = T.pending_by_kind(kind)
        for pr in entry.ok_paths():
            rr.instances += 1
            evs, w = path_events(pr)
            what = f"{kind}|{short_ctx(pr, 110)}"
            brk = _ctx_true(pr, "break_cnt")
            used = _ctx_true(pr, "flow_ctrl_interrupt_used")
            bad = None
            body = [e for e in evs if e.kind == "S" and e.path == f"{kind}.body"]
            orelse = [e for e in evs if e.kind == "S" and e.path == f"{kind}.orelse"]
            if len(body) != 1 or not any(m.startswith("iterations@") for m in body[0].mult):
                bad = ("body-not-per-iteration", "the lowered body is not the per-iteration element of the loop comprehension")
            comp_pos = body[0].pos if body else 0
            # ---- break flag
            if brk is None and kind == "While":
                pass
            if brk:
                if kind == "While":
                    binds = [e for e in evs if e.kind == "bind-fresh" and _owner(e.node) and "break" in _owner(e.node)[1] and not e.mult]
                    init_ok = any(_binds_const(e, evs, False) for e in binds) and binds and binds[0].pos < _first_comp_pos(evs)
                    if not init_ok:
                        bad = bad or ("break-flag-init", "with a break in the loop the break flag is not initialised to False before the comprehension")
                    tests = [e for e in evs if e.kind == "X" and e.path == "While.test"]
                    for t in tests:
                        if not any(pol is True and _is_not_of(g[2], _is_break_flag) for pol, g in t.guards):
                            bad = bad or ("test-before-flag", "the loop test is evaluated before (or without) `not break_flag`: after a break the user's condition is evaluated once more")
                else:
                    binds = [e for e in evs if e.kind == "bind-fresh" and _owner(e.node) and "iter" in _owner(e.node)[1] and not e.mult]
                    if not binds or binds[0].pos > _first_comp_pos(evs):
                        bad = bad or ("wrapper-not-bound", "with a break in the loop the wrapped iterator is not bound before the comprehension")
                    else:
                        it = [e for e in evs if e.kind == "X" and e.path == "For.iter"]
                        if not it or it[0].pos > binds[0].pos or any(m.startswith("iterations@") for m in it[0].mult):
                            bad = bad or ("iter-not-wrapped", "the user's iterable is not the (single) argument of the iterator wrapper")
                for e in orelse:
                    if not any(pol is True and _is_not_of(g[2], _is_break_flag) for pol, g in e.guards):
                        bad = bad or ("else-unguarded", "with a break in the loop the else clause is not guarded by `not broken`: it runs after a break")
            elif brk is False:
                for e in orelse:
                    if e.guards:
                        bad = bad or ("else-guarded-without-break", "without any break the else clause is guarded (by a flag that is never initialised)")
                loads = [e for e in evs if e.kind == "load-fresh" and _owner(e.node) and ("break" in _owner(e.node)[1] or "wrapped" in _owner(e.node)[1])]
                if loads:
                    bad = bad or ("flag-read-uninitialised", "the break flag / wrapped iterator is read although no break exists (never initialised)")
            # ---- interrupt flag
            inj = [e for e in pr.effects if e["kind"] == "elem-append" and "interrupt_node_bodies" in e["target"]]
            inits = [e for e in evs if e.kind == "bind-fresh" and _owner(e.node) and "interrupt" in _owner(e.node)[1]]
            if used:
                first_in_elt = [e for e in evs if any(m.startswith("iterations@") for m in e.mult) and e.kind not in ("call", "raw-target") and e.role != "comprehension.target"]
                if not inits or not first_in_elt or inits[0] is not first_in_elt[0] or not _binds_const(inits[0], evs, False):
                    bad = bad or ("interrupt-flag-reset", "the interrupt flag is not reset to False as the FIRST thing of every iteration")
                if len(inj) != 1 or not _is_flag_true(inj[0]["value"], "interrupt"):
                    bad = bad or ("interrupt-flag-injection", "the registered break/continue/return bodies do not get `interrupt := True` appended")
            elif used is False:
                if inits or inj:
                    bad = bad or ("interrupt-flag-unconditional", "interrupt flag code is emitted although no guard uses the flag")
            if bad:
                rr.fail(f"C05-R2|{kind}|{bad[0]}", f"Pending{kind}.get_result: {bad[1]} [context: {short_ctx(pr, 100)}]", what=what)
            else:
                rr.ok(what, sample={"rule": "C05-R2/R3", "loop": kind, "break_cnt>0": brk, "interrupt_used": used, "verdict": "flags initialised/tested/injected consistently"})
    # function: return flag
    entry = T.pending_by_kind("FunctionDef")
    for pr in entry.ok_paths():
        rr.instances += 1
        evs, w = path_events(pr)
        used = None
        for k, v in pr.assign.items():
            if "flow_ctrl_return_used" in k:
                used = v
        what = f"FunctionDef|return-flag|used={used}"
        inits = [e for e in evs if e.kind == "bind-fresh" and _owner(e.node) and _owner(e.node)[1] == "flow_ctrl_return_expr"]
        inj = [e for e in pr.effects if e["kind"] == "elem-append" and "return_node_bodies" in e["target"]]
        body = [e for e in evs if e.kind == "S" and e.path.startswith("FunctionDef.body")]
        bad = None
        if used:
            if not inits or not body or inits[0].pos > body[0].pos or inits[0].deferred < 1 or not _binds_const(inits[0], evs, False):
                bad = ("return-flag-init", "the return flag is not initialised to False at the head of the lambda body")
            if len(inj) != 1 or not _is_flag_true(inj[0]["value"], "return"):
                bad = bad or ("return-flag-injection", "the registered return bodies do not get `ret := True` appended")
        elif used is False and (inits or inj):
            bad = ("return-flag-unconditional", "return flag code is emitted although no guard uses it")
        elif used is None:
            bad = ("return-flag-not-consulted", "flow_ctrl_return_used is never consulted")
        if bad:
            rr.fail(f"C05-R2|FunctionDef|{bad[0]}", f"PendingFunctionDef.get_result: {bad[1]} [context: {short_ctx(pr, 90)}]", what=what)
        else:
            rr.ok(what)
    return rr


def _first_comp_pos(evs):
    ps = [e.pos for e in evs if any(m.startswith("iterations@") for m in e.mult) or e.comp_iter]
    return min(ps) if ps else 10 ** 9


def _binds_const(e, evs, value):
    par = e.extra.get("namedexpr")
    return par is not None and _const_is(par.fields.get("value"), value)


def _const_is(v, value):
    return isinstance(v, TNode) and v.kind == "Constant" and isinstance(v.fields.get("value"), Cst) and v.fields["value"].value is value


def _is_flag_true(v, frag):
    if isinstance(v, TNode) and v.kind == "NamedExpr":
        tgt = v.fields.get("target")
        return bool(_owner(tgt)) and frag in _owner(tgt)[1] and _const_is(v.fields.get("value"), True)
    return False


def rule_r3_wrapper(ctx):
    rr = RuleResult("C05-R3", "iterator wrapper: iter() once, __next__ advances iff not _break, otherwise raises StopIteration without touching the iterator")
    rr.floor = 3
    presets = preset_templates(ctx)
    body = None
    for nm, t in presets.items():
        if isinstance(t, TNode) and t.kind == "NamedExpr":
            body = t
    if body is None:
        raise AnalysisError("C05-R3: the iterator-wrapper preset template was not found")
    call = body.fields.get("value")
    d = None
    if isinstance(call, TNode) and call.kind == "Call":
        for a in call.fields["args"].items:
            if isinstance(a, TNode) and a.kind == "Dict":
                d = a
    if d is None:
        raise AnalysisError("C05-R3: the wrapper preset is not type(name, bases, {methods})")
    methods = {}
    for k, v in zip(d.fields["keys"].items, d.fields["values"].items):
        if isinstance(k, TNode) and isinstance(k.fields.get("value"), Cst):
            methods[k.fields["value"].value] = v
    for m in ("__init__", "__iter__", "__next__"):
        rr.instances += 1
        what = f"wrapper|{m}"
        lam = methods.get(m)
        if not (isinstance(lam, TNode) and lam.kind == "Lambda"):
            rr.fail(f"C05-R3|wrapper|{m}|missing", f"iterator wrapper preset has no lambda for {m}", what=what)
            continue
        params = [a.fields["arg"].value for a in lam.fields["args"].fields["args"].items if isinstance(a, TNode)]
        b = lam.fields["body"]
        calls = [t for t in iter_tnodes(b) if t.kind == "Call"]

        def cname(t):
            f = t.fields.get("func")
            return f.fields["id"].value if isinstance(f, TNode) and f.kind == "Name" and isinstance(f.fields.get("id"), Cst) else None

        if m == "__init__":
            iters = [t for t in calls if cname(t) == "iter"]
            sets = {}
            for t in calls:
                if cname(t) == "setattr":
                    a = t.fields["args"].items
                    if isinstance(a[1], TNode) and isinstance(a[1].fields.get("value"), Cst):
                        sets[a[1].fields["value"].value] = a[2]
            ok = len(iters) == 1 and "it" in sets and sets["it"] is iters[0] and "_break" in sets and _const_is(sets["_break"], False) and len(params) == 2
            # the lambda must return None (last element of the list indexed by -1)
            if ok:
                rr.ok(what, sample={"rule": "C05-R3", "method": m, "verdict": "self.it = iter(it) once; self._break = False"})
            else:
                rr.fail(f"C05-R3|wrapper|__init__|protocol", f"iterator wrapper __init__ ({lam.site}): must call iter() exactly once on its argument, store it, and initialise _break to False", where=lam.site, what=what)
        elif m == "__iter__":
            ok = isinstance(b, TNode) and b.kind == "Name" and isinstance(b.fields.get("id"), Cst) and params and b.fields["id"].value == params[0]
            if ok:
                rr.ok(what)
            else:
                rr.fail("C05-R3|wrapper|__iter__|protocol", f"iterator wrapper __iter__ ({lam.site}) does not return self", where=lam.site, what=what)
        else:
            ok = False
            why = "is not `next(iter([])) if self._break else next(self.it)`"
            if isinstance(b, TNode) and b.kind == "IfExp":
                test, body_, orelse = b.fields["test"], b.fields["body"], b.fields["orelse"]
                test_break = isinstance(test, TNode) and test.kind == "Attribute" and isinstance(test.fields.get("attr"), Cst) and test.fields["attr"].value == "_break"
                neg = False
                if _is_not_of(test, lambda n: isinstance(n, TNode) and n.kind == "Attribute" and isinstance(n.fields.get("attr"), Cst) and n.fields["attr"].value == "_break"):
                    test_break, neg = True, True
                    body_, orelse = orelse, body_

                def touches_it(n):
                    return any(t.kind == "Attribute" and isinstance(t.fields.get("attr"), Cst) and t.fields["attr"].value == "it" for t in iter_tnodes(n))

                def is_stop(n):
                    # next(iter(<empty display>))
                    if not (isinstance(n, TNode) and n.kind == "Call" and cname(n) == "next"):
                        return False
                    a = n.fields["args"].items
                    if len(a) != 1 or not (isinstance(a[0], TNode) and a[0].kind == "Call" and cname(a[0]) == "iter"):
                        return False
                    inner = a[0].fields["args"].items
                    return len(inner) == 1 and isinstance(inner[0], TNode) and inner[0].kind in ("List", "Tuple") and not inner[0].fields["elts"].items

                def is_advance(n):
                    if not (isinstance(n, TNode) and n.kind == "Call" and cname(n) == "next"):
                        return False
                    a = n.fields["args"].items
                    return len(a) == 1 and isinstance(a[0], TNode) and a[0].kind == "Attribute" and a[0].fields["attr"].value == "it"

                if not test_break:
                    why = "does not test self._break"
                elif touches_it(body_):
                    why = "touches the underlying iterator on the broken path (the iterator is advanced once more after a break)"
                elif not is_stop(body_):
                    why = "does not raise StopIteration on the broken path (next(iter([])) with an EMPTY display)"
                elif not is_advance(orelse):
                    why = "does not return next(self.it) on the normal path"
                else:
                    ok = True
            if ok:
                rr.ok(what, sample={"rule": "C05-R3", "method": m, "verdict": "StopIteration when _break, else next(self.it)"})
            else:
                rr.fail("C05-R3|wrapper|__next__|protocol", f"iterator wrapper __next__ ({lam.site}) {why}", where=lam.site, what=what)
    return rr


def _guard_owner(lw: Lowered):
    """(counter owner tag | 'none' | '?', getter owner tag | 'never' | '?', consistent?)"""
    g = lw.guard or {}
    c = g.get("counter")
    f = g.get("flag_getter")
    if isinstance(c, SVal):
        ctag, cattr = c.obj.tag, c.attr
        cobj = c.obj
    elif isinstance(c, Cst) and c.value == 0:
        ctag, cattr, cobj = "none", None, None
    else:
        ctag, cattr, cobj = "?", None, None
    if isinstance(f, Func):
        if f.bound_self is not None:
            ftag, fobj = f.bound_self.tag, f.bound_self
        elif f.fi is not None and "never" in f.fi.name:
            ftag, fobj = "none", None
        else:
            ftag, fobj = "?", None
    else:
        ftag, fobj = "?", None
    return ctag, cattr, cobj, ftag, fobj


def rule_r4(ctx):
    rr = RuleResult("C05-R4", "every block is lowered under the (counter, flag) pair of the owner Python prescribes")
    rr.floor = 8
    T = ctx.tmpl
    expected = {
        "If": {"body": "enclosing", "orelse": "enclosing"},
        "While": {"body": "self", "orelse": "enclosing"},
        "For": {"body": "self", "orelse": "enclosing"},
        "FunctionDef": {"body": "internal"},
        "ClassDef": {"body": "none"},
    }
    seen = set()
    for kind, blocks in expected.items():
        entry = T.pending_by_kind(kind)
        for pr in entry.paths:
            if pr.outcome not in ("ok",):
                continue
            lows = {}
            for y in pr.yields:
                if y[0] == "block":
                    src = y[1]
                    lows[getattr(src, "field", "?")] = y[2]
            for fld, want in blocks.items():
                key = (kind, fld)
                if key not in seen:
                    seen.add(key)
                    rr.instances += 1
                what = f"{kind}.{fld}|{short_ctx(pr, 80)}"
                lw = lows.get(fld)
                if lw is None:
                    rr.fail(f"C05-R4|{kind}|{fld}|not-through-iter-branch", f"Pending{kind}: block {fld} is not lowered through _iter_branch (statements after an interrupt are not guarded)", what=what)
                    continue
                ctag, cattr, cobj, ftag, fobj = _guard_owner(lw)
                bad = None
                if (lw.guard or {}).get("live") is False:
                    bad = ("stale-counter", f"the counter getter passed for block {fld} returns a value of {ctag}.{cattr} captured before the call instead of reading it when polled: _iter_branch compares it before every statement, so an interrupt inside the block is never noticed")
                elif ctag == "?" or ftag == "?":
                    bad = ("unresolved", f"cannot resolve the counter/flag getters of block {fld} ({lw.guard})")
                elif (cobj is None) != (fobj is None) or (cobj is not None and cobj is not fobj):
                    bad = ("mixed-owner", f"counter belongs to {ctag} but the flag getter to {ftag}")
                else:
                    in_loop = None
                    for k, v in pr.assign.items():
                        if k.startswith("nonempty:") and k.endswith("loop_stack"):
                            in_loop = v
                    nsp_fn = "Function" in pr.extra.get("nsp_cls", "")
                    if want == "self":
                        if cobj is not pr.self_obj or cattr != "interrupt_cnt":
                            bad = ("wrong-owner", f"the loop body is guarded by {ctag}.{cattr}, expected the loop's own interrupt counter")
                    elif want == "internal":
                        if not (cobj is not None and cobj is pr.self_obj.attrs.get("internal_nsp") and cattr == "return_cnt"):
                            bad = ("wrong-owner", f"the function body is guarded by {ctag}.{cattr}, expected return_cnt of the function's own namespace")
                    elif want == "none":
                        if ctag != "none":
                            bad = ("wrong-owner", f"the class body is guarded by {ctag}.{cattr}; a class body has no flow control")
                    else:  # enclosing
                        if cobj is pr.self_obj:
                            bad = ("finished-loop-as-owner", f"block {fld} is guarded by the counters of the loop itself: the loop stack is not popped between body and else (an interrupt in the else clause belongs to the ENCLOSING loop/function)")
                        elif in_loop is True:
                            if not (ctag.startswith("self.nsp.loop_stack[") and cattr == "interrupt_cnt"):
                                bad = ("wrong-owner", f"inside a loop, block {fld} is guarded by {ctag}.{cattr}, expected the innermost enclosing loop")
                        elif in_loop is False and nsp_fn:
                            if not (ctag == "self.nsp" and cattr == "return_cnt"):
                                bad = ("wrong-owner", f"inside a function (no loop), block {fld} is guarded by {ctag}.{cattr}, expected the function's return counter")
                        elif in_loop is False:
                            if ctag != "none":
                                bad = ("wrong-owner", f"at module/class level, block {fld} is guarded by {ctag}.{cattr}")
                        else:
                            bad = ("loop-stack-not-consulted", f"block {fld}: the enclosing loop stack is not consulted")
                if bad:
                    rr.fail(f"C05-R4|{kind}|{fld}|{bad[0]}", f"Pending{kind}: {bad[1]} [context: {short_ctx(pr, 90)}]", what=what)
                else:
                    rr.ok(what, sample={"rule": "C05-R4", "block": f"{kind}.{fld}", "context": short_ctx(pr, 60), "owner": f"{ctag}.{cattr}" if cattr else ctag})
    # loop stack push/pop pairing
    for kind in ("While", "For"):
        entry = T.pending_by_kind(kind)
        rr.instances += 1
        for pr in entry.ok_paths():
            pushes = [e for e in pr.effects if e["kind"] == "append" and e.get("attr") == "loop_stack"]
            pops = [e for e in pr.effects if e["kind"] == "pop" and e.get("attr") == "loop_stack"]
            what = f"{kind}|stack-pairing"
            if len(pushes) != 1 or pushes[0]["phase"] != 0 or pushes[0]["value"] is not pr.self_obj:
                rr.fail(f"C05-R4|{kind}|push", f"Pending{kind}: the loop is not pushed on the loop stack exactly once in its constructor", what=what)
            elif len(pops) != 1 or pops[0]["phase"] != 1:
                rr.fail(f"C05-R4|{kind}|pop", f"Pending{kind}: the loop is not popped from the loop stack exactly once after its body ({len(pops)} pops)", what=what)
            else:
                rr.ok(what)
    return rr


def iter_branch_paths(ctx, first_kinds=None):
    """Abstract run of _iter_branch on a generic block of three statements (or, with first_kinds,
    on a block of two whose first statement may be compound: the pruning oracle)."""
    prog = ctx.prog
    pn = prog.modules.get("oneliner.pending_nodes")
    owners = [c for c in pn.classes.values() if "_iter_branch" in c.methods] if pn else []
    if len(owners) != 1:
        raise AnalysisError("anchor _PendingCompoundStmt._iter_branch vanished")
    ci = owners[0]
    fi = ci.methods["_iter_branch"]

    def run(dec: Decisions):
        it = Interp(prog, dec)
        pr = PathResult()

        def body():
            it.no_summary.add(fi.node)
            self_obj = Obj(ci, "self")
            parent = UNode(["If"])
            if first_kinds:
                stmts = [UNode(first_kinds, parent, "body", 0), UNode(["Expr"], parent, "body", 1)]
            else:
                stmts = [UNode(["Expr", "Break", "Continue", "Return"], parent, "body", i) for i in range(3)]
            branch = PList(list(stmts))
            dst = PList([])
            counter_owner = Obj(None, "owner")
            counter = SVal(counter_owner, "interrupt_cnt", Cst(0))
            flag = TNode("Name", {"id": Fresh("__ol_flag_{}", "OL_FLAG", "flag")}, "flag")
            flag.owner = ("owner", "flag")
            calls = {"n": 0}
            env = Frame(fi.module, {"c": counter, "f": flag})
            getc = Func(None, ast.parse("lambda: c", mode="eval").body, env, module=fi.module)
            getf = Func(None, ast.parse("lambda: f", mode="eval").body, env, module=fi.module)
            pr.extra.update(stmts=stmts, dst=dst, flag=flag)
            f = Func(fi, fi.node, None, bound_self=self_obj, module=fi.module, defcls=ci)
            g = it.invoke(f, [dst, branch, getc, getf], {}, fi.node)
            it.run_gen(g)
            pr.result = dst
            # the statements handed to the driver (converted, hence validated), placed or not
            pr.extra["yielded"] = [v for kind, v, _lw in it.yields if kind == "stmt"]

        return run_protected(it, pr, body)

    return [pr for _d, pr in enumerate_paths(run, None, what="_iter_branch")]


_INTERRUPTS = frozenset(["Break", "Continue", "Return"])
_PRUNE_KINDS = ["Expr", "Assign", "Break", "Continue", "Return", "If", "While", "For", "With"]


def _never_completes(u, cut=(), depth=0):
    """Oracle: with what the path has established about statement `u` (its refined kinds and those
    of the children the code looked at), can control never reach the statement after it?  Loops do
    not qualify: their else clause is skipped by `break`, and `with` may swallow an exception."""
    if not isinstance(u, UNode) or u.is_none or depth > 6:
        return False
    if any(u is c for c in cut):
        # the analyser cut the repository's own recursion here: induction hypothesis (the verdict
        # for the sub-statement is right if the verdicts one level up are, which the other paths check)
        return True
    if u.kinds <= _INTERRUPTS:
        return True
    if u.kinds == frozenset(["If"]):
        for f in ("body", "orelse"):
            lst = u.fields.get(f)
            last = getattr(lst, "_elems", {}).get(-1) if lst is not None else None
            if last is None or not _never_completes(last, cut, depth + 1):
                return False
        return True
    return False


def rule_ib(ctx):
    rr = RuleResult("C05-IB", "structural validation of _iter_branch on a generic block: order, nesting, polarity, nothing lost")
    rr.floor = 4
    paths = cached(ctx, "iter_branch_paths", lambda: iter_branch_paths(ctx))
    for pr in paths:
        if pr.outcome != "ok":
            rr.fail("C05-IB|_iter_branch|abort", f"_iter_branch cannot be run abstractly: {pr.raised} {pr.events[:2]}", what="run")
            continue
        rr.instances += 1
        stmts = pr.extra["stmts"]
        flag = pr.extra["flag"]
        split = any(k.startswith("cmp:") and "interrupt_cnt" in k and v is True for k, v in pr.assign.items())
        # how many statements survive: stop after the first unconditional interrupt
        n_keep = 3
        for i in range(3):
            ks = [v for k, v in pr.assign.items() if k.startswith("isinstance:") and f"body[{i}]" in k]
            if ks and ks[0] is True:
                n_keep = i + 1
                break
        what = f"iter_branch|split={split}|keep={n_keep}"
        evs, w = events_of(pr.result)
        seq = [e for e in evs if e.kind == "S"]
        got = [e.node.src for e in seq]
        bad = None
        # dead statements after an unconditional interrupt may be left out or kept (kept ones sit under
        # the guard of the interrupt's flag and never run): both are right for the control flow
        if len(got) not in (n_keep, 3) or any(a is not b for a, b in zip(got, stmts)):
            bad = ("order", f"the lowered statements are {[getattr(g, 'index', '?') for g in got]}, expected the first {n_keep} (or all) in source order, each once")
        else:
            for i, e in enumerate(seq):
                depth = len(e.guards)
                if split:
                    # every statement starts a new guarded segment (the counter grew before each)
                    want_depth = i + 1
                    if depth != want_depth:
                        bad = bad or ("nesting", f"statement {i} is nested under {depth} guards, expected {want_depth} (each later segment inside the guard of the earlier one)")
                    for pol, (_t, uid, n) in e.guards:
                        if not (pol is True and _is_not_of(n, lambda x: x is flag)):
                            bad = bad or ("polarity", "the rest of a block must run iff `not flag` (IfExp(test=Not(flag), body=rest, orelse=<constant>))")
                else:
                    if depth != 0:
                        bad = bad or ("spurious-guard", "a guard is inserted although the counter did not increase")
            if split:
                for t in iter_tnodes(pr.result):
                    if t.kind == "IfExp":
                        o = t.fields.get("orelse")
                        if not (isinstance(o, TNode) and o.kind == "Constant"):
                            bad = bad or ("orelse", "the else branch of a guard is not a constant")
                        b = t.fields.get("body")
                        if not (isinstance(b, TNode) and b.kind == "$Wrap"):
                            bad = bad or ("body-not-wrapped", "the guarded rest is not passed through the expression wrapper")
        if bad:
            rr.fail(f"C05-IB|_iter_branch|{bad[0]}", f"_PendingCompoundStmt._iter_branch: {bad[1]} [counter increases before each statement: {split}; statements kept: {n_keep}]", what=what)
        else:
            rr.ok(what, sample={"rule": "C05-IB", "counter_increases": split, "kept": n_keep, "guards": [len(e.guards) for e in seq]})
    # pruning: the statements after X may be dropped only when X never completes normally
    for pr in cached(ctx, "iter_branch_prune_paths", lambda: iter_branch_paths(ctx, _PRUNE_KINDS)):
        if pr.outcome != "ok":
            rr.fail("C05-IB|_iter_branch|abort", f"_iter_branch cannot be run abstractly on a block starting with a compound statement: {pr.raised} {pr.events[:2]}", what="run-prune")
            continue
        rr.instances += 1
        stmts = pr.extra["stmts"]
        evs, w = events_of(pr.result)
        got = [e.node.src for e in evs if e.kind == "S"]
        what = f"iter_branch|prune|{stmts[0].kind_label()}"
        if not got or got[0] is not stmts[0] or len(got) > 2 or (len(got) == 2 and got[1] is not stmts[1]):
            rr.fail("C05-IB|_iter_branch|order", f"_iter_branch on [{stmts[0].kind_label()}, Expr]: lowered statements are not the block in source order", what=what)
        elif len(got) == 1 and not _never_completes(stmts[0], getattr(pr, 'rec_cut_args', ())):
            rr.fail("C05-IB|_iter_branch|prune", f"_PendingCompoundStmt._iter_branch drops the statement after a `{stmts[0].kind_label()}` statement that may complete normally (a loop's else clause is skipped by `break`; only break/continue/return, or an if whose two branches both end in one, never fall through) [decisions: {short_ctx(pr, 200)}]", what=what)
        else:
            rr.ok(what)
    # the split condition is a strict comparison against a refreshed saved value
    fi = [c for c in ctx.prog.modules["oneliner.pending_nodes"].classes.values() if "_iter_branch" in c.methods][0].methods["_iter_branch"]
    rr.instances += 1
    strict = False
    for n in ast.walk(fi.node):
        if isinstance(n, ast.If) and isinstance(n.test, ast.Compare) and isinstance(n.test.ops[0], ast.Gt) and isinstance(n.test.comparators[0], ast.Name):
            saved = n.test.comparators[0].id
            if any(isinstance(s, ast.Assign) and any(isinstance(t, ast.Name) and t.id == saved for t in s.targets) for s in n.body):
                strict = True
    if strict:
        rr.ok("iter_branch|strict-compare")
    else:
        rr.fail("C05-IB|_iter_branch|split-condition", "_iter_branch: a new segment must be opened exactly when the counter is strictly greater than the saved value, and the saved value refreshed", what="iter_branch|strict-compare")
    return rr


def rule_r5(ctx):
    rr = RuleResult("C05-R5", "iteration accounting: iterable once and outside the per-iteration part, body per iteration, getter sets its used flag")
    rr.floor = 3
    T = ctx.tmpl
    entry = T.pending_by_kind("For")
    for pr in entry.ok_paths():
        rr.instances += 1
        evs, w = path_events(pr)
        its = [e for e in evs if e.kind in ("X", "raw") and e.path == "For.iter"]
        what = f"For|iter|{short_ctx(pr, 80)}"
        if len(its) != 1 or any(m.startswith("iterations@") for m in its[0].mult) or its[0].deferred:
            rr.fail("C05-R5|For|iter-accounting", f"PendingFor: the iterable is evaluated {len(its)} times / inside the per-iteration part [context: {short_ctx(pr, 90)}]", what=what)
        else:
            rr.ok(what)
    # get_flow_ctrl_expr: sets the used flag and returns the flag expression
    prog = ctx.prog
    for ci in prog.all_classes():
        if "get_flow_ctrl_expr" in ci.methods:
            fi = ci.methods["get_flow_ctrl_expr"]
            rr.instances += 1

            def mk(it, _ci=ci):
                o = Obj(_ci, "self")
                return [], {}, o

            e = T.function(fi, mk, key=f"getter:{ci.name}")
            for pr in e.paths:
                what = f"{ci.name}.get_flow_ctrl_expr"
                sets = [x for x in pr.effects if x["kind"] == "set" and "used" in x["attr"] and isinstance(x["value"], Cst) and x["value"].value is True]
                ok = pr.outcome == "ok" and len(sets) == 1 and isinstance(pr.result, TNode) and pr.result.kind == "Name" and _owner(pr.result)
                if ok:
                    rr.ok(what, sample={"rule": "C05-R5", "getter": what, "sets": sets[0]["attr"], "returns": _owner(pr.result)[1]})
                else:
                    rr.fail(f"C05-R5|{ci.name}|getter-protocol", f"{fi.where()}: get_flow_ctrl_expr must mark the flag as used and return the flag expression (guards would test a flag that is never initialised)", where=fi.where(), what=what)
    return rr


def rule_r6(ctx):
    """Lowered expressions are opaque until their owner has completed them.  break/continue/return
    are lowered to a List whose element list is REGISTERED with the enclosing loop/function, which
    appends the flag assignment to it later (when the loop/function itself is lowered).  Code that
    receives lowered expressions (the expression wrappers, _iter_branch, the statement templates)
    may place them, but must not look inside them: a copy of `node.elts` taken now misses what is
    appended later."""
    from ..extract import expr_wrapper_paths
    from .common import all_templates

    rr = RuleResult("C05-R6", "lowered expressions are placed, never inspected (their lists are completed later by the owner)")
    rr.floor = 20
    seen = set()

    def look(origin, pr):
        rr.instances += 1
        for e in getattr(pr, "effects", []) or []:
            if e.get("kind") == "inspect-lowered":
                key = (origin.split(".")[0], e["attr"])
                if key in seen:
                    continue
                seen.add(key)
                site = e.get("site")
                where = f"{site[0]}:{site[1]}" if isinstance(site, tuple) else str(site)
                rr.fail(
                    f"C05-R6|{origin.split('.')[0]}|inspects-lowered|{e['attr']}",
                    f"{origin} ({where}): reads `.{e['attr']}` of an expression that a statement was lowered to. The element list of a lowered break/continue/return is completed LATER by the enclosing loop/function (the flag assignment is appended when the loop is lowered): elements copied now miss it, the flag is never raised and the statements after `if c: log(); continue` run although the source skipped them",
                    where=where, what=f"{origin}|{e['attr']}",
                )

    for origin, kind, pr, tmpl in all_templates(ctx):
        if pr is not None:
            look(origin, pr)
    for pr in cached(ctx, "expr_wrapper_paths", lambda: expr_wrapper_paths(ctx.tmpl)):
        look("get_expr_wrapper", pr)
    for pr in cached(ctx, "iter_branch_paths", lambda: iter_branch_paths(ctx)):
        look("_iter_branch", pr)
    if not seen:
        rr.ok("opaque", sample={"rule": "C05-R6", "paths_examined": rr.instances, "verdict": "no read of a field of a lowered expression"})
    return rr


def rule_siblings(ctx):
    """The property quantifies over the option combinations: the sibling templates of an option
    branch must be equivalent (rule C01-R2, restricted here to the control-flow statements)."""
    from .c01 import rule_r2

    return rule_r2(ctx)


# library routines that ask the TRUTH of what their predicate returns (first argument)
_PREDICATE_CONSUMERS = {"takewhile", "dropwhile", "filter", "filterfalse"}


def rule_r7(ctx):
    """`while test:` asks the truth of the test (`bool(test)`: __bool__/__len__, None, '', [] are
    false).  In the template the rewritten test has to end up where a truth value is asked: the result
    of a predicate handed to takewhile()/filter(), a comprehension `if`, the test of `a if t else b`, a
    non-final operand of and/or, the operand of `not`.  Anything else compares or passes the VALUE:
    `iter(lambda: test, False)` stops on `test == False`, not on falsiness (`while stack:` never ends)."""
    from ..vals import PList, TNode, Transf

    rr = RuleResult("C05-R7", "the test of a while loop is consumed by a truth test (not compared, not passed on as a value)")
    rr.floor = 2
    entry = ctx.tmpl.pending_by_kind("While")
    seen = set()

    def walk(v, tested, found, depth=0):
        if depth > 60:
            return
        if isinstance(v, Transf):
            u = v.inner
            path = norm_path(u.short_path()) if hasattr(u, "short_path") else ""
            if path == "While.test":
                found.append(tested)
            return
        if isinstance(v, PList):
            for i in v.items:
                walk(i, False, found, depth + 1)
            return
        if not isinstance(v, TNode):
            for i in getattr(v, "items", []) or []:
                walk(i, False, found, depth + 1)
            return
        f = v.fields
        if v.kind == "BoolOp":
            items = f["values"].items if isinstance(f.get("values"), PList) else []
            for i, o in enumerate(items):
                walk(o, True if i < len(items) - 1 else tested, found, depth + 1)
            return
        if v.kind == "UnaryOp" and isinstance(f.get("op"), TNode) and f["op"].kind == "Not":
            walk(f.get("operand"), True, found, depth + 1)
            return
        if v.kind == "IfExp":
            walk(f.get("test"), True, found, depth + 1)
            walk(f.get("body"), tested, found, depth + 1)
            walk(f.get("orelse"), tested, found, depth + 1)
            return
        if v.kind == "comprehension":
            walk(f.get("target"), False, found, depth + 1)
            walk(f.get("iter"), False, found, depth + 1)
            ifs = f.get("ifs")
            for i in (ifs.items if isinstance(ifs, PList) else []):
                walk(i, True, found, depth + 1)
            return
        if v.kind == "Call":
            fn = f.get("func")
            name = None
            if isinstance(fn, TNode) and fn.kind == "Attribute" and isinstance(fn.fields.get("attr"), Cst):
                name = fn.fields["attr"].value
            elif isinstance(fn, TNode) and fn.kind == "Name" and isinstance(fn.fields.get("id"), Cst):
                name = fn.fields["id"].value
            args = f["args"].items if isinstance(f.get("args"), PList) else []
            walk(fn, False, found, depth + 1)
            for i, a in enumerate(args):
                if i == 0 and name in _PREDICATE_CONSUMERS and isinstance(a, TNode) and a.kind == "Lambda":
                    walk(a.fields.get("args"), False, found, depth + 1)
                    walk(a.fields.get("body"), True, found, depth + 1)
                else:
                    walk(a, False, found, depth + 1)
            walk(f.get("keywords"), False, found, depth + 1)
            return
        for k, x in f.items():
            walk(x, False, found, depth + 1)

    for pr in entry.ok_paths():
        rr.instances += 1
        found = []
        walk(pr.result, False, found)
        what = f"While|test|{short_ctx(pr, 80)}"
        if not found:
            continue  # the hole is missing: reported by C07-R1 / C05-R5
        if all(found):
            rr.ok(what, sample={"rule": "C05-R7", "context": short_ctx(pr, 60), "verdict": "truth-tested"})
        elif "nt" not in seen:
            seen.add("nt")
            rr.fail(
                "C05-R7|While|test-not-truth-tested",
                f"PendingWhile.get_result: the rewritten test of the loop does not end up in a position where its TRUTH is asked (predicate of takewhile/filter, comprehension `if`, and/or/not, conditional expression): e.g. `iter(lambda: test, False)` ends the loop when `test == False`, so `while stack:` / `while node:` (a test that becomes [], '', None) never stops [context: {short_ctx(pr, 100)}]",
                what=what,
            )
    return rr


RULES = [("C01-R2", rule_siblings), ("C05-R1", rule_r1), ("C05-R2", rule_r23), ("C05-R3", rule_r3_wrapper), ("C05-R4", rule_r4), ("C05-R5", rule_r5), ("C05-R6", rule_r6), ("C05-R7", rule_r7), ("C05-IB", rule_ib)]
