"""bug6: converter crashes with AssertionError when a function (or generator expression) nested in a method mentions super or __class__."""
import os, sys
sys.path.insert(0, os.environ["OLREPO"])
import io, contextlib, itertools
import oneliner
from oneliner.config import Configs

COMBOS = list(itertools.product(["ast.unparse", "oneliner"], ["list", "chain_call"], ["if_expr", "short_circuit"]))


def run(code, mode):
    g = {"__name__": "__main__"}
    buf = io.StringIO()
    exc = None
    with contextlib.redirect_stdout(buf):
        try:
            (exec if mode == "exec" else eval)(code, g)
        except BaseException as e:  # noqa
            exc = "%s: %s" % (type(e).__name__, e)
    return buf.getvalue(), exc


def differential(script):
    """Return the number of option combinations where the converted program differs."""
    ref = run(script, "exec")
    print("original : stdout=%r exception=%r" % ref)
    failures = 0
    for u, w, i in COMBOS:
        c = Configs()
        c.unparser, c.expr_wrapper, c.if_style = u, w, i
        try:
            text = oneliner.convert_code_string(script, configs=c)
        except BaseException as e:  # noqa
            print("%-40s CONVERTER CRASH %s: %s" % ((u, w, i), type(e).__name__, e))
            failures += 1
            continue
        try:
            code = compile(text, "<converted>", "eval")
        except SyntaxError as e:
            print("%-40s DOES NOT COMPILE %s" % ((u, w, i), e))
            failures += 1
            continue
        got = run(code, "eval")
        same = got[0] == ref[0] and (got[1] or "").split(":")[0] == (ref[1] or "").split(":")[0]
        if not same:
            failures += 1
            print("%-40s DIFFERS stdout=%r exception=%r" % ((u, w, i), got[0], got[1]))
    return failures


SCRIPT = '''
class B:
    def m(self):
        return 'B.m'
class A(B):
    def m(self):
        def helper():
            return super(A, self).m()
        return helper()
print(A().m())
'''

if __name__ == "__main__":
    n = differential(SCRIPT)
    print("defect shows in %d of %d option combinations" % (n, len(COMBOS)))
    sys.exit(1 if n else 0)
