"""bug4 (latent, direct AST shapes only): a NEGATIVE numeric Constant is written as its bare repr, without
parentheses, in slots that bind tighter than unary minus: left operand of **, value of Attribute / Call /
Subscript (and Await).  The parser never produces Constant(-1) (it gives UnaryOp(USub, Constant(1)), which IS
parenthesised correctly), and the converter builds Constant(-1) only as a subscript index, so
convert_code_string() is not affected today - but expr_unparse() as a function on ASTs is wrong.

node_prec_map gives every Constant PREC_NAME; unparse_Attribute only special-cases str.isdigit().
"""
import ast
import os
import subprocess
import sys
from ast import *

sys.path.insert(0, os.environ["OLREPO"])
from oneliner.expr_unparse import expr_unparse

L = Load()
CASES = [
    ("Constant(-1) ** 2", BinOp(Constant(-1), Pow(), Constant(2))),
    ("Constant(-2.0) ** 2", BinOp(Constant(-2.0), Pow(), Constant(2))),
    ("Constant(complex(0,-1)) ** 2", BinOp(Constant(complex(0, -1)), Pow(), Constant(2))),
    ("Constant(-1).real", Attribute(Constant(-1), "real", L)),
    ("Constant(-1).__abs__()", Call(Attribute(Constant(-1), "__abs__", L), [], [])),
    ("Constant(-1.5).__abs__()", Call(Attribute(Constant(-1.5), "__abs__", L), [], [])),
]
PYS = [sys.executable] + [p for p in ("/root/.pyenv/versions/3.8.18/bin/python",) if os.path.exists(p)]
bad = 0
for label, tree in CASES:
    want = repr(eval(compile(ast.fix_missing_locations(Expression(tree)), "<tree>", "eval")))
    text = expr_unparse(tree)
    for py in PYS:
        p = subprocess.run([py, "-c", "print(repr(eval(%r)))" % text], capture_output=True, text=True)
        got = p.stdout.strip() if p.returncode == 0 else p.stderr.strip().splitlines()[-1]
        if got != want:
            bad += 1
            print("%-26s text=%-16r tree evaluates to %-8s text gives %s   [%s]" % (label, text, want, got, py.split("/")[-3] if "pyenv" in py else "host"))
print("bug4:", "DEFECT PRESENT (%d differences)" % bad if bad else "not reproduced")
sys.exit(1 if bad else 0)
