"""Derived analyses on templates: the order in which Python evaluates the holes
of an emitted expression, how often, under which guard and inside which
converter-built scope (eval_order / mult / guard / scope of DESIGN 2.2)."""
from __future__ import annotations

from dataclasses import dataclass, field

from .core import AnalysisError
from .vals import (
    Cst, Fresh, Lowered, Obj, PDict, PList, PTuple, Rep, Splice, Str, StrOp, SVal, Sym, TNode,
    Transf, UList, UNode, UPrim, Unknown, V, is_none,
)


def _always_true(v):
    """A display with at least one definite element is true whatever it contains."""
    if isinstance(v, TNode) and v.kind in ("Tuple", "List", "Set"):
        elts = v.fields.get("elts")
        items = elts.items if isinstance(elts, (PList, PTuple)) else []
        return any(isinstance(i, (TNode, Transf)) or (isinstance(i, V) and not isinstance(i, (Rep, Splice))) for i in items)
    return False


def norm_guard(g):
    """A guard (polarity, ('truth', uid, node)) reduced to what is really asked (see _truth_guard)."""
    pol, (tag, uid, node) = g
    if tag != "truth":
        return g
    return _truth_guard(pol, node)


def _truth_guard(pol, item):
    """(polarity, ('truth', uid, node)) with the node reduced to what is really asked:
    `not x` asks x with the opposite polarity; `x and <always true>` asks x."""
    for _ in range(8):
        if isinstance(item, TNode) and item.kind == "UnaryOp" and isinstance(item.fields.get("op"), TNode) and item.fields["op"].kind == "Not":
            item, pol = item.fields.get("operand"), not pol
            continue
        if isinstance(item, TNode) and item.kind == "BoolOp" and isinstance(item.fields.get("op"), TNode) and item.fields["op"].kind == "And":
            vals = item.fields.get("values")
            items = vals.items if isinstance(vals, (PList, PTuple)) else []
            rest = [i for i in items if not _always_true(i)]
            if len(rest) == 1 and len(items) > 1:
                item = rest[0]
                continue
        break
    return (pol, ("truth", item.uid if isinstance(item, V) else id(item), item))


@dataclass
class Ev:
    kind: str
    path: str
    node: object
    mult: tuple = ()
    deferred: int = 0
    guards: tuple = ()
    scope: tuple = ()
    site: str = ""
    nsp: str | None = None
    pos: int = 0
    comp_iter: tuple = ()  # sites of converter-built comprehensions whose outermost iterable encloses this
    comp_elt: tuple = ()  # (site, targets) of converter-built comprehensions whose element encloses this
    role: str = ""  # field role, e.g. "Call.func"
    extra: dict = field(default_factory=dict)

    def many(self):
        return len(self.mult) > 0


def upath(v) -> str:
    """Stable path of a user value: indices normalised, kind refinements dropped."""
    import re

    p = v.short_path() if hasattr(v, "short_path") else str(v)
    return re.sub(r"\[\*\d+\]", "[*]", p)


def upath_kinds(v) -> str:
    import re

    p = v.path()
    return re.sub(r"\[\*\d+\]", "[*]", p)


class State:
    __slots__ = ("mult", "deferred", "guards", "scope", "comp_iter", "comp_elt", "transf", "role")

    def __init__(self):
        self.mult = ()
        self.deferred = 0
        self.guards = ()
        self.scope = ()
        self.comp_iter = ()
        self.comp_elt = ()
        self.transf = None
        self.role = ""

    def copy(self, **kw):
        s = State()
        for a in self.__slots__:
            setattr(s, a, getattr(self, a))
        for k, v in kw.items():
            setattr(s, k, v)
        return s


SIMPLE_ORDER = {
    "BinOp": ["left", "right"], "UnaryOp": ["operand"], "Set": ["elts"], "Await": ["value"],
    "Yield": ["value"], "YieldFrom": ["value"], "Call": ["func", "args", "keywords"],
    "FormattedValue": ["value", "format_spec"], "JoinedStr": ["values"], "Attribute": ["value"],
    "Subscript": ["value", "slice"], "Starred": ["value"], "List": ["elts"], "Tuple": ["elts"],
    "Slice": ["lower", "upper", "step"], "keyword": ["value"], "Constant": [], "arg": [],
    "Load": [], "Store": [], "Del": [],
}


class SemWalker:
    def __init__(self):
        self.events: list[Ev] = []
        self.binders: list[dict] = []  # converter-built scopes: {'kind','site','names','node'}
        self.problems: list[tuple] = []

    def emit(self, kind, path, node, st: State, site="", **extra):
        ev = Ev(kind, path, node, st.mult, st.deferred, st.guards, st.scope, site or getattr(node, "site", "") or "",
                getattr(st.transf, "tag", None) if st.transf is not None else None,
                len(self.events), st.comp_iter, st.comp_elt, st.role, extra)
        self.events.append(ev)
        return ev

    # -------------------------------------------------------------- entry
    def walk_result(self, v):
        """v: the list[expr] returned by get_result (statements in order) or one expr."""
        self.walk(v, State())
        return self.events

    def walk(self, v, st: State):
        if v is None or is_none(v):
            return
        if isinstance(v, PList) or isinstance(v, PTuple):
            self.walk_items(v.items, st)
            return
        if isinstance(v, Rep):
            self.walk_items([v], st)
            return
        if isinstance(v, TNode):
            return self.walk_tnode(v, st)
        if isinstance(v, Transf):
            inner = v.inner
            if isinstance(inner, UNode):
                if inner.is_none:
                    return
                self.emit("X", upath(inner), inner, st.copy(transf=v.nsp), site=v.site, nsp_obj=v.nsp, opt=inner.opt)
                return
            if isinstance(inner, Transf):
                self.emit("double-transf", self.describe(inner), v, st, site=v.site)
                return self.walk(inner, st)
            # expr_transf applied to a template (e.g. the slice() call built from a user Slice)
            return self.walk(inner, st.copy(transf=v.nsp))
        if isinstance(v, Lowered):
            src = v.src
            self.emit("S", upath(src) if hasattr(src, "short_path") else str(src), v, st, guard=v.guard)
            return
        if isinstance(v, UNode):
            if v.is_none:
                return
            kind = "X" if st.transf is not None else "raw"
            self.emit(kind, upath(v), v, st, nsp_obj=st.transf, kinds=sorted(v.kinds), opt=v.opt)
            return
        if isinstance(v, UList):
            kind = "X" if st.transf is not None else "raw"
            self.emit(kind, upath(v) + "[*]", v, st.copy(mult=st.mult + (upath(v),)), nsp_obj=st.transf, kinds=[v.elem_type])
            return
        if isinstance(v, StrOp):
            if v.op in ("slice", "reversed", "tuple", "list", "sorted") and v.args and isinstance(v.args[0], (PList, PTuple, UList, StrOp)):
                desc = v.args[1] if v.op == "slice" and len(v.args) > 1 else v.op
                self.emit("reordered", f"{v.op}:{desc}", v, st)
                return self.walk(v.args[0], st)
            return
        if isinstance(v, (Cst, UPrim, Fresh, Sym, Str)):
            return
        if isinstance(v, (Unknown, SVal)):
            self.emit("unknown", v.desc, v, st)
            return
        if isinstance(v, Splice):
            return self.walk(v.v, st)
        if isinstance(v, PDict):
            for k, x in v.pairs:
                self.walk(x, st)
            return
        if isinstance(v, Obj):
            self.emit("unknown", v.tag, v, st)
            return
        raise AnalysisError(f"semantic walk: unexpected value {v!r}")

    def walk_items(self, items, st: State):
        for i in items:
            if isinstance(i, Rep):
                self.walk_items(i.items, st.copy(mult=st.mult + (i.over,)))
            elif isinstance(i, Splice):
                self.walk(i.v, st)
            else:
                self.walk(i, st)

    def describe(self, v):
        from .tmpl import show

        return show(v, maxdepth=3)

    # -------------------------------------------------------------- names
    def name_id(self, t: TNode):
        return t.fields.get("id")

    def name_event(self, t: TNode, st: State, store=False):
        idv = self.name_id(t)
        if isinstance(idv, Cst):
            self.emit("bind-const" if store else "load-const", str(idv.value), t, st)
        elif isinstance(idv, Fresh):
            self.emit("bind-fresh" if store else "load-fresh", idv.const_name or "?", t, st, fresh=idv)
        elif isinstance(idv, UPrim):
            self.emit("bind-user" if store else "load-user", upath(idv), t, st, prim=idv)
        elif isinstance(idv, (Str, StrOp)):
            self.emit("bind-computed" if store else "load-computed", self.describe(idv), t, st, idv=idv)
        elif isinstance(idv, (Unknown, SVal)):
            self.emit("bind-unknown" if store else "load-unknown", idv.desc, t, st, idv=idv)
        else:
            self.emit("bind-other" if store else "load-other", self.describe(idv), t, st, idv=idv)

    def target_names(self, tgt):
        """Names bound by a target template (Name / Tuple of Names / raw user target)."""
        out = []
        if isinstance(tgt, TNode):
            if tgt.kind == "Name":
                out.append(tgt.fields.get("id"))
            elif tgt.kind in ("Tuple", "List"):
                elts = tgt.fields.get("elts")
                for e in elts.items if isinstance(elts, PList) else []:
                    if isinstance(e, Rep):
                        for x in e.items:
                            out.extend(self.target_names(x))
                    else:
                        out.extend(self.target_names(e))
            elif tgt.kind == "Starred":
                out.extend(self.target_names(tgt.fields.get("value")))
        elif isinstance(tgt, (UNode, Transf)):
            out.append(tgt)
        return out

    # -------------------------------------------------------------- tnodes
    def walk_tnode(self, t: TNode, st: State):
        k = t.kind
        f = t.fields
        sub = lambda role: st.copy(role=f"{k}.{role}")
        if getattr(t, "rebuilt_from", None) is not None:
            # node rebuilt field by field by the generic copier: every field in order
            for fld, x in f.items():
                if isinstance(x, (V, Rep, Splice)):
                    self.walk(x, sub(fld))
            return
        if k == "Name":
            ctx = f.get("ctx")
            store = isinstance(ctx, TNode) and ctx.kind == "Store" and st.role in ("NamedExpr.target", "comprehension.target")
            return self.name_event(t, st, store=store)
        if k in SIMPLE_ORDER:
            for fld in SIMPLE_ORDER[k]:
                if fld in f:
                    self.walk(f[fld], sub(fld))
            if k == "Call":
                self.emit("call", "", t, st)
            return
        if k == "NamedExpr":
            self.walk(f.get("value"), sub("value"))
            tgt = f.get("target")
            if isinstance(tgt, TNode) and tgt.kind == "Name":
                ev_n = len(self.events)
                self.name_event(tgt, st.copy(role="NamedExpr.target"), store=True)
                for e in self.events[ev_n:]:
                    e.extra["namedexpr"] = t
            else:
                self.emit("bad-walrus-target", self.describe(tgt), t, st)
            return
        if k == "BoolOp":
            vals = f.get("values")
            items = vals.items if isinstance(vals, (PList, PTuple)) else []
            op = f.get("op")
            opk = op.kind if isinstance(op, TNode) else "?"
            g = st.guards
            for i, item in enumerate(items):
                self.walk(item, st.copy(guards=g, role=f"BoolOp.values[{i}]"))
                g = g + ((opk == "And", ("truth", item.uid if isinstance(item, V) else id(item), item)),)
            return
        if k == "IfExp":
            test = f.get("test")
            self.walk(test, sub("test"))
            tid = ("truth", test.uid if isinstance(test, V) else 0, test)
            self.walk(f.get("body"), st.copy(guards=st.guards + ((True, tid),), role="IfExp.body"))
            self.walk(f.get("orelse"), st.copy(guards=st.guards + ((False, tid),), role="IfExp.orelse"))
            return
        if k == "Compare":
            self.walk(f.get("left"), sub("left"))
            self.walk(f.get("comparators"), sub("comparators"))
            return
        if k == "Dict":
            keys, vals = f.get("keys"), f.get("values")
            ki = keys.items if isinstance(keys, PList) else []
            vi = vals.items if isinstance(vals, PList) else []
            for a, b in zip(ki, vi):
                if isinstance(a, Rep) and isinstance(b, Rep):
                    s2 = st.copy(mult=st.mult + (a.over,))
                    for x, y in zip(a.items, b.items):
                        self.walk(x, s2.copy(role="Dict.keys"))
                        self.walk(y, s2.copy(role="Dict.values"))
                else:
                    self.walk(a, sub("keys"))
                    self.walk(b, sub("values"))
            if len(ki) != len(vi):
                self.problems.append(("dict-arity", t.site, f"{len(ki)} keys vs {len(vi)} values"))
            return
        if k == "Lambda":
            args = f.get("args")
            params = []
            if isinstance(args, TNode):
                af = args.fields
                # defaults are evaluated when the lambda is created
                self.walk(af.get("defaults"), st.copy(role="arguments.defaults"))
                self.walk(af.get("kw_defaults"), st.copy(role="arguments.kw_defaults"))
                for fld in ("posonlyargs", "args", "vararg", "kwonlyargs", "kwarg"):
                    a = af.get(fld)
                    for x in self._flatten(a):
                        if isinstance(x, TNode) and x.kind == "arg":
                            params.append(x.fields.get("arg"))
            binder = {"kind": "lambda", "site": t.site, "names": params, "node": t}
            self.binders.append(binder)
            self.walk(f.get("body"), st.copy(deferred=st.deferred + 1, scope=st.scope + (binder,), role="Lambda.body", guards=()))
            return
        if k in ("ListComp", "SetComp", "GeneratorExp", "DictComp"):
            gens = f.get("generators")
            gi = [g for g in (gens.items if isinstance(gens, PList) else [])]
            if len(gi) != 1 or not isinstance(gi[0], TNode):
                self.problems.append(("comp-shape", t.site, "converter-built comprehension with != 1 generator"))
                return
            g = gi[0].fields
            # outermost iterable: evaluated once, in the enclosing scope
            self.walk(g.get("iter"), st.copy(comp_iter=st.comp_iter + (t.site,), role="comprehension.iter"))
            tgt = g.get("target")
            names = self.target_names(tgt)
            binder = {"kind": "comp", "site": t.site, "names": names, "node": t, "target": tgt}
            self.binders.append(binder)
            inner = st.copy(
                mult=st.mult + (f"iterations@{t.site}",), scope=st.scope + (binder,),
                comp_elt=st.comp_elt + ((t.site, tuple(names)),),
                deferred=st.deferred + (1 if k == "GeneratorExp" else 0),
            )
            # per iteration: bind target, conditions, element
            if isinstance(tgt, TNode):
                if tgt.kind == "Name":
                    self.name_event(tgt, inner.copy(role="comprehension.target"), store=True)
                else:
                    for n in names:
                        if isinstance(n, (Cst, Fresh, UPrim)):
                            fake = TNode("Name", {"id": n}, tgt.site)
                            self.name_event(fake, inner.copy(role="comprehension.target"), store=True)
            elif isinstance(tgt, UNode):
                self.emit("raw-target", upath(tgt), tgt, inner.copy(role="comprehension.target"), kinds=sorted(tgt.kinds))
            else:
                self.walk(tgt, inner.copy(role="comprehension.target"))
            self.walk(g.get("ifs"), inner.copy(role="comprehension.ifs"))
            if k == "DictComp":
                self.walk(f.get("key"), inner.copy(role="DictComp.key"))
                self.walk(f.get("value"), inner.copy(role="DictComp.value"))
            else:
                self.walk(f.get("elt"), inner.copy(role=f"{k}.elt"))
            return
        if k == "$Store":
            self.walk(f.get("value"), sub("value"))
            self.emit("store", self._name_desc(f.get("name")), t, st, name=f.get("name"), nsp_obj=f.get("nsp"))
            return
        if k == "$Load":
            self.emit("load", self._name_desc(f.get("name")), t, st, name=f.get("name"), nsp_obj=f.get("nsp"))
            return
        if k == "$Wrap":
            self.walk(f.get("nodes"), sub("nodes"))
            return
        if k == "$Nest":
            over = f["over"].value if isinstance(f.get("over"), Cst) else "?"
            step = f.get("step")
            # evaluation of nested wrappers: outermost first.  With a loop that re-wraps
            # its accumulator the LAST iteration is outermost.
            probe = SemWalker()
            probe.walk(step, State())
            hole_pos = [e.pos for e in probe.events if e.kind == "nest-hole"]
            user_pos = [e.pos for e in probe.events if e.kind in ("X", "raw", "S", "param", "unknown")]
            # accumulator evaluated before this step's own holes => earlier iterations run first
            hole_first = bool(hole_pos) and (not user_pos or min(hole_pos) < min(user_pos))
            begin = self.emit("nest-begin", over, t, st)
            begin.extra["hole_first"] = hole_first
            begin.extra["hole_seen"] = bool(hole_pos)
            if hole_first:
                self.walk(f.get("init"), sub("init"))
                self.walk(step, st.copy(mult=st.mult + (over,), role="$Nest.step"))
            else:
                self.walk(step, st.copy(mult=st.mult + (over,), role="$Nest.step"))
                self.walk(f.get("init"), sub("init"))
            self.emit("nest-end", over, t, st)
            return
        if k == "$NestHole":
            self.emit("nest-hole", str(f.get("name")), t, st)
            return
        if k in ("$Rec",):
            self.emit("rec", "", t, st)
            return
        if k == "$Param":
            self.emit("param", f["name"].value, t, st)
            return
        if k in ("$Index", "$SetItem", "$InsertAt"):
            for x in f.values():
                if isinstance(x, V):
                    self.walk(x, st)
            return
        if k in ("arguments", "comprehension"):
            for x in f.values():
                self.walk(x, sub("?"))
            return
        if k in ("Add", "Sub", "Mult", "MatMult", "Div", "Mod", "Pow", "LShift", "RShift", "BitOr",
                 "BitXor", "BitAnd", "FloorDiv", "And", "Or", "Not", "Invert", "UAdd", "USub",
                 "Eq", "NotEq", "Lt", "LtE", "Gt", "GtE", "Is", "IsNot", "In", "NotIn"):
            return
        if k == "$Wrapper":
            return
        # unknown node kind: walk all fields in declaration order
        for x in f.values():
            if isinstance(x, V):
                self.walk(x, sub("?"))

    def _flatten(self, v):
        if v is None or is_none(v):
            return []
        if isinstance(v, PList):
            out = []
            for i in v.items:
                if isinstance(i, Rep):
                    out.extend(i.items)
                elif isinstance(i, Splice):
                    out.append(i.v)
                else:
                    out.append(i)
            return out
        return [v]

    def _name_desc(self, n):
        if isinstance(n, UPrim):
            return upath(n)
        if isinstance(n, Cst):
            return repr(n.value)
        return self.describe(n)


def events_of(result) -> tuple[list[Ev], SemWalker]:
    w = SemWalker()
    w.walk_result(result)
    return w.events, w


def iter_tnodes(v, seen=None):
    """All template nodes reachable from a value (structural, no semantics)."""
    seen = seen if seen is not None else set()
    stack = [v]
    while stack:
        x = stack.pop()
        if x is None or id(x) in seen:
            continue
        seen.add(id(x))
        if isinstance(x, TNode):
            yield x
            stack.extend(y for y in x.fields.values() if isinstance(y, (V, Rep, Splice)))
        elif isinstance(x, (PList, PTuple)):
            stack.extend(x.items)
        elif isinstance(x, Rep):
            stack.extend(x.items)
        elif isinstance(x, Splice):
            stack.append(x.v)
        elif isinstance(x, Transf):
            stack.append(x.inner)
        elif isinstance(x, PDict):
            for k, y in x.pairs:
                stack.append(y)
