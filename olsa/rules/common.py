"""Helpers shared by the rule modules."""
from __future__ import annotations

import re

from ..core import RuleResult
from ..semwalk import Ev, events_of, upath


def short_ctx(pr, limit=160):
    s = re.sub(r"<class [\w.]+:(\w+)>", r"\1", pr.ctx())
    return s if len(s) <= limit else s[:limit] + "..."


def nsp_of(pr):
    return pr.extra.get("nsp_cls", "?")


def norm_path(p: str) -> str:
    return re.sub(r"\[\*\d*\]", "[*]", p)


def kinds_label(kinds):
    return "|".join(sorted(kinds))


def exclusive(a: Ev, b: Ev) -> bool:
    """Two events lie in mutually exclusive branches (same test, opposite polarity)."""
    from ..semwalk import norm_guard

    ga = {}
    for g in a.guards:
        for h in (g, norm_guard(g)):
            ga.setdefault(h[1][1], set()).add(h[0])
    for g in b.guards:
        for pol, (_t, uid, _n) in (g, norm_guard(g)):
            if uid in ga and (not pol) in ga[uid]:
                return True
    return False


def path_events(pr):
    """(events, walker) of the result template of an ok path (cached on the path)."""
    if "events" not in pr.extra:
        pr.extra["events"] = events_of(pr.result)
    return pr.extra["events"]


def where_of(ev: Ev):
    return ev.site or ""


def all_templates(ctx):
    """Every emitted template known to engine T:
    yields (origin label, statement kind label, path result, template value)."""
    from ..extract import expr_wrapper_paths, helper_entries
    from ..interp import Interp
    from ..interp_base import Decisions

    T = ctx.tmpl
    for ci, kinds, entry in T.all_pending():
        for pr in entry.ok_paths():
            yield ci.name, kinds_label(pr.extra["node"].kinds), pr, pr.result
    root, leaves, glob = T.namespace_leaves()
    for ci in leaves:
        for m in ("get_assign", "get_load_name"):
            for pr in T.namespace_method(ci, m).ok_paths():
                yield f"{ci.name}.{m}", ci.name, pr, pr.result
    for name, entry in helper_entries(T).items():
        for pr in entry.ok_paths():
            yield name, name.split(":")[1], pr, pr.result
    for pr in cached(ctx, "expr_wrapper_paths", lambda: expr_wrapper_paths(T)):
        if pr.outcome == "ok":
            yield "get_expr_wrapper", "wrapper", pr, pr.result
    for name, val in preset_templates(ctx).items():
        yield f"preset:{name}", "preset", None, val


def cached(ctx, key, fn):
    store = ctx.__dict__.setdefault("_rule_cache", {})
    if key not in store:
        store[key] = fn()
    return store[key]


def preset_templates(ctx):
    """Module-level template objects of oneliner.presets (shared by all conversions)."""
    def build():
        from ..interp import Interp
        from ..interp_base import Decisions
        from ..vals import TNode

        out = {}
        it = Interp(ctx.prog, Decisions())
        for mname, mi in ctx.prog.modules.items():
            if not mname.startswith("oneliner.presets."):
                continue
            for name, b in mi.bindings.items():
                if b[0] == "assign":
                    try:
                        v = it.module_global(mi, name)
                    except Exception:
                        continue
                    if isinstance(v, TNode):
                        out[name] = v
        # a module-level node that is a PART of another one (a fragment named for readability: the
        # body of a helper lambda, ...) is not emitted on its own: its names are bound by the whole
        def contains(whole, part, seen=None, depth=0):
            seen = set() if seen is None else seen
            if id(whole) in seen or depth > 60:
                return False
            seen.add(id(whole))
            if whole is part:
                return True
            if isinstance(whole, TNode):
                return any(contains(x, part, seen, depth + 1) for x in whole.fields.values())
            for attr in ("items",):
                for x in getattr(whole, attr, None) or []:
                    if contains(x, part, seen, depth + 1):
                        return True
            for k, x in getattr(whole, "pairs", None) or []:
                if contains(k, part, seen, depth + 1) or contains(x, part, seen, depth + 1):
                    return True
            return False

        roots = {}
        for name, v in out.items():
            if not any(o is not v and contains(o, v) for o in out.values()):
                roots[name] = v
        return roots

    return cached(ctx, "preset_templates", build)
