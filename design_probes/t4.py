from p import run
run("""
class A:
    f = lambda self: 1
print(A().f())
""", True, False)
run("""
y = 3
class A:
    z = 2
    f = [y for _ in range(2)]
    g = lambda self: y
print(A.f, A().g())
""", True, False)
run("""
class A:
    n = 0
    for i in range(3):
        n += i
print(A.n, A.i)
""", True, True)
run("""
x = 'g'
class A:
    print(x)
    x = 'c'
    print(x)
print(x)
""", True, True)
run("""
x = 'g'
def f():
    x = 'l'
    def g():
        global x
        x = 'G2'
    g()
    return x
print(f(), x)
""", True, True)
