from p import run
run("import os.path\nprint(os.path.sep, os.getcwd() is not None)", False)
run("def f():\n    import os.path, sys as s\n    return os.path.sep, s.maxsize>0\nprint(f())", True)
run("import xml.dom.minidom\nprint(xml.dom.minidom.Node.__name__)\nimport xml.dom.minidom as m\nprint(m is xml.dom.minidom)", True)
