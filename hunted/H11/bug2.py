"""bug2: `python -m oneliner FILE` (stdout) and `python -m oneliner FILE -o OUT` do not produce the
same bytes.  -o always writes UTF-8; the stdout branch uses print(), i.e. the locale / IO encoding.
With a non-UTF-8 stdout encoding (simulated here with PYTHONIOENCODING=cp1252: the default of a
redirected stdout on Windows up to Python 3.14, or a latin-1 locale) `python -m oneliner f.py > out.py`
 * writes text that Python refuses to run ("Non-UTF-8 code ... but no encoding declared"), rc 0, or
 * dies with UnicodeEncodeError after the conversion succeeded,
although the very same call with -o works.  Both unparsers write non-ASCII characters raw.
Exit 1 while stdout bytes != -o bytes (+ newline)."""
import os
import shutil
import subprocess
import sys
import tempfile

REPO = os.environ["OLREPO"]
sys.path.insert(0, REPO)
import oneliner  # noqa: F401  (only to make sure the repo is importable)

td = tempfile.mkdtemp(dir=os.path.dirname(os.path.abspath(__file__)))
env = dict(os.environ, PYTHONPATH=REPO, PYTHONIOENCODING="cp1252")
bad = False
for label, src in {
    "latin-1 range": "hé = 'café'\nprint(ascii(hé))\n",
    "outside cp1252": "s = '中文'\nprint(ascii(s))\n",
}.items():
    for unparser in ("ast.unparse", "oneliner"):
        fn = os.path.join(td, "in.py")
        with open(fn, "w", encoding="utf8") as f:
            f.write(src)
        ref = subprocess.run([sys.executable, fn], capture_output=True)
        of = os.path.join(td, "out_file.py")
        so = os.path.join(td, "out_stdout.py")
        p_file = subprocess.run([sys.executable, "-m", "oneliner", fn, "-Cunparser=" + unparser, "-o", of],
                                capture_output=True, env=env)
        p_std = subprocess.run([sys.executable, "-m", "oneliner", fn, "-Cunparser=" + unparser],
                               capture_output=True, env=env)
        file_bytes = open(of, "rb").read() if p_file.returncode == 0 else None
        with open(so, "wb") as f:
            f.write(p_std.stdout)
        run_file = subprocess.run([sys.executable, of], capture_output=True)
        run_std = subprocess.run([sys.executable, so], capture_output=True)
        same = p_std.returncode == p_file.returncode == 0 and p_std.stdout == file_bytes + b"\n"
        if not same:
            bad = True
            print(f"[{label}, unparser={unparser}] stdout encoding cp1252")
            print("   -o OUT  : rc", p_file.returncode, "| python OUT ->", run_file.stdout, "(original:", ref.stdout, ")")
            if p_std.returncode:
                print("   stdout  : rc", p_std.returncode, "|", p_std.stderr.decode().strip().splitlines()[-1])
            else:
                print("   stdout  : rc 0, bytes differ from the -o file; python redirected_stdout.py ->",
                      run_std.stdout, run_std.stderr.decode().strip().splitlines()[-1][:90] if run_std.returncode else "")
shutil.rmtree(td, ignore_errors=True)
sys.exit(1 if bad else 0)
