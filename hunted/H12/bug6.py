"""bug6 (runtimes before 3.12 only): a converted loop body runs in a comprehension frame, so a recursive
function whose recursive call sits inside a `for`/`while` body needs 2 frames per level (3 inside two
nested loops...) instead of 1: a recursion that is fine in the script (depth 700 < 1000) raises
RecursionError in the converted text on 3.8 - 3.11. On 3.12+ (inlined comprehensions) both stop at 997."""
import sys, os, subprocess

sys.path.insert(0, os.environ["OLREPO"])
import oneliner
from oneliner.config import Configs

SRC = """def walk(n):
    if n == 0:
        return 0
    for lvi in range(1):
        r = walk(n - 1)
    return r + 1
print(walk(700))
"""
PYS = ["/root/.pyenv/versions/%s/bin/python" % v for v in ("3.8.18", "3.11.7", "3.12.1")]


def child(py, prog):
    p = subprocess.run(["bash", "-c", "ulimit -v 4000000; exec %s -" % py], input=prog, capture_output=True, text=True, timeout=120)
    return p.stdout.strip() or (p.stderr.strip().splitlines() or ["?"])[-1][:80]


bad = 0
for wrapper in ("list", "chain_call"):
    cfg = Configs()
    cfg.unparser, cfg.expr_wrapper = "oneliner", wrapper
    text = oneliner.convert_code_string(SRC, configs=cfg)
    for py in PYS:
        if not os.path.exists(py):
            continue
        a = child(py, SRC)
        b = child(py, "eval(%r, {'__name__': '__main__'})" % text)
        if a != b:
            bad += 1
        print("%-45s %-10s script: %-5s converted: %s" % (py, wrapper, a, b))
sys.exit(1 if bad else 0)
