import ast, sys
sys.path.insert(0,'/repo')
from oneliner.expr_unparse import expr_unparse
for s in ["f'{b\"x\"}'", "f'{x[\"a\"]}'", "f'''{x[\"a\"]!r:>{w[\"k\"]}}'''"]:
    t = ast.parse(s, mode='eval').body
    try:
        o = expr_unparse(t); 
        try: ast.parse(o, mode='eval'); r='reparse-ok'
        except SyntaxError as e: r='REPARSE-FAIL'
    except Exception as e: o='EXC '+repr(e); r=''
    print(sys.version_info[:2], s, '->', o, r)
