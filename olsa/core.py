"""Verdict / evidence / known-findings plumbing shared by all rules.

Exit codes: 0 = every obligation discharged or listed as a known finding,
1 = VIOLATION (a failed obligation that known_findings.json does not list),
2 = ANALYSIS-ERROR (the analyser could not model something; the repository is
not accused).
"""
from __future__ import annotations

import json
import os
import time
import traceback
from dataclasses import dataclass, field

VERIF = os.path.dirname(os.path.dirname(os.path.abspath(__file__)))
REPO = os.environ.get("OLSA_REPO", "/repo")
EVIDENCE_DIR = os.path.join(VERIF, "evidence")
REPLAY_DIR = os.path.join(VERIF, "replays")
KNOWN_FILE = os.path.join(VERIF, "known_findings.json")


class AnalysisError(Exception):
    """The analyser met something it cannot model (exit 2, never a verdict)."""


@dataclass
class Finding:
    rule: str  # e.g. "C06-R1"
    key: str  # stable key: rule|entry kind|field path|verdict kind
    msg: str  # human readable, with file:line
    where: str = ""  # file:line (function)
    detail: dict = field(default_factory=dict)


@dataclass
class RuleResult:
    rule: str
    title: str
    obligations: int = 0
    discharged: int = 0
    nontrivial: set = field(default_factory=set)
    findings: list = field(default_factory=list)
    samples: list = field(default_factory=list)
    instances: int = 0  # rule instances matched (sites)
    floor: int = 0  # minimum number of instances confirmed by hand
    notes: list = field(default_factory=list)
    exhaustive: bool = False

    def ok(self, what, nontrivial=True, sample=None):
        self.obligations += 1
        self.discharged += 1
        if nontrivial:
            self.nontrivial.add(what)
        if sample is not None and len(self.samples) < 4:
            self.samples.append(sample)
        elif len(self.samples) < 2:
            self.samples.append({"rule": self.rule, "obligation": what, "verdict": "holds"})

    def fail(self, key, msg, where="", what=None, **detail):
        self.obligations += 1
        self.nontrivial.add(what or key)
        # one finding per key (the same construct may fail in several contexts)
        for f in self.findings:
            if f.key == key:
                f.detail.setdefault("also", []).append(msg)
                return
        self.findings.append(Finding(self.rule, key, msg, where, detail))

    def note(self, text):
        if text not in self.notes:
            self.notes.append(text)


def load_known():
    if not os.path.exists(KNOWN_FILE):
        return {"known": [], "fixed": []}
    with open(KNOWN_FILE) as f:
        data = json.load(f)
    data.setdefault("known", [])
    data.setdefault("fixed", [])
    return data


class Report:
    def __init__(self, prop: str, tier: str, seed: int):
        self.prop = prop
        self.tier = tier
        self.seed = seed
        self.results: list[RuleResult] = []
        self.t0 = time.time()
        self.assumptions: list[str] = []
        self.extra: dict = {}
        self.explanation = ""
        self.analysis_errors: list[str] = []

    def add(self, rr: RuleResult):
        self.results.append(rr)

    def finish(self) -> int:
        known = load_known()
        known_keys = {}
        for k in known["known"]:
            # a key names one construct and one verdict; the same defect may be reported by the
            # checks of several properties (shared rules)
            known_keys[k["key"]] = k
        n_known = 0
        violations = []
        lines = []
        for rr in self.results:
            if rr.instances < rr.floor:
                self.analysis_errors.append(
                    f"{rr.rule}: matched {rr.instances} instances, fewer than the floor {rr.floor} "
                    "confirmed by hand (rule would pass vacuously)"
                )
            for f in rr.findings:
                if f.key in known_keys:
                    n_known += 1
                    lines.append(
                        f"KNOWN-FINDING: property={self.prop} {f.rule} {f.key}: {f.msg}"
                    )
                else:
                    violations.append(f)
        os.makedirs(EVIDENCE_DIR, exist_ok=True)
        replay_paths = []
        if violations:
            os.makedirs(REPLAY_DIR, exist_ok=True)
            for i, f in enumerate(violations):
                p = os.path.join(REPLAY_DIR, f"{self.prop}-{i}.json")
                with open(p, "w") as fh:
                    json.dump(
                        {
                            "property": self.prop,
                            "rule": f.rule,
                            "key": f.key,
                            "where": f.where,
                            "message": f.msg,
                            "detail": f.detail,
                            "replay": f"/venv/bin/python -m olsa check {self.prop} --tier {self.tier} --only {f.rule}",
                        },
                        fh,
                        indent=1,
                        default=str,
                    )
                replay_paths.append(p)
        obligations = sum(r.obligations for r in self.results)
        discharged = sum(r.discharged for r in self.results)
        nontrivial = set()
        for r in self.results:
            nontrivial |= {(r.rule, x) for x in r.nontrivial}
        samples = []
        for r in self.results:
            samples.extend(r.samples[:2])
        for f in violations[:5]:
            samples.append({"rule": f.rule, "key": f.key, "verdict": "VIOLATION", "message": f.msg})
        wall = time.time() - self.t0
        coverage = {
            "explanation": self.explanation
            or "static rules over the parsed source of /repo (see DESIGN.md)",
            "evaluations": obligations,
            "distinct_nontrivial": len(nontrivial),
            "rule": "one evaluation = one obligation (rule x construct x context) decided from the "
            "parsed source; distinct_nontrivial counts distinct (rule, construct) subjects "
            "whose verdict depends on repository code (not on constants of the checker)",
            "samples": samples[:12] or [{"note": "no obligations"}],
            "obligations": obligations,
            "discharged": discharged,
            "known_findings": n_known,
            "exhaustive": all(r.exhaustive for r in self.results) if self.results else False,
            "rule_instances": {
                r.rule: {"title": r.title, "instances": r.instances, "floor": r.floor,
                         "obligations": r.obligations, "failed": len(r.findings)}
                for r in self.results
            },
            "notes": [n for r in self.results for n in r.notes][:40],
        }
        coverage.update(self.extra)
        ev = {
            "property_id": self.prop,
            "tier": self.tier,
            "seed": self.seed,
            "level": "other",
            "coverage": coverage,
            "assumptions": self.assumptions,
            "wall_s": round(wall, 3),
            "violations": len(violations),
        }
        if self.analysis_errors:
            ev["coverage"]["analysis_errors"] = self.analysis_errors
        with open(os.path.join(EVIDENCE_DIR, f"{self.prop}.json"), "w") as fh:
            json.dump(ev, fh, indent=1, default=str)
        for r in self.results:
            print(
                f"[{r.rule}] {r.title}: instances={r.instances} (floor {r.floor}) "
                f"obligations={r.obligations} discharged={r.discharged} findings={len(r.findings)}"
            )
        for ln in lines:
            print(ln)
        # a rule that could not model something does not silence the verdict of the rules that could
        for e in self.analysis_errors:
            print(f"ANALYSIS-ERROR property={self.prop} {e}")
        if violations:
            for f, p in zip(violations, replay_paths):
                print(f"  {f.rule} {f.key}: {f.msg}")
                print(f"VIOLATION property={self.prop} replay={p}")
            return 1
        if self.analysis_errors:
            return 2
        print(
            f"OK property={self.prop} tier={self.tier} obligations={obligations} "
            f"discharged={discharged} known_findings={n_known} wall={wall:.2f}s"
        )
        return 0


def run_guarded(fn):
    """Map tracebacks to exit 2 so that an analyser bug is never read as a verdict."""
    try:
        return fn()
    except AnalysisError as e:
        print(f"ANALYSIS-ERROR {e}")
        return 2
    except SystemExit:
        raise
    except BaseException:
        traceback.print_exc()
        print("ANALYSIS-ERROR internal error in the analyser (traceback above)")
        return 2
