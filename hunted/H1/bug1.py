"""for-loop variable read through the namespace machinery -> KeyError

A `for` statement is emitted as a list comprehension whose target is the
original (untransformed) target, i.e. the loop variable is a plain comprehension
variable.  Loads of that name in the body are still routed through
Namespace.get_load_name().  Inside a function, as soon as the loop variable is
captured by a nested def / class / generator expression, get_load_name() answers
`__ol_nonlocal_xxx['i']` - a dict slot nobody ever writes -> KeyError at run time.
Run: OLREPO=/path/to/checkout python bug1.py   (exit status 1 = defect shows)
"""
import os, sys; sys.path.insert(0, os.environ["OLREPO"])
import contextlib, io, itertools

import oneliner
from oneliner.config import Configs

SRC = 'def bigger(lst, limit):\n    for i in range(limit):\n        print(i, any(x > i for x in lst))\nbigger([1, 2], 3)\n'


def all_configs():
    for u, w, s in itertools.product(
        ("ast.unparse", "oneliner"), ("list", "chain_call"), ("if_expr", "short_circuit")
    ):
        c = Configs()
        c.unparser, c.expr_wrapper, c.if_style = u, w, s
        yield (u, w, s), c


def run(fn):
    buf, exc = io.StringIO(), None
    try:
        with contextlib.redirect_stdout(buf):
            fn()
    except BaseException as e:  # noqa
        exc = type(e).__name__ + ": " + str(e)[:80]
    return buf.getvalue(), exc


expected = run(lambda: exec(compile(SRC, "<orig>", "exec"), {"__name__": "__main__"}))
print("original :", expected)
bad = 0
for name, cfg in all_configs():
    try:
        text = oneliner.convert_code_string(SRC, configs=cfg)
    except BaseException as e:  # noqa
        print(name, "CONVERSION FAILED:", type(e).__name__, e)
        bad += 1
        continue
    got = run(lambda: eval(compile(text, "<conv>", "eval"), {"__name__": "__main__"}))
    if got[0] != expected[0] or (got[1] is None) != (expected[1] is None):
        print(name, "converted:", got)
        bad += 1
print("DEFECT SHOWS in %d of 8 option combinations" % bad if bad else "ok (no difference)")
sys.exit(1 if bad else 0)
