"""bug4: `python -m oneliner FILE -o OUT` opens OUT with mode "w" (truncating it) and only then
encodes / writes the text.  When the write fails, OUT is left empty or partial and the exit code is 1
- and when OUT is FILE (in-place conversion, which otherwise works) the user's source is destroyed.
Two independent triggers:
  A. an I/O error while writing (file size limit here; a full disk behaves the same),
  B. output text that cannot be encoded as UTF-8 (lone surrogate from the default unparser, see bug3).
In case B the stdout branch in a C/POSIX locale (stdout error handler `surrogateescape`) does not
fail at all: rc 0 and a byte sequence that is not valid UTF-8 source.
Exit 1 while a failed in-place run leaves FILE different from the original."""
import os
import resource
import shutil
import subprocess
import sys
import tempfile

REPO = os.environ["OLREPO"]
sys.path.insert(0, REPO)
import oneliner  # noqa: F401

td = tempfile.mkdtemp(dir=os.path.dirname(os.path.abspath(__file__)))
env = dict(os.environ, PYTHONPATH=REPO)
bad = False


def limit():
    resource.setrlimit(resource.RLIMIT_FSIZE, (16, 16))


CASES = {
    "A: write error (RLIMIT_FSIZE=16 bytes)": ("total = 0\nfor i in range(10):\n    total += i\nprint(total)\n", limit),
    "B: unencodable output (default unparser)": ("x = 1\nprint(ascii(f'{x:\\udc80>3}'))\n", None),
}
for label, (src, pre) in CASES.items():
    fn = os.path.join(td, "script.py")
    with open(fn, "w", encoding="utf8") as f:
        f.write(src)
    p = subprocess.run([sys.executable, "-m", "oneliner", fn, "-o", fn], capture_output=True, env=env, preexec_fn=pre)
    after = open(fn, "rb").read()
    if p.returncode != 0 and after != src.encode("utf8"):
        bad = True
        print(f"[{label}] python -m oneliner script.py -o script.py")
        print("   rc", p.returncode, "|", p.stderr.decode().strip().splitlines()[-1][:110])
        print(f"   script.py before: {len(src)} bytes; after the failed run: {len(after)} bytes {after[:40]!r}")
    if pre is None:
        fn2 = os.path.join(td, "s2.py")
        with open(fn2, "w", encoding="utf8") as f:
            f.write(src)
        q = subprocess.run([sys.executable, "-m", "oneliner", fn2], capture_output=True, env=dict(env, LC_ALL="C"))
        try:
            q.stdout.decode("utf8")
        except UnicodeDecodeError as e:
            print("   same script to stdout (LC_ALL=C): rc", q.returncode, "but stdout is not valid UTF-8:", e)
shutil.rmtree(td, ignore_errors=True)
sys.exit(1 if bad else 0)
