"""locals() / eval() / exec() / vars() / dir() inside a converted loop body see the frame of the
list comprehension the loop was turned into, not the scope the statement was written in.

Every `for`/`while` body becomes the element expression of a list comprehension.  On
Python 3.8 - 3.11 a comprehension is a function of its own, so inside a loop body
`locals()` only contains `.0`, the loop variable and the cells the comprehension happens
to close over; `eval("a + b")` raises NameError.  At module level the same happens
(`locals()` is no longer `globals()`), there also on 3.13.  Only 3.12 gives the original result.
(The project already special-cases zero-argument super() for exactly this reason -
"converter-built frames" - but the other frame-introspecting builtins are not handled.)

The text is produced on the host interpreter and evaluated with the other interpreters
found under ~/.pyenv/versions (override with OLPYTHONS="py1:py2").
Run: OLREPO=/path/to/checkout python bug5.py   (exit status 1 = defect shows)
"""
import os, sys; sys.path.insert(0, os.environ["OLREPO"])
import glob, itertools, json, subprocess, tempfile

import oneliner
from oneliner.config import Configs

SRC = '''def report(a):
    b = 2
    for i in range(1):
        print("{a} {b} {i}".format(**locals()))
        print(eval("a + b"))
report(1)
greeting = "hello"
for j in range(1):
    print("{greeting} {j}".format(**locals()))
'''
EXPECTED = "1 2 0\n3\nhello 0\n"

RUNNER = r'''
import sys, json, io, contextlib
res = []
for text in json.load(open(sys.argv[1])):
    buf, exc = io.StringIO(), None
    try:
        with contextlib.redirect_stdout(buf):
            eval(compile(text, "<conv>", "eval"), {"__name__": "__main__"})
    except BaseException as e:
        exc = type(e).__name__ + ": " + str(e)[:60]
    res.append([buf.getvalue(), exc])
print(json.dumps(res))
'''

names, texts = [], []
for u, w, s in itertools.product(
    ("ast.unparse", "oneliner"), ("list", "chain_call"), ("if_expr", "short_circuit")
):
    c = Configs()
    c.unparser, c.expr_wrapper, c.if_style = u, w, s
    names.append((u, w, s))
    texts.append(oneliner.convert_code_string(SRC, configs=c))

if os.environ.get("OLPYTHONS"):
    pythons = os.environ["OLPYTHONS"].split(":")
else:
    pythons = sorted(
        p
        for p in glob.glob(os.path.expanduser("~/.pyenv/versions/3.*/bin/python"))
        if int(p.split("/versions/3.")[1].split(".")[0]) >= 8
    )
pythons.append(sys.executable)

with tempfile.TemporaryDirectory() as d:
    jf, rf = os.path.join(d, "t.json"), os.path.join(d, "r.py")
    json.dump(texts, open(jf, "w"))
    open(rf, "w").write(RUNNER)
    bad = 0
    for py in pythons:
        r = subprocess.run([py, rf, jf], capture_output=True, text=True)
        if r.returncode:
            print(py, "runner failed", r.stderr[-200:])
            continue
        res = json.loads(r.stdout)
        wrong = [(n, got) for n, got in zip(names, res) if got != [EXPECTED, None]]
        print(py, "->", "%d of 8 texts differ" % len(wrong), wrong[0][1] if wrong else "")
        bad += bool(wrong)
print("DEFECT SHOWS on %d interpreters" % bad if bad else "ok (no difference)")
sys.exit(1 if bad else 0)
