"""C03 - the custom unparser round-trips every expression tree (decided on its
tables: catalogue, field coverage, parenthesisation sufficiency, special cases,
token skeletons, converter-emitted shapes)."""
from __future__ import annotations

import ast
import re

from ..core import AnalysisError, RuleResult
from ..reference import asdl
from ..reference import grammar as G
from ..semwalk import iter_tnodes
from ..ustr import hole_field
from ..vals import Cst, Hole, PList, Rep, Splice, Str, StrOp, Sym, TNode, Transf, UNode, UPrim, Unknown
from .common import all_templates, short_ctx

EXPLANATION = (
    "The unparser is tables plus a three-line driver, so the parenthesisation argument is a finite "
    "check. Engine Ustr (the abstract interpreter with a string-template domain) extracts, for each "
    "node kind, the (slot precedence, child field) pairs its generator yields and the decision tree "
    "of returned token skeletons; the precedence of every child variant comes from an abstract run "
    "of get_node_precedence; the comparison that adds parentheses is extracted from the driver. "
    "C03-R1 catalogue (every ast.expr subclass has a generator and a precedence); C03-R2 every field "
    "with run-time meaning is consumed; C03-R3 for every slot x every child variant legal there: "
    "grammar_needs_parens => the driver wraps (reference: Grammar/python.gram, as tightness ranks; "
    "strict hierarchy => local sufficiency composes to all depths by induction); C03-R4 the "
    "non-hierarchical corners; C03-R5 token skeleton of each generator against the reference "
    "skeleton; C03-R6 shapes the converter emits lie inside the checked space."
)
ASSUMPTIONS = [
    "CPython's parser implements the reference grammar (trusted)",
    "literal fidelity is C04's",
]


def _variants():
    out = []
    for k in asdl.EXPR_KINDS:
        if k == "BinOp":
            out += [f"BinOp:{o}" for o in asdl.OPERATOR_KINDS]
        elif k == "BoolOp":
            out += [f"BoolOp:{o}" for o in asdl.BOOLOP_KINDS]
        elif k == "UnaryOp":
            out += [f"UnaryOp:{o}" for o in asdl.UNARYOP_KINDS]
        else:
            out.append(k)
    return out


def rule_r1(ctx):
    rr = RuleResult("C03-R1", "every expression kind has a generator and a precedence")
    rr.exhaustive = True
    rr.floor = 27
    U = ctx.ustr
    prec = U.node_precedences()
    for k in asdl.EXPR_KINDS:
        rr.instances += 1
        what = f"catalogue|{k}"
        if k not in U.gen_map:
            rr.fail(f"C03-R1|{k}|no-generator", f"oneliner/expr_unparse.py: {U.gen_map_where} has no generator for ast.{k}: the node is rendered as an empty string (unparse_generic)", what=what)
        else:
            rr.ok(what)
    for v in _variants():
        rr.instances += 1
        what = f"precedence|{v}"
        p = prec.get(v)
        if not isinstance(p, int):
            rr.fail(f"C03-R1|{v}|no-precedence", f"oneliner/expr_unparse.py: get_node_precedence yields {p!r} for {v}", what=what)
        else:
            rr.ok(what, sample={"rule": "C03-R1", "variant": v, "precedence": p})
    return rr


def _expr_fields(kind):
    """[(field path, asdl type, quantifier)] of expr-typed fields, through product types."""
    out = []
    for f, (t, q) in asdl.FIELDS[kind].items():
        if t == "expr":
            out.append(((f,), q))
        elif t in ("arguments", "comprehension", "keyword"):
            for f2, (t2, q2) in asdl.FIELDS[t].items():
                if t2 == "expr":
                    out.append(((f, f2), q2))
    return out


def _hole_fields(pr):
    out = []
    for h in pr.holes:
        ch = hole_field(h)
        if ch is not None:
            out.append((tuple(f for f, _i in ch), h))
    return out


def rule_r2(ctx):
    rr = RuleResult("C03-R2", "every field with run-time meaning is consumed by its generator")
    rr.exhaustive = True
    rr.floor = 60
    U = ctx.ustr
    for kind in asdl.EXPR_KINDS:
        paths = [p for p in U.paths(kind) if p.outcome == "ok"]
        if not paths:
            continue
        yielded = set()
        for p in paths:
            for fp, h in _hole_fields(p):
                yielded.add(fp)
        node_reads = set()
        for p in paths:
            for f, v in p.extra["node"].fields.items():
                if isinstance(v, UNode):
                    node_reads |= {(f, g) for g in v.fields}
        for fp, q in _expr_fields(kind):
            rr.instances += 1
            what = f"{kind}|{'.'.join(fp)}"
            if fp in yielded or any(y[: len(fp)] == fp for y in yielded) or (kind == "NamedExpr" and fp == ("target",) and ("target", "id") in node_reads):
                rr.ok(what)
            else:
                rr.fail(f"C03-R2|{kind}|{'.'.join(fp)}|never-yielded", f"{U.gen_map[kind].where()}: the expression field {kind}.{'.'.join(fp)} is never yielded to the driver: it is missing from the text", where=U.gen_map[kind].where(), what=what)
        # once per path
        for p in paths:
            seen = {}
            for fp, h in _hole_fields(p):
                key = (fp, tuple(i for _f, i in hole_field(h)))
                seen[key] = seen.get(key, 0) + 1
            dup = [k for k, n in seen.items() if n > 1]
            if dup:
                rr.fail(f"C03-R2|{kind}|{'.'.join(dup[0][0])}|yielded-twice", f"{U.gen_map[kind].where()}: field {'.'.join(dup[0][0])} is yielded more than once on one path [{short_ctx(p, 80)}]", what=f"{kind}|dup")
        # non-expr fields with run-time meaning must be read
        read = set()
        for p in paths:
            read |= set(p.extra["node"].fields)
            for f, v in p.extra["node"].fields.items():
                if isinstance(v, UNode):
                    read |= {f"{f}.{g}" for g in v.fields}
                elif hasattr(v, "_elems"):
                    for e in v._elems.values():
                        if isinstance(e, UNode):
                            read |= {f"{f}.{g}" for g in e.fields}
        for f, (t, q) in asdl.FIELDS[kind].items():
            if f in asdl.NO_RUNTIME_MEANING or t == "expr":
                continue
            rr.instances += 1
            what = f"{kind}|{f}"
            if f in read:
                rr.ok(what)
            else:
                rr.fail(f"C03-R2|{kind}|{f}|never-read", f"{U.gen_map[kind].where()}: field {kind}.{f} is never read by the generator: it is lost in the text (e.g. `f'{{x!r}}'` becomes `f'{{x}}'`)", where=U.gen_map[kind].where(), what=what)
            if t in ("arguments", "comprehension", "keyword"):
                for f2, (t2, q2) in asdl.FIELDS[t].items():
                    if f2 in asdl.NO_RUNTIME_MEANING or t2 == "expr":
                        continue
                    rr.instances += 1
                    if f"{f}.{f2}" in read:
                        rr.ok(f"{kind}|{f}.{f2}")
                    else:
                        rr.fail(f"C03-R2|{kind}|{f}.{f2}|never-read", f"{U.gen_map[kind].where()}: field {kind}.{f}.{f2} is never read by the generator", what=f"{kind}|{f}.{f2}")
    return rr


def _slot_of(kind, pr, h):
    """(slot kind, slot field, op, sole_call_arg) for a hole of a generator path."""
    ch = hole_field(h)
    if ch is None:
        return None
    fields = [f for f, _i in ch]
    node = pr.extra["node"]
    op = None
    if kind in ("BinOp", "BoolOp", "UnaryOp"):
        o = node.fields.get("op")
        if o is not None and len(o.kinds) == 1:
            op = next(iter(o.kinds))
    skind, sfield = kind, fields[0]
    if fields[0] == "generators":
        skind, sfield = "comprehension", fields[1]
    elif fields[0] == "args" and kind == "Lambda":
        skind, sfield = "Lambda", "defaults"
    elif fields[0] == "keywords" and kind == "Call":
        star = any(k.startswith("isnone:") and "keyword.arg" in k and v is True for k, v in pr.assign.items())
        sfield = "keywords**" if star else "keywords"
    elif kind == "Dict" and fields[0] == "values":
        star = any(k.startswith("isnone:") and "Dict.keys" in k and v is True for k, v in pr.assign.items())
        sfield = "values**" if star else "values"
    sole = False
    if kind == "Call" and fields[0] == "args":
        a1 = any(k.startswith("cmp:len(Call.args)==1") and v is True for k, v in pr.assign.items())
        k0 = any(k.startswith("cmp:len(Call.keywords)==0") and v is True for k, v in pr.assign.items())
        sole = a1 and k0
    return skind, sfield, op, sole


def _slot_prec(h):
    return h.prec.value if isinstance(h.prec, Cst) and isinstance(h.prec.value, int) else None


def _check_pairs(ctx, rr, rule_id, floor38):
    U = ctx.ustr
    prec = U.node_precedences()
    variants = [v for v in _variants() if v.split(":")[0] not in G.SPECIAL_CHILDREN]
    seen_slots = set()
    n_pairs = 0
    for kind in asdl.EXPR_KINDS:
        if kind in ("JoinedStr",):
            continue
        for pr in U.paths(kind):
            if pr.outcome != "ok":
                continue
            for h in pr.holes:
                slot = _slot_of(kind, pr, h)
                if slot is None:
                    continue
                skind, sfield, op, sole = slot
                if skind == "FormattedValue" and sfield == "format_spec":
                    continue  # the children of a spec are FormattedValue/Constant parts, not expressions
                sp = _slot_prec(h)
                key = (skind, sfield, op, sole, sp, kind)
                if key in seen_slots:
                    continue
                seen_slots.add(key)
                rr.instances += 1
                slot_name = f"{skind}.{sfield}" + (f"[{op}]" if op else "") + ("[sole-arg]" if sole else "")
                if sp is None:
                    rr.fail(f"{rule_id}|{slot_name}|slot-precedence-unknown", f"{h.site}: the slot precedence of {slot_name} is not a constant ({h.prec!r})", what=f"slot|{slot_name}")
                    continue
                mr = G.min_rank(skind, sfield, op, floor38=floor38)
                if mr is None:
                    raise AnalysisError(f"{rule_id}: the grammar oracle has no entry for slot {slot_name}")
                for v in variants:
                    if skind == "comprehension" and sfield == "target" and v not in ("Name", "Tuple", "List", "Attribute", "Subscript"):
                        continue  # only target-shaped nodes are legal there
                    n_pairs += 1
                    cp = prec.get(v)
                    if not isinstance(cp, int):
                        continue
                    needs = G.RANK[v] < mr
                    if skind == "FormattedValue" and v == "Lambda":
                        needs = True
                    if skind == "FormattedValue" and v in ("Yield", "YieldFrom"):
                        needs = False
                    wraps = U.wraps(cp, sp)
                    what = f"{slot_name}|{v}"
                    if needs and not wraps:
                        rr.fail(
                            f"{rule_id}|{slot_name}|{v}|missing-parentheses",
                            f"{h.site} ({U.gen_map[kind].qualname}): child {v} (precedence {cp}) in slot {slot_name} (slot precedence {sp}) is printed WITHOUT parentheses, but the {'3.8 ' if floor38 else ''}grammar needs them (child rank {G.RANK[v]} < slot minimum {mr}): the text parses to a different tree or not at all",
                            where=h.site, what=what,
                        )
                    else:
                        rr.ok(what, sample={"rule": rule_id, "slot": slot_name, "slot_prec": sp, "child": v, "child_prec": cp, "needs_parens": needs, "wraps": wraps})
                # special children
                gp = prec.get("GeneratorExp")
                if isinstance(gp, int) and not (skind == "comprehension" and sfield == "target"):
                    needs = not sole
                    wraps = U.wraps(gp, sp)
                    what = f"{slot_name}|GeneratorExp"
                    n_pairs += 1
                    if needs and not wraps:
                        rr.fail(f"{rule_id}|{slot_name}|GeneratorExp|missing-parentheses", f"{h.site}: a bare generator expression in slot {slot_name} is printed without parentheses (only valid as the sole call argument)", where=h.site, what=what)
                    else:
                        rr.ok(what)
                for sc, legal in (("Starred", G.STARRED_LEGAL), ("Slice", G.SLICE_LEGAL)):
                    if (skind, sfield) in legal:
                        cp = prec.get(sc)
                        n_pairs += 1
                        what = f"{slot_name}|{sc}"
                        if isinstance(cp, int) and U.wraps(cp, sp):
                            rr.fail(f"{rule_id}|{slot_name}|{sc}|parenthesised", f"{h.site}: {sc} in slot {slot_name} would be wrapped in parentheses (`(*a)` / `(1:2)` is a syntax error)", where=h.site, what=what)
                        else:
                            rr.ok(what)
    rr.note(f"{len(seen_slots)} slots x child variants = {n_pairs} pairs enumerated")
    return rr


def rule_r3(ctx):
    rr = RuleResult("C03-R3", "parenthesisation is sufficient for every (slot, child variant) pair")
    rr.exhaustive = True
    rr.floor = 60
    return _check_pairs(ctx, rr, "C03-R3", floor38=False)


# ------------------------------------------------------------------ skeletons
OPERATOR_TEXT = {
    "Add": "+", "Sub": "-", "Mult": "*", "MatMult": "@", "Div": "/", "FloorDiv": "//", "Mod": "%",
    "Pow": "**", "LShift": "<<", "RShift": ">>", "BitOr": "|", "BitXor": "^", "BitAnd": "&",
    "And": "and", "Or": "or", "Not": "not", "UAdd": "+", "USub": "-", "Invert": "~",
    "Eq": "==", "NotEq": "!=", "Lt": "<", "LtE": "<=", "Gt": ">", "GtE": ">=", "Is": "is",
    "IsNot": "is not", "In": "in", "NotIn": "not in",
}


def render(v):
    """Skeleton text of an abstract string: holes as <field>, joins as [item SEP ...]."""
    if isinstance(v, str):
        return v
    if isinstance(v, Cst):
        return str(v.value)
    if isinstance(v, Hole):
        ch = hole_field(v)
        return "<" + ".".join(f for f, _i in ch) + ">" if ch else "<?>"
    if isinstance(v, UPrim):
        return "<" + v.field + ">"
    if isinstance(v, Str):
        return "".join(render(p) for p in v.parts)
    if isinstance(v, StrOp):
        if v.op == "joinrep":
            sep, rep = v.args
            return "[" + "".join(render(i) for i in rep.items) + render(sep) + "...]"
        if v.op == "joinsplice":
            return "[" + render(v.args[1]) + render(v.args[0]) + "...]"
        if v.op == "join":
            return "[" + render(v.args[1]) + render(v.args[0]) + "...]"
        return f"{v.op}(" + ",".join(render(a) if not isinstance(a, (int, type(None))) else repr(a) for a in v.args) + ")"
    if isinstance(v, Unknown):
        return "{" + v.desc + "}"
    if isinstance(v, Rep):
        return "".join(render(i) for i in v.items)
    if isinstance(v, TNode) and v.kind == "$Index":
        return "<item>"
    if isinstance(v, TNode) and v.kind in ("$InsertAt", "$SetItem"):
        return render(v.fields["value"])
    if isinstance(v, PList):
        return "".join(render(i) for i in v.items)
    return "{" + type(v).__name__ + "}"


def toks(s):
    """Token sequence: words, operators, placeholders; whitespace dropped."""
    return re.findall(r"<[^>]*>|\{[^}]*\}|\[|\]|\.\.\.|[A-Za-z_]+|\*\*|//|<<|>>|==|!=|<=|>=|:=|[^\sA-Za-z_]", s)


REF_SKELETON = {
    "IfExp": "<body> if <test> else <orelse>",
    "Subscript": "<value>[<slice>]",
    "Starred": "*<value>",
    "Await": "await <value>",
    "YieldFrom": "yield from <value>",
    "NamedExpr": "<id>:=<value>",
    "List": "[[<elts>,...]]",
    "Set": "{[<elts>,...]}",
}
COMP_BRACKETS = {"ListComp": ("[", "]", "<elt>"), "SetComp": ("{", "}", "<elt>"), "GeneratorExp": ("", "", "<elt>"), "DictComp": ("{", "}", "<key>:<value>")}


def _keyword_spacing_ok(text):
    """Keyword tokens must be separated from holes/placeholders by whitespace."""
    for kw in ("if", "else", "for", "in", "and", "or", "not", "is", "lambda", "await", "yield", "from", "async"):
        for m in re.finditer(r"(?<![A-Za-z_])" + kw + r"(?![A-Za-z_])", text):
            before = text[: m.start()]
            after = text[m.end():]
            if before.endswith(">") or before.endswith("}") or before.endswith("]"):
                return False, kw
            if after.startswith("<") or after.startswith("{") or after.startswith("["):
                if kw not in ("lambda",):
                    return False, kw
    return True, None


def rule_r5(ctx):
    rr = RuleResult("C03-R5", "token skeleton of each generator equals the reference skeleton of its kind")
    rr.floor = 40
    U = ctx.ustr

    def compare(kind, pr, got, want, what):
        ok_sp, kw = _keyword_spacing_ok(got)
        if toks(got) != toks(want):
            rr.fail(f"C03-R5|{kind}|skeleton", f"{U.gen_map[kind].where()}: renders `{got}`, the reference skeleton is `{want}` [{short_ctx(pr, 80)}]", where=U.gen_map[kind].where(), what=what)
        elif not ok_sp:
            rr.fail(f"C03-R5|{kind}|keyword-spacing", f"{U.gen_map[kind].where()}: keyword `{kw}` touches an operand in `{got}`", where=U.gen_map[kind].where(), what=what)
        else:
            rr.ok(what, sample={"rule": "C03-R5", "kind": kind, "skeleton": got})

    for kind in asdl.EXPR_KINDS:
        for pr in U.paths(kind):
            if pr.outcome != "ok":
                continue
            node = pr.extra["node"]
            got = render(pr.result)
            what = f"{kind}|{short_ctx(pr, 100)}"
            if kind in ("BinOp", "BoolOp", "UnaryOp"):
                rr.instances += 1
                o = node.fields.get("op")
                op = next(iter(o.kinds)) if o is not None and len(o.kinds) == 1 else None
                if op is None:
                    rr.fail(f"C03-R5|{kind}|operator-not-consulted", f"{U.gen_map[kind].where()}: the operator is not consulted on this path", what=what)
                    continue
                t = OPERATOR_TEXT[op]
                want = {"BinOp": f"<left>{t}<right>", "BoolOp": f"[<values> {t} ...]", "UnaryOp": f"{t} <operand>" if op == "Not" else f"{t}<operand>"}[kind]
                compare(kind, pr, got, want, what)
            elif kind == "Compare":
                rr.instances += 1
                ops = None
                for k, v in pr.assign.items():
                    if k.startswith("kind:") and "ops" in k:
                        ops = v
                if ops is None:
                    rr.fail("C03-R5|Compare|operator-not-consulted", "unparse_Compare does not look up the comparison operator", what=what)
                    continue
                want_op = OPERATOR_TEXT[ops]
                if got.replace(" ", "") == f"<left>[{want_op.replace(' ', '')}<comparators>...]":
                    # operator text must sit between the operands, whitespace-separated if a word
                    txt = got
                    m = re.search(r"\[?\(?\s*(" + re.escape(want_op) + r")\s*", txt)
                    if want_op[0].isalpha() and f" {want_op} " not in txt:
                        rr.fail("C03-R5|Compare|keyword-spacing", f"comparison operator `{want_op}` is not surrounded by spaces in `{got}`", what=what)
                    else:
                        rr.ok(what, sample={"rule": "C03-R5", "kind": "Compare", "op": ops, "skeleton": got[:80]})
                else:
                    rr.fail(f"C03-R5|Compare|{ops}|skeleton", f"unparse_Compare renders `{got}` for ast.{ops}; expected `<left>{want_op}<comparator>...`", what=what)
            elif kind in COMP_BRACKETS:
                rr.instances += 1
                ob, cb, head = COMP_BRACKETS[kind]
                flat = got.replace(" ", "")
                is_async = any("is_async" in k and v is True for k, v in pr.assign.items())
                if any(k.startswith("nonempty:") and "ifs" in k and v is False for k, v in pr.assign.items()):
                    # context: no conditions - the (empty) join renders nothing
                    got = re.sub(r"\[<generators\.ifs>[^\]]*\]", "", got)
                    flat = got.replace(" ", "")
                has_ifs = "<generators.ifs>" in got
                bad = None
                if not (flat.startswith(ob + head) and flat.endswith(cb)):
                    bad = f"must be `{ob}{head} for ... in ...{cb}`"
                elif not re.search(r"for <generators\.target> in <generators\.iter>", got):
                    bad = "clause is not `for <target> in <iter>`"
                elif is_async and not re.search(r"async for <generators\.target>", got):
                    bad = "an asynchronous clause is rendered without `async`"
                elif not is_async and "async" in got:
                    bad = "`async` is emitted for a synchronous clause"
                elif has_ifs and not re.search(r"<generators\.iter>.* if .*<generators\.ifs>", got):
                    bad = "conditions are not rendered as ` if <cond>` after the iterable"
                elif not re.search(re.escape(head.split(":")[-1]) + r" .*for ", got):
                    bad = "no whitespace between the element and `for`"
                if bad:
                    rr.fail(f"C03-R5|{kind}|skeleton", f"{U.gen_map[kind].where()}: renders `{got}`: {bad} [{short_ctx(pr, 80)}]", where=U.gen_map[kind].where(), what=what)
                else:
                    rr.ok(what, sample={"rule": "C03-R5", "kind": kind, "skeleton": got[:100]})
            elif kind == "Subscript":
                rr.instances += 1
                flat = got.replace(" ", "")
                one = any(k.startswith("cmp:len(") and "elts" in k and k.endswith("==1") and v is True for k, v in pr.assign.items())
                # plain index, or a bare index tuple (needed when it contains slices): a one-element
                # bare tuple needs its trailing comma
                if flat == "<value>[<slice>]":
                    rr.ok(what, sample={"rule": "C03-R5", "kind": "Subscript", "skeleton": got})
                elif flat == "<value>[[<slice.elts>,...]]" and not one:
                    rr.ok(what, sample={"rule": "C03-R5", "kind": "Subscript", "skeleton": got})
                elif flat == "<value>[[<slice.elts>,...],]" and one:
                    rr.ok(what, sample={"rule": "C03-R5", "kind": "Subscript", "skeleton": got})
                else:
                    rr.fail("C03-R5|Subscript|skeleton", f"{U.gen_map[kind].where()}: renders `{got}`; expected `<value>[<slice>]` or a bare index tuple `<value>[<e>,...]` (with a trailing comma iff it has one element) [{short_ctx(pr, 80)}]", where=U.gen_map[kind].where(), what=what)
            elif kind in REF_SKELETON:
                rr.instances += 1
                want = REF_SKELETON[kind]
                g2 = re.sub(r"\[(async )?for <generators\.target> in <generators\.iter>.*?\.\.\.\]", "[GEN ...]", got)
                g2 = re.sub(r"\[\{[^}]*\}for <generators\.target> in <generators\.iter>.*?\.\.\.\]", "[GEN ...]", g2)
                compare(kind, pr, g2, want, what)
            elif kind == "Attribute":
                rr.instances += 1
                if toks(got) in (toks("<value>.<attr>"), toks("(<value>).<attr>"), toks("<value> .<attr>")):
                    rr.ok(what)
                else:
                    rr.fail("C03-R5|Attribute|skeleton", f"unparse_Attribute renders `{got}`", what=what)
            elif kind == "Slice":
                rr.instances += 1
                present = [f for f in ("lower", "upper", "step") if f in node.fields and not node.fields[f].is_none]
                want = ("<lower>" if "lower" in present else "") + ":" + ("<upper>" if "upper" in present else "") + ((":" + "<step>") if "step" in present else "")
                alt = ("<lower>" if "lower" in present else "") + ":" + ("<upper>" if "upper" in present else "") + ":" + ("<step>" if "step" in present else "")
                if toks(got) in (toks(want), toks(alt)):
                    rr.ok(what, sample={"rule": "C03-R5", "kind": "Slice", "present": present, "skeleton": got})
                else:
                    rr.fail("C03-R5|Slice|skeleton", f"unparse_Slice renders `{got}` when {present} are present; expected `{alt}`", what=what)
            elif kind == "Yield":
                rr.instances += 1
                has = "value" in node.fields and not node.fields["value"].is_none
                compare(kind, pr, got, "yield <value>" if has else "yield", what)
            elif kind == "Tuple":
                rr.instances += 1
                one = any(k.startswith("cmp:len(Tuple.elts)==1") and v is True for k, v in pr.assign.items())
                if one:
                    if got.replace(" ", "").startswith("(") and got.replace(" ", "").endswith(",)"):
                        rr.ok(what)
                    else:
                        rr.fail("C03-R4|Tuple|one-element-comma", f"unparse_Tuple renders a one-element tuple as `{got}` (no trailing comma: the text is a parenthesised expression)", what=what)
                else:
                    compare(kind, pr, got, "([<elts>,...])", what)
            elif kind == "Dict":
                rr.instances += 1
                star = any(k.startswith("isnone:") and "Dict.keys" in k and v is True for k, v in pr.assign.items())
                compare(kind, pr, got, "{[**<values>,...]}" if star else "{[<keys>:<values>,...]}", what)
            elif kind == "Call":
                rr.instances += 1
                sole = "<args>" in got and "[" not in got
                if sole:
                    compare(kind, pr, got, "<func>(<args>)", what)
                else:
                    star = any(k.startswith("isnone:") and "keyword.arg" in k and v is True for k, v in pr.assign.items())
                    kw = "**<keywords.value>" if star else "<arg>=<keywords.value>"
                    compare(kind, pr, got, f"<func>([<args>,...],[{kw},...])", what)
    return rr


def rule_r4(ctx):
    rr = RuleResult("C03-R4", "non-hierarchical corners: int before '.', index tuple with slices, sole generator argument, one-element tuple")
    rr.floor = 2
    U = ctx.ustr
    # integer literal before .attr
    rr.instances += 1
    paths = [p for p in U.paths("Attribute") if p.outcome == "ok"]
    digit = [p for p in paths if any(t[0] in ("isdigit", "isdecimal", "isnumeric") and t[3] for t in p.str_tests)]
    what = "Attribute|int-literal"
    if not digit:
        rr.fail("C03-R4|Attribute|int-literal-unguarded", "unparse_Attribute: no special case for an integer literal before `.attr` (`1.real` is a syntax error; needs `(1).real`)", what=what)
    else:
        got = render(digit[0].result).replace(" ", "")
        if got.startswith("(<value>).") or " ." in render(digit[0].result):
            rr.ok(what, sample={"rule": "C03-R4", "case": "int literal before .attr", "skeleton": got})
        else:
            rr.fail("C03-R4|Attribute|int-literal-not-wrapped", f"unparse_Attribute renders a digit-only value as `{got}`", what=what)
    # subscript whose slice is a tuple containing Slice: printed without the tuple's parentheses
    rr.instances += 1
    spaths = [p for p in U.paths("Subscript") if p.outcome == "ok"]
    what = "Subscript|index-tuple-with-slice"
    bare = []
    for p in spaths:
        for fp, h in _hole_fields(p):
            if fp == ("slice", "elts"):
                bare.append(p)
    if not bare:
        rr.fail(
            "C03-R4|Subscript|slice:Tuple[Slice]|parenthesised",
            f"{U.gen_map['Subscript'].where()}: the index of a subscript is always rendered through the Tuple generator, which brackets it: `a[1:2, 3]` becomes `a[(1:2:,3)]`, a syntax error (slices are only valid in an unparenthesised index tuple)",
            where=U.gen_map["Subscript"].where(), what=what,
        )
    else:
        # on that path the elements must be joined with commas, no surrounding parentheses
        got = render(bare[0].result).replace(" ", "")
        one = [p for p in bare if any(k.startswith("cmp:len(") and k.endswith("==1") and v is True for k, v in p.assign.items())]
        if "[(" in got.replace("<value>", ""):
            rr.fail("C03-R4|Subscript|slice:Tuple[Slice]|parenthesised", f"unparse_Subscript renders an index tuple with slices as `{got}`", what=what)
        else:
            rr.ok(what, sample={"rule": "C03-R4", "case": "index tuple with slices", "skeleton": got})
        # and a tuple WITHOUT slices keeps its parentheses only if that is still valid: both are valid
    return rr


def _right_edge_holes(v):
    """Holes that end the rendered text (nothing, in particular no closing bracket, follows them)."""
    if isinstance(v, Hole):
        return [v]
    if isinstance(v, Str):
        for p in reversed(v.parts):
            if isinstance(p, str):
                if p.strip() == "":
                    continue
                return []
            return _right_edge_holes(p)
        return []
    if isinstance(v, StrOp) and v.op == "joinrep":
        rep = v.args[1]
        return _right_edge_holes(rep.items[-1]) if rep.items else []
    if isinstance(v, Rep):
        return _right_edge_holes(v.items[-1]) if v.items else []
    return []


def slot_table(ctx):
    """[(kind, path result, hole, slot kind, field, op, sole, slot precedence)] of all generators."""
    U = ctx.ustr
    out = []
    for kind in asdl.EXPR_KINDS:
        for pr in U.paths(kind):
            if pr.outcome != "ok":
                continue
            for h in pr.holes:
                sl = _slot_of(kind, pr, h)
                if sl is None:
                    continue
                out.append((kind, pr, h, sl[0], sl[1], sl[2], sl[3], _slot_prec(h)))
    return out


def rule_r4b(ctx):
    rr = RuleResult("C03-R4b", "inside a replacement field no expression may END in an unparenthesised lambda (its colon would start the format spec)")
    rr.floor = 3
    U = ctx.ustr
    prec = U.node_precedences()
    table = slot_table(ctx)
    # variants whose text may end in a bare lambda
    ends = {"Lambda"}
    why = {"Lambda": "is a lambda"}
    changed = True
    while changed:
        changed = False
        for kind, pr, h, skind, sfield, op, sole, sp in table:
            if sp is None:
                continue
            if not any(x is h for x in _right_edge_holes(pr.result)):
                continue
            variant = f"{kind}:{op}" if op else kind
            if kind in ("BinOp", "BoolOp", "UnaryOp") and not op:
                continue
            for w in list(ends):
                if w == "Slice" and (skind, sfield) not in G.SLICE_LEGAL:
                    continue
                if w == "Starred" and (skind, sfield) not in G.STARRED_LEGAL:
                    continue
                if skind == "comprehension" and sfield == "target":
                    continue
                wp = prec.get(w)
                if isinstance(wp, int) and not U.wraps(wp, sp) and variant not in ends:
                    ends.add(variant)
                    why[variant] = f"its right-most slot {skind}.{sfield} (precedence {sp}) prints a child {w} (precedence {wp}) without parentheses"
                    changed = True
    field_slots = [(pr, h, sp) for kind, pr, h, skind, sfield, op, sole, sp in table if skind == "FormattedValue" and sfield == "value"]
    if not field_slots:
        raise AnalysisError("C03-R4b: the replacement-field slot was not found")
    fp = field_slots[0][2]
    for v in sorted(ends - {"Slice", "Starred"}):
        rr.instances += 1
        vp = prec.get(v)
        what = f"field|{v}"
        if isinstance(vp, int) and not U.wraps(vp, fp):
            rr.fail(
                f"C03-R4b|FormattedValue.value|{v}|lambda-at-right-edge",
                f"{U.gen_map['FormattedValue'].where()}: a {v} is printed without parentheses inside a replacement field (slot precedence {fp}, node precedence {vp}) although {why[v]}: `f'{{a if b else lambda: 0}}'` - the lambda's colon is read as the start of the format spec",
                where=U.gen_map["FormattedValue"].where(), what=what,
            )
        else:
            rr.ok(what, sample={"rule": "C03-R4b", "variant": v, "why_it_may_end_in_lambda": why[v], "parenthesised_in_field": True})
    return rr


def rule_r7(ctx):
    """The driver: root slot, and each child is created with the slot precedence its parent yielded."""
    rr = RuleResult("C03-R7", "driver: the root is rendered in an expression-level slot; a child is created with (yielded slot precedence, yielded node, parent's quote)")
    rr.floor = 2
    U = ctx.ustr
    prec = U.node_precedences()
    fi = U.driver
    node = fi.node
    wrapper_calls = []
    owner = None
    for ci in U.mi.classes.values():
        if "__init__" in ci.methods and len(ci.methods["__init__"].node.args.args) >= 3:
            owner = ci
    for n in ast.walk(node):
        if isinstance(n, ast.Call) and isinstance(n.func, ast.Name) and owner is not None and n.func.id == owner.name:
            wrapper_calls.append(n)
    if len(wrapper_calls) < 2:
        raise AnalysisError("C03-R7: the driver's node-wrapper constructions were not found")
    params = [a.arg for a in node.args.args]
    root = [c for c in wrapper_calls if len(c.args) >= 2 and isinstance(c.args[1], ast.Name) and c.args[1].id in params]
    child = [c for c in wrapper_calls if c not in root]
    rr.instances += 1
    if len(root) != 1:
        rr.fail("C03-R7|driver|root", f"{fi.where()}: expected one root construction on the function's argument", what="root")
    else:
        try:
            rp = ctx.prog.eval_const(U.mi, root[0].args[0])
        except Exception:
            rp = None
        bad = None
        if not isinstance(rp, int):
            bad = f"the root slot precedence `{ast.unparse(root[0].args[0])}` is not a constant"
        else:
            for v in ("NamedExpr", "Yield", "YieldFrom", "GeneratorExp"):
                vp = prec.get(v)
                if isinstance(vp, int) and not U.wraps(vp, rp):
                    bad = f"a top-level {v} (precedence {vp}) is printed without parentheses in the root slot (precedence {rp}): `x:=1` / a bare generator is not an expression eval() accepts"
        if bad:
            rr.fail("C03-R7|driver|root-slot", f"{fi.where()} line {root[0].lineno}: {bad}", where=fi.where(), what="root")
        else:
            rr.ok("root", sample={"rule": "C03-R7", "root_slot": ast.unparse(root[0].args[0]), "precedence": rp})
    # every yielded child goes through its generator: no path of the driver handles a child itself
    rr.instances += 1
    from .c06 import _stmt_paths

    bypass = None
    for t in ast.walk(node):
        if isinstance(t, ast.Try) and t.orelse and child and any(x is child[0] for s_ in t.orelse for x in ast.walk(s_)):
            for done, term in _stmt_paths(t.orelse):
                pushed = any(x is child[0] for d in done for x in ast.walk(d))
                if not pushed:
                    bypass = [ast.unparse(d)[:50] for d in done if isinstance(d, ast.expr)]
    if bypass is not None:
        rr.fail(
            "C03-R7|driver|child-bypass",
            f"{fi.where()}: on the path [{' / '.join(bypass)[:120]}] the driver renders a yielded child itself instead of creating its node wrapper: the child's generator (escaping, `inf` handling, quotes, parenthesisation) is bypassed for that kind of node",
            where=fi.where(), what="bypass",
        )
    else:
        rr.ok("no-bypass")
    rr.instances += 1
    # the tuple received from the generator
    recv = None
    for n in ast.walk(node):
        if isinstance(n, ast.Assign) and isinstance(n.targets[0], ast.Tuple) and len(n.targets[0].elts) == 2 and isinstance(n.value, ast.Call) and isinstance(n.value.func, ast.Attribute) and n.value.func.attr in ("send", "__next__"):
            recv = [e.id for e in n.targets[0].elts if isinstance(e, ast.Name)]
    okc = False
    if recv and len(recv) == 2 and len(child) == 1 and len(child[0].args) >= 3:
        a0, a1, a2 = child[0].args[:3]
        okc = isinstance(a0, ast.Name) and a0.id == recv[0] and isinstance(a1, ast.Name) and a1.id == recv[1] and isinstance(a2, ast.Attribute) and a2.attr == "qm"
    if okc:
        rr.ok("child", sample={"rule": "C03-R7", "child": ast.unparse(child[0])[:80]})
    else:
        rr.fail("C03-R7|driver|child-construction", f"{fi.where()}: a child node is not created with (the slot precedence yielded by its parent, the yielded node, the parent's quote): `{ast.unparse(child[0])[:80] if child else '?'}`", where=fi.where(), what="child")
    return rr


def rule_r6(ctx):
    rr = RuleResult("C03-R6", "shapes emitted by the converter lie inside the checked space; possibly-negative numeric constants only in factor-level slots")
    rr.floor = 50
    U = ctx.ustr
    known_kinds = set(U.gen_map)
    seen = set()
    for origin, kind, pr, tmpl in all_templates(ctx):
        for t in iter_tnodes(tmpl):
            if t.kind.startswith("$") or t.kind in ("arguments", "arg", "keyword", "comprehension") or t.kind in asdl.OPERATOR_KINDS + asdl.BOOLOP_KINDS + asdl.UNARYOP_KINDS + asdl.CMPOP_KINDS or t.kind in ("Load", "Store", "Del"):
                continue
            if (t.kind, t.site) not in seen:
                seen.add((t.kind, t.site))
                rr.instances += 1
                what = f"{origin}|{t.kind}|{t.site}"
                if t.kind not in known_kinds:
                    rr.fail(f"C03-R6|{t.kind}|no-generator", f"{origin} ({t.site}): the converter emits ast.{t.kind}, for which the custom unparser has no generator", where=t.site, what=what)
                else:
                    rr.ok(what)
            # negative numeric constants
            for fld, v in t.fields.items():
                items = v.items if isinstance(v, PList) else [v]
                for item in items:
                    if isinstance(item, Rep):
                        continue
                    if isinstance(item, TNode) and item.kind == "Constant":
                        val = item.fields.get("value")
                        neg = (isinstance(val, Cst) and isinstance(val.value, (int, float)) and not isinstance(val.value, bool) and val.value < 0) or isinstance(val, Sym)
                        if neg:
                            mr = G.min_rank(t.kind, fld, None)
                            what = f"negconst|{t.kind}.{fld}|{item.site}"
                            if mr is not None and mr > 13:
                                rr.fail(f"C03-R6|{t.kind}.{fld}|negative-constant", f"{origin} ({item.site}): a possibly negative numeric Constant is emitted in slot {t.kind}.{fld}; its text `-n` is a unary expression but is treated as an atom (no parentheses)", where=item.site, what=what)
                            else:
                                rr.ok(what)
    return rr


def _lin(sym_or_int, rename):
    """Sym -> {symbol: coefficient, '1': const} with the symbols renamed."""
    out = {}
    if isinstance(sym_or_int, int):
        out["1"] = sym_or_int
        return out
    for k, c in sym_or_int.terms.items():
        k2 = rename(k)
        out[k2] = out.get(k2, 0) + c
    out["1"] = out.get("1", 0) + sym_or_int.const
    return out


def _lin_add(a, b, fb=1):
    out = dict(a)
    for k, c in b.items():
        out[k] = out.get(k, 0) + fb * c
    return {k: c for k, c in out.items() if c}


_SEEN_H: set = set()


def _default_pairing(p):
    """Findings (message, site) about the pairing of positional defaults with parameters on one path of
    the lambda renderer."""
    from ..semwalk import iter_tnodes  # noqa: F401

    def nk(s):
        return re.sub(r":[A-Za-z|]+", "", str(s))

    PO, A, D = "len(Lambda.args.posonlyargs)", "len(Lambda.args.args)", "len(Lambda.args.defaults)"
    out = []

    def holes_in(v, acc, seen=None):
        seen = _SEEN_H if seen is None else seen
        if id(v) in seen:
            return
        seen.add(id(v))
        if isinstance(v, Hole):
            acc.append(v)
        elif isinstance(v, Str):
            for x in v.parts:
                holes_in(x, acc, seen)
        elif isinstance(v, StrOp):
            for x in v.args:
                holes_in(x, acc, seen)
        elif isinstance(v, Rep):
            for x in v.items:
                holes_in(x, acc, seen)
        elif isinstance(v, PList):
            for x in v.items:
                holes_in(x, acc, seen)
        elif isinstance(v, TNode):
            for x in v.fields.values():
                holes_in(x, acc, seen)

    def is_pos_default(h):
        path = nk(h.child.short_path()) if hasattr(h.child, "short_path") else ""
        return bool(re.search(r"Lambda\.args\.defaults\[", path))

    stores = []
    seen_s = set()

    def find_stores(v):
        if id(v) in seen_s:
            return
        seen_s.add(id(v))
        if isinstance(v, TNode) and v.kind == "$SetItem":
            stores.append(v)
        if isinstance(v, Str):
            for x in v.parts:
                find_stores(x)
        elif isinstance(v, StrOp):
            for x in v.args:
                find_stores(x)
        elif isinstance(v, (Rep, PList)):
            for x in v.items:
                find_stores(x)
        elif isinstance(v, TNode):
            for x in v.fields.values():
                find_stores(x)

    find_stores(p.result)
    in_store = set()
    for st in stores:
        hs = []
        holes_in(st.fields.get("value"), hs, set())
        hs = [h for h in hs if is_pos_default(h)]
        if not hs:
            continue
        for h in hs:
            in_store.add(id(h))
        rep = [nk(r) for r in getattr(st, "rep", [])]
        over = rep[-1] if rep else ""
        if "Lambda.args.defaults" not in over or "kw_defaults" in over:
            out.append((f"a positional default is attached inside a loop over `{over or 'nothing'}`, not over arguments.defaults: the defaults are not walked one by one", st.site))
            continue
        reversed_walk = over.startswith("reversed(")
        idx = st.fields.get("index")
        if not isinstance(idx, Sym):
            out.append((f"the position a default is attached to is `{idx!r}`, not a linear function of the iteration", st.site))
            continue
        ren = lambda k: "k" if k.startswith("index(") else nk(k)  # noqa: E731
        I = None
        carried = [k for k in idx.terms if k.startswith("carried(")]
        if carried:
            name = carried[0][len("carried("):-1]
            rec = [c for c in getattr(p, "carried", []) if c["name"] == name]
            if not rec or not isinstance(rec[0].get("init"), (Sym, Cst)) or not isinstance(rec[0].get("step"), Sym):
                out.append((f"the index `{name}` of the default store has no analysable start / step", st.site))
                continue
            c = rec[0]
            init = _lin(c["init"] if isinstance(c["init"], Sym) else c["init"].value, ren)
            step = c["step"].const if set(c["step"].terms) == {f"carried({name})"} and c["step"].terms[f"carried({name})"] == 1 else None
            if step is None or c.get("updated") is not True:
                out.append((f"the index `{name}` is not advanced by a constant on every iteration", st.site))
                continue
            # value at the use point in iteration k: init + step*k + (idx.const relative to the carried value)
            I = _lin_add(init, {"k": step, "1": idx.const})
            I = _lin_add(I, {ren(k2): c2 for k2, c2 in idx.terms.items() if not k2.startswith("carried(")})
        else:
            I = _lin(idx, ren)
        # a negative index counts from the end of the list as it is at that moment
        nonconst = {k: c for k, c in I.items() if k != "1"}
        if (nonconst and all(c < 0 for c in nonconst.values()) and I.get("1", 0) <= 0) or (not nonconst and I.get("1", 0) < 0):
            I = _lin_add(_lin(st.len_before, ren), I)
        want = {PO: 1, A: 1}
        E = _lin_add(want, {"1": -1, "k": -1}) if reversed_walk else _lin_add(want, {D: -1, "k": 1})
        diff = _lin_add(I, E, -1)
        if diff:
            def show(l):
                return " + ".join(f"{c}*{k}" if k != "1" else str(c) for k, c in sorted(l.items())) or "0"
            out.append((f"defaults are paired with the wrong parameters: in iteration k (walking {'reversed ' if reversed_walk else ''}defaults) the default is attached at position {show(I)}, but defaults[j] belongs to parameter len(posonlyargs)+len(args)-len(defaults)+j, i.e. position {show(E)} (`lambda a=1, b=2` must not become `lambda a=2,b=1`; a `/` already in the list shifts everything by one)", st.site))
    # defaults emitted outside any store (appended together with the name, ...): each must sit in a loop over defaults
    allh = []
    holes_in(p.result, allh, set())
    for h in allh:
        if id(h) in in_store or not is_pos_default(h):
            continue
        rep = [nk(r) for r in getattr(h, "rep", [])]
        if not rep or "Lambda.args.defaults" not in rep[-1]:
            out.append((f"the default {nk(h.child.short_path())} is emitted inside a loop over `{rep[-1] if rep else 'nothing'}`, not over arguments.defaults: defaults that belong to parameters outside that list (positional-only ones) are never printed", h.site if hasattr(h, "site") else "?"))
    return out


def lambda_skeleton_rule(ctx):
    """C11-R6: rendering of the lambda signature by the custom unparser."""
    rr = RuleResult("C11-R6", "lambda signature rendering: all seven fields consumed, groups in signature order with '/', '*', '**' guarded by the presence of the fields")
    rr.floor = 8
    U = ctx.ustr
    paths = [p for p in U.paths("Lambda") if p.outcome == "ok"]
    # which argument fields are read
    read = set()
    for p in paths:
        a = p.extra["node"].fields.get("args")
        if isinstance(a, UNode):
            read |= set(a.fields)
    for f in ("posonlyargs", "args", "vararg", "kwonlyargs", "kw_defaults", "kwarg", "defaults"):
        rr.instances += 1
        if f in read:
            rr.ok(f"Lambda.args.{f}|read")
        else:
            rr.fail(f"C11-R6|Lambda|{f}|never-read", f"unparse_Lambda never reads arguments.{f}: that part of the signature is lost", what=f"Lambda.args.{f}")
    for p in paths:
        rr.instances += 1
        got = render(p.result)
        what = f"Lambda|{short_ctx(p, 120)}"
        if "{elem" in got or "elem(" in got:
            # pieces of the signature went through containers the string model lost track of (pairs
            # sliced and zipped, ...): the skeleton is not the repository's, nothing is concluded from it
            raise AnalysisError(f"C11-R6: the lambda signature is assembled in a way the string model cannot follow (`{got[:100]}`)")

        def flag(frag, truthy=True):
            for k, v in p.assign.items():
                if frag in k:
                    if k.startswith("isnone:"):
                        return not v
                    if k.startswith(("cmp:len(", "nonempty:")):
                        if k.endswith("==0"):
                            return not v
                        return v
                    return v
            return None

        has_pos = flag("arguments.posonlyargs")
        has_var = flag("arguments.vararg")
        has_kwo = flag("arguments.kwonlyargs")
        has_kw = flag("arguments.kwarg")
        bad = None
        if not got.replace(" ", "").startswith("lambda"):
            bad = "does not start with `lambda`"
        if ":<body>" not in got.replace(" ", ""):
            bad = bad or "the body does not follow a colon"
        txt = got
        if has_pos is True and "/" not in txt:
            bad = bad or "positional-only parameters are present but no `/` is emitted"
        if has_pos is False and "/" in txt and "insert" not in txt.lower():
            if "$InsertAt" not in txt:
                pass
        if has_var is True and "*<arg>" not in txt.replace(" ", "") and "*<vararg" not in txt:
            bad = bad or "`*vararg` is not emitted"
        if has_var is False and has_kwo is not False and "<arg>" in txt and not re.search(r"(?<!\*)\*(?![\*<])", txt.replace(" ", "")):
            bad = bad or "keyword-only parameters without *args need a bare `*`"
        if has_kw is True and "**<arg>" not in txt.replace(" ", ""):
            bad = bad or "`**kwarg` is not emitted"
        # alignment of positional defaults: the index starts at the number of positional NAMES
        for c in getattr(p, "carried", []):
            if "defaults" in c["over"] and "kw_defaults" not in c["over"] and isinstance(c["init"], Sym):
                terms = {re.sub(r":[A-Za-z|]+", "", k): v for k, v in c["init"].terms.items()}
                want = {"len(Lambda.args.posonlyargs)": 1, "len(Lambda.args.args)": 1}
                if c["over"].startswith("reversed(") and (terms != want or c["init"].const != 0):
                    bad = bad or f"the index that right-aligns the positional defaults starts at {c['init'].key()} instead of len(posonlyargs)+len(args): a marker such as `/` is already in the list when the defaults are attached, so every default lands one parameter too far right (`lambda a, b=1, /` becomes `lambda a,b,/=1`)"
        if bad:
            rr.fail(f"C11-R6|Lambda|signature|{re.sub('[^a-z]+', '-', bad.lower())[:40]}", f"unparse_Lambda: {bad}: `{got[:140]}` [{short_ctx(p, 100)}]", what=what)
        else:
            rr.ok(what, sample={"rule": "C11-R6", "context": short_ctx(p, 80), "skeleton": got[:120]})
    # pairing of the positional defaults: defaults[j] belongs to parameter P - D + j of
    # posonlyargs + args (P names, D defaults).  The position the store denotes is computed as a
    # linear form in the iteration number k and the list lengths and compared with that.
    seen_pair = set()
    for p in paths:
        for msg, site in _default_pairing(p):
            if (msg[:40], site) in seen_pair:
                continue
            seen_pair.add((msg[:40], site))
            rr.instances += 1
            rr.fail(f"C11-R6|Lambda|defaults|{re.sub('[^a-z]+', '-', msg.lower())[:40]}", f"unparse_Lambda ({site}): {msg} [{short_ctx(p, 100)}]", where=str(site), what=f"Lambda|defaults|pairing@{site}")
    if not seen_pair:
        rr.instances += 1
        rr.ok("Lambda|defaults|pairing", sample={"rule": "C11-R6", "verdict": "defaults[j] is attached to parameter len(posonlyargs)+len(args)-len(defaults)+j"})
    # an index that pairs the entries of one list with the positions of another must walk the WHOLE
    # list: in a filtered copy the positions have shifted by the number of entries left out
    seen_f = set()
    for p in paths:
        for c in getattr(p, "carried", []):
            if "filtered(" in str(c["over"]) and isinstance(c["init"], (Sym, Cst)) and (c["name"], c["site"]) not in seen_f:
                seen_f.add((c["name"], c["site"]))
                rr.instances += 1
                rr.fail(
                    f"C11-R6|Lambda|{c['name']}|index-over-filtered-list",
                    f"unparse_Lambda ({c['site']}): the index `{c['name']}` walks `{c['over']}`, a copy of the list from which entries were removed, and is used as a position in the parameter list: kw_defaults has one entry PER keyword-only parameter (None = no default), so after dropping the None entries the defaults move to other parameters (`def f(*, k='x', m)` becomes `lambda *,k,m='x'`)",
                    where=c["site"], what=f"Lambda|index|{c['name']}|filtered",
                )
    # an index that walks a positionally aligned list must be updated on EVERY iteration
    by_var = {}
    for p in paths:
        for c in getattr(p, "carried", []):
            if c["updated"] is not None and isinstance(c["init"], (Sym, Cst)):
                by_var.setdefault((c["name"], c["site"], c["over"]), set()).add(c["updated"])
    for (name, site, over), ups in by_var.items():
        rr.instances += 1
        what = f"Lambda|index|{name}@{site}"
        if ups == {True, False}:
            rr.fail(
                f"C11-R6|Lambda|{name}|conditional-index-update",
                f"unparse_Lambda ({site}): the index `{name}` that walks {over} is advanced on some iterations only (it is skipped for entries without a default): defaults are attached to the wrong parameter (`def f(*, a='d', b)` becomes `lambda *,a,b='d'`)",
                where=site, what=what,
            )
        else:
            rr.ok(what, sample={"rule": "C11-R6", "index": name, "walks": over, "updated_on_every_iteration": True})
    return rr


def _fstring_structure(ctx):
    """The structure of f-strings is part of the round trip (shared with C04)."""
    from .c04 import rule_r3

    return rule_r3(ctx)


def _constant_cases(ctx):
    """Constants are leaves of the round trip: the case analysis of unparse_Constant (shared rule C04-R2)."""
    from .c04 import rule_r2

    return rule_r2(ctx)


def _bytes_cases(ctx):
    """Bytes constants are leaves of the round trip too (shared rule C04-R8)."""
    from .c04 import rule_r8

    return rule_r8(ctx)


RULES = [("C04-R2", _constant_cases), ("C04-R8", _bytes_cases), ("C03-R1", rule_r1), ("C03-R2", rule_r2), ("C03-R3", rule_r3), ("C03-R4", rule_r4), ("C03-R4b", rule_r4b), ("C03-R5", rule_r5), ("C03-R6", rule_r6), ("C03-R7", rule_r7), ("C11-R6", lambda_skeleton_rule), ("C04-R3", _fstring_structure)]
