"""Engine T, part 1: decisions (finite labelled contexts), frames, signals and
the repository-wide pre-scan of volatile attributes."""
from __future__ import annotations

import ast

from .core import AnalysisError

MUTATORS = {
    "append", "extend", "insert", "pop", "remove", "clear", "add", "update", "discard",
    "setdefault", "sort", "reverse", "popitem", "__setitem__", "__delitem__",
    "difference_update", "intersection_update", "symmetric_difference_update",
}

MAX_PATHS = 12000


class PathAbort(Exception):
    """The current path is infeasible (failed assert / contradictory refinement)."""


class Raised(Exception):
    """Interpreted repository code executed `raise`."""

    def __init__(self, exc, site, msg=None):
        super().__init__(exc)
        self.exc = exc
        self.site = site
        self.msg = msg


class ReturnSig(Exception):
    def __init__(self, value):
        self.value = value


class BreakSig(Exception):
    pass


class ContinueSig(Exception):
    pass


class Decisions:
    def __init__(self, prefix=None, constraints=None):
        self.prefix = list(prefix or [])
        self.trace: list[tuple] = []
        self.assign: dict = {}
        self.constraints = constraints or []

    def decide(self, key, options=(True, False)):
        if key in self.assign:
            return self.assign[key]
        options = list(options)
        # constraints may force a value
        for c in self.constraints:
            forced = c(key, self.assign, options)
            if forced is not None:
                self.assign[key] = forced
                return forced
        i = len(self.trace)
        if i < len(self.prefix):
            pk, idx, n = self.prefix[i]
            if pk != key or n != len(options):
                raise AnalysisError(
                    f"non-deterministic replay of decisions: expected {pk!r}, got {key!r}"
                )
        else:
            idx = 0
        self.trace.append((key, idx, len(options)))
        self.assign[key] = options[idx]
        return options[idx]


def enumerate_paths(run, constraints=None, max_paths=MAX_PATHS, what=""):
    """Run `run(decisions)` once per combination of the decisions it asks for."""
    prefix: list = []
    n = 0
    while True:
        d = Decisions(prefix, constraints)
        res = run(d)
        n += 1
        yield d, res
        if n > max_paths:
            raise AnalysisError(f"more than {max_paths} contexts while analysing {what}")
        t = list(d.trace)
        while t and t[-1][1] + 1 >= t[-1][2]:
            t.pop()
        if not t:
            return
        k, i, m = t[-1]
        t[-1] = (k, i + 1, m)
        prefix = t


class Frame:
    def __init__(self, module, locals_=None, closure=None, func=None, self_obj=None, defcls=None):
        self.module = module
        self.locals = locals_ if locals_ is not None else {}
        self.closure = closure
        self.func = func
        self.self_obj = self_obj
        self.defcls = defcls
        self.is_module = False

    def lookup(self, name):
        f = self
        while f is not None:
            if name in f.locals:
                return f.locals[name]
            f = f.closure
        return None

    def where(self):
        return getattr(self.func, "name", "<module>")


_CY_CACHE: dict = {}


def contains_yield(fnode) -> bool:
    r = _CY_CACHE.get(id(fnode))
    if r is None:
        r = _CY_CACHE[id(fnode)] = (_contains_yield(fnode), fnode)
    return r[0]


def _contains_yield(fnode) -> bool:
    """Is this def a generator (yield in its own body, not in nested defs)?"""
    stack = list(fnode.body) if not isinstance(fnode, ast.Lambda) else [fnode.body]
    while stack:
        n = stack.pop()
        if isinstance(n, (ast.Yield, ast.YieldFrom)):
            return True
        if isinstance(n, (ast.FunctionDef, ast.AsyncFunctionDef, ast.Lambda, ast.ClassDef)):
            continue
        stack.extend(ast.iter_child_nodes(n))
    return False


class VolatileScan:
    """Attribute names whose value may be changed by *other* code between the
    phases of an object's life (constructor / child conversion / get_result):
    written through a receiver that is not `self`, or written in a method that
    is itself referenced through a non-self receiver (a callback)."""

    LIFECYCLE = {"__init__", "_iter_nodes", "get_result", "_iter_fields"}

    def __init__(self, prog):
        self.volatile: set[str] = set()
        self.foreign_methods: set[str] = set()
        self.sites: dict[str, list] = {}
        for fi in prog.all_functions():
            for n in ast.walk(fi.node):
                if isinstance(n, ast.Attribute) and not self._is_self(n.value):
                    if not (isinstance(n.value, ast.Call) and isinstance(n.value.func, ast.Name) and n.value.func.id == "super"):
                        self.foreign_methods.add(n.attr)
        for mi in prog.modules.values():
            for n in ast.walk(mi.tree):
                tgt = None
                if isinstance(n, ast.Assign):
                    for t in n.targets:
                        self._target(t, mi, n)
                elif isinstance(n, (ast.AugAssign, ast.AnnAssign)):
                    if not (isinstance(n, ast.AnnAssign) and n.value is None):
                        self._target(n.target, mi, n)
                elif isinstance(n, ast.Call) and isinstance(n.func, ast.Attribute) and n.func.attr in MUTATORS:
                    recv = n.func.value
                    if isinstance(recv, ast.Attribute) and not self._is_self(recv.value):
                        self._mark(recv.attr, mi, n)
        # writes inside callback methods
        for ci in prog.all_classes():
            for name, fi in ci.methods.items():
                if name in self.LIFECYCLE or name not in self.foreign_methods:
                    continue
                for n in ast.walk(fi.node):
                    if isinstance(n, (ast.Assign, ast.AugAssign)):
                        ts = n.targets if isinstance(n, ast.Assign) else [n.target]
                        for t in ts:
                            if isinstance(t, ast.Attribute) and self._is_self(t.value):
                                self._mark(t.attr, ci.module, n)

    @staticmethod
    def _is_self(node):
        return isinstance(node, ast.Name) and node.id == "self"

    def _target(self, t, mi, n):
        if isinstance(t, ast.Attribute) and not self._is_self(t.value):
            # assignments to fields of freshly built *local* ast nodes (call.args = ...) are
            # not object state; those receivers are plain local names bound to constructor
            # results, which the interpreter tracks concretely.  Only receivers that are
            # themselves attribute chains or subscripts denote other objects' state.
            if isinstance(t.value, (ast.Attribute, ast.Subscript, ast.Call)):
                self._mark(t.attr, mi, n)
            elif isinstance(t.value, ast.Name):
                self._mark_name_recv(t, mi, n)

    def _mark_name_recv(self, t, mi, n):
        # `loop.break_cnt += 1` (loop variable over another object's list)
        self.sites.setdefault("?" + t.attr, []).append((mi.rel, n.lineno))
        self.name_recv = getattr(self, "name_recv", set())
        self.name_recv.add(t.attr)

    def _mark(self, attr, mi, n):
        self.volatile.add(attr)
        self.sites.setdefault(attr, []).append((mi.rel, n.lineno))

    def finalize(self, prog):
        """Attributes written through a bare local name count as volatile only if
        some repository class declares/assigns an attribute of that name (so that
        fields of local template nodes such as `call.args` are not included unless
        they clash, which is harmless: template nodes are never Obj)."""
        declared = set()
        for ci in prog.all_classes():
            declared |= set(ci.class_attrs)
            for fi in ci.methods.values():
                for n in ast.walk(fi.node):
                    if isinstance(n, (ast.Assign, ast.AnnAssign, ast.AugAssign)):
                        ts = n.targets if isinstance(n, ast.Assign) else [n.target]
                        for t in ts:
                            if isinstance(t, ast.Attribute) and self._is_self(t.value):
                                declared.add(t.attr)
        for a in getattr(self, "name_recv", set()):
            if a in declared:
                self.volatile.add(a)
        return self
