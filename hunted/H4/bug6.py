import os, sys
sys.path.insert(0, os.environ["OLREPO"])
import io, contextlib, itertools
import oneliner
from oneliner.config import Configs

SCRIPT = r'''# the first iterable of a comprehension is evaluated in the enclosing scope:
# `[x for x in x]` must read the class-level / captured x
class C:
    x = [1, 2]
    y = [x * 2 for x in x]
print(C.y)
'''


def run(kind, code):
    g = {"__name__": "__main__"}
    buf = io.StringIO()
    exc = None
    try:
        with contextlib.redirect_stdout(buf):
            if kind == "exec":
                exec(compile(code, "<script>", "exec"), g)
            else:
                eval(compile(code, "<oneliner>", "eval"), g)
    except BaseException as e:
        exc = type(e).__name__ + ": " + str(e)
    return buf.getvalue(), exc


def main():
    expected = run("exec", SCRIPT)
    print("original :", expected)
    failures = 0
    for u, w, i in itertools.product(["ast.unparse", "oneliner"], ["list", "chain_call"], ["if_expr", "short_circuit"]):
        c = Configs()
        c.unparser, c.expr_wrapper, c.if_style = u, w, i
        try:
            text = oneliner.convert_code_string(SCRIPT, configs=c)
        except BaseException as e:
            print("DEFECT   : %s/%s/%s: converter raised %s: %s" % (u, w, i, type(e).__name__, e))
            failures += 1
            continue
        actual = run("eval", text)
        same = actual[0] == expected[0] and (actual[1] is None) == (expected[1] is None) and (
            actual[1] is None or actual[1].split(":")[0] == expected[1].split(":")[0])
        if not same:
            print("DEFECT   : %s/%s/%s: converted gives %r" % (u, w, i, actual))
            failures += 1
    print("%d of 8 option combinations differ" % failures)
    return 1 if failures else 0


if __name__ == "__main__":
    sys.exit(main())
