import ast, sys
sys.path.insert(0,'/repo')
from oneliner.expr_unparse import expr_unparse
t = ast.parse("f'''{x[\"é\"]}'''", mode='eval').body
o = expr_unparse(t); print(o)
open('/tmp/probe/o8.txt','w').write(o)
