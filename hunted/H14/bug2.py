import itertools, json, os, subprocess, sys

OLREPO = os.environ["OLREPO"]
sys.path.insert(0, OLREPO)
import oneliner  # noqa: E402  (checks that the package is importable)

PYENV = "/root/.pyenv/versions/%s/bin/python"
HOSTS = [v for v in ("3.10.13", "3.11.7", "3.12.1", "3.13.0") if os.path.exists(PYENV % v)]
RUNTIMES = [v for v in ("3.8.18", "3.9.18", "3.10.13", "3.11.7", "3.12.1", "3.13.0") if os.path.exists(PYENV % v)]
CURRENT = "current(%d.%d)" % sys.version_info[:2]
if not HOSTS:  # no pyenv interpreters: only the interpreter that runs this file
    HOSTS = RUNTIMES = [CURRENT]
CFGS = list(itertools.product(["ast.unparse", "oneliner"], ["list", "chain_call"], ["if_expr", "short_circuit"]))

_CONV = r'''
import sys, json
sys.path.insert(0, sys.argv[1])
import oneliner
src, cfgs = json.loads(sys.stdin.read())
out = []
for u, w, i in cfgs:
    c = oneliner.Configs(); c.unparser, c.expr_wrapper, c.if_style = u, w, i
    try: out.append(["ok", oneliner.convert_code_string(src, configs=c)])
    except BaseException as e: out.append(["err", type(e).__name__ + ": " + str(e)])
print(json.dumps(out))
'''
_RUN = r'''
import sys, io, json
kind, code = json.loads(sys.stdin.read())
buf = io.StringIO(); old = sys.stdout; sys.stdout = buf
try:
    ns = {"__name__": "__main__"}
    if kind == "exec": exec(compile(code, "<src>", "exec"), ns)
    else: eval(compile(code, "<ol>", "eval"), ns)
    res = ["ok", buf.getvalue()]
except BaseException as e:
    res = ["exc", type(e).__name__ + ": " + str(e)]
sys.stdout = old
print(json.dumps(res))
'''


def py(version):
    """interpreter for a version; the current interpreter when it has the same major.minor"""
    return sys.executable if version == CURRENT else PYENV % version


def convert_on(host, src, cfgs=CFGS):
    p = subprocess.run([py(host), "-c", _CONV, OLREPO], input=json.dumps([src, cfgs]), capture_output=True, text=True)
    if p.returncode:
        return [["err", "host process failed: " + p.stderr[-300:]]] * len(cfgs)
    return json.loads(p.stdout)


def run_on(rt, kind, code):
    p = subprocess.run([py(rt), "-c", _RUN], input=json.dumps([kind, code]), capture_output=True, text=True)
    if p.returncode:
        return ["exc", "runtime process failed: " + p.stderr[-300:]]
    return json.loads(p.stdout)


# ---------------------------------------------------------------------------
# bug2: unparser "ast.unparse" (the default) on a 3.11+ HOST writes a subscript
# whose index is a tuple with a starred element, `g[(*a, 3)]` (valid since 3.5),
# as `g[*a, 3]` - PEP 646 syntax that only compiles on Python 3.11+.
# README: "the converted text should run on Python 3.8+".
SRC = """\
class G:
    def __getitem__(self, k): return k
g = G(); a = [1, 2]
print(g[(*a, 3)], g[(*a,)])
"""
UNPARSE_CFGS = [c for c in CFGS if c[0] == "ast.unparse"]
OTHER_CFGS = [c for c in CFGS if c[0] != "ast.unparse"]
bad = 0
for host in HOSTS:
    for label, cfgs in (("ast.unparse", UNPARSE_CFGS), ("oneliner", OTHER_CFGS)):
        convs = convert_on(host, SRC, cfgs)
        failing = []
        for rt in RUNTIMES:
            ref = run_on(rt, "exec", SRC)
            n = 0
            for st, t in convs:
                got = ["exc", t] if st == "err" else run_on(rt, "eval", t)
                if got != ref:
                    n += 1
                    why = got[1]
            if n:
                failing.append("%s (%d/4: %s)" % (rt, n, why[:40]))
        snippet = convs[0][1][convs[0][1].find("print("):][:40]
        if failing:
            bad += 1
            print("host %-8s unparser %-11s text ...%s  FAILS on runtimes: %s" % (host, label, snippet, ", ".join(failing)))
        else:
            print("host %-8s unparser %-11s text ...%s  ok on all runtimes" % (host, label, snippet))
print("DEFECT PRESENT" if bad else "no difference")
sys.exit(1 if bad else 0)
