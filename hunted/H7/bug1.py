"""if_style=short_circuit: the truth value of an `if` test that is false is asked for TWICE
when the statement has an else/elif branch (`test and (body,) or orelse`)."""
import sys, os
sys.path.insert(0, os.path.dirname(os.path.abspath(__file__)))
from _common import *

SRC = '''
class Flag:
    def __init__(self, v):
        self.v = v
    def __bool__(self):
        print("__bool__", self.v)
        return self.v
class Box:
    def __len__(self):
        print("__len__")
        return 0
if Flag(False):
    print("yes")
else:
    print("no")
if Box():
    print("non-empty")
elif Flag(False):
    print("?")
else:
    print("empty")
'''
bad = 0
for combo in COMBOS:
    d = differs(SRC, combo)
    if d:
        bad += 1
        print(combo, "->", d)
print("defect present" if bad else "ok")
sys.exit(1 if bad else 0)
