"""Print the finding keys every built property currently reports (maintenance tool)."""
import importlib, sys, json, os
sys.path.insert(0, os.path.dirname(os.path.dirname(os.path.abspath(__file__))))
from olsa.__main__ import Ctx, PROPS
from olsa import core
out={}
ctx=Ctx('quick')
for p in PROPS:
    try: mod=importlib.import_module(f'olsa.rules.{p.lower()}')
    except ModuleNotFoundError: continue
    for rid,fn in mod.RULES:
        try: rr=fn(ctx)
        except core.AnalysisError as e:
            print('ANALYSIS-ERROR',rid,e); continue
        for r in (rr if isinstance(rr,list) else [rr]):
            for f in r.findings:
                out.setdefault(f.key,{'props':[], 'msg':f.msg})
                if p not in out[f.key]['props']: out[f.key]['props'].append(p)
json.dump(out,open('/tmp/findings.json','w'),indent=1)
for k,v in sorted(out.items()): print(','.join(v['props']),k)
