"""Self-test corpus: mutants that must be caught by the named rule, and behaviour-preserving
variants that must stay silent.  Each entry is (file, old text, new text); the variant still
compiles.  `tests` records whether the unedited test suite kills the mutant (checked once while
building: SURVIVES = the 3337 tests still pass)."""

MUTANTS = [{'expect': ['C13-R5'],
  'files': [('oneliner/utils.py',
             '            _slice_value(_slice.upper),\n            _slice_value(_slice.step),',
             '            _slice_value(_slice.step),\n            _slice_value(_slice.upper),')],
  'id': 'm01',
  'prop': 'C13',
  'tests': 'KILLED'},
 {'expect': ['C13-R1'],
  'files': [('oneliner/pending_nodes.py', 'MatMult: "__imatmul__"', 'MatMult: "__imul__"')],
  'id': 'm02',
  'prop': 'C13',
  'tests': 'SURVIVES'},
 {'expect': ['C13-R1'],
  'files': [('oneliner/pending_nodes.py', 'LShift: "__ilshift__"', 'LShift: "__irshift__"')],
  'id': 'm03',
  'prop': 'C13',
  'tests': 'SURVIVES'},
 {'expect': ['C05-R1'],
  'files': [('oneliner/pending_nodes.py',
             '        for loop in self.nsp.loop_stack:\n            loop.break_cnt += 1\n            loop.interrupt_cnt += 1',
             '        for loop in self.nsp.loop_stack:\n            loop.interrupt_cnt += 1')],
  'id': 'm04',
  'prop': 'C05',
  'tests': 'KILLED'},
 {'expect': ['C05-IB'],
  'files': [('oneliner/pending_nodes.py',
             'test=UnaryOp(op=Not(), operand=get_flow_control_expr()),\n                    body=self.nsp_global.expr_wraper(wrapped),',
             'test=get_flow_control_expr(),\n                    body=self.nsp_global.expr_wraper(wrapped),')],
  'id': 'm05',
  'prop': 'C05',
  'tests': 'KILLED'},
 {'expect': ['C01-R2'],
  'files': [('oneliner/pending_nodes.py',
             'orelse_or_true = Tuple(elts=[orelse], ctx=Load())',
             'orelse_or_true = orelse')],
  'id': 'm06',
  'prop': 'C01',
  'tests': 'SURVIVES'},
 {'expect': ['C03-R3'],
  'files': [('oneliner/expr_unparse.py', '        step = yield PREC_EXPR_SLOT, node.step', '        step = yield PREC_CALL_SLOT_ARG, node.step')],
  'id': 'm07',
  'prop': 'C03',
  'tests': 'SURVIVES'},
 {'expect': ['C11-R2'],
  'files': [('oneliner/pending_nodes.py',
             '            if kw_default_expr is None:\n                converted_args.kw_defaults.append(None)\n                continue',
             '            if kw_default_expr is None:\n                continue')],
  'id': 'm08',
  'prop': 'C11',
  'tests': 'KILLED'},
 {'expect': ['C14-R2'],
  'files': [('oneliner/pending_nodes.py', '                    Constant(value=self.node.level),', '                    Constant(value=0),')],
  'id': 'm09',
  'prop': 'C14',
  'tests': 'SURVIVES'},
 {'expect': ['C08-R1'],
  'files': [('oneliner/convert.py', '    ast.Pass: PendingPass,', '    ast.Pass: PendingPass,\n    ast.Assert: PendingPass,')],
  'id': 'm10',
  'prop': 'C08',
  'tests': 'SURVIVES'},
 {'expect': ['C09-R1'], 'files': [('oneliner/reserved_identifiers.py', '"__ol_assign_{}"', '"_assign_{}"')], 'id': 'm11', 'prop': 'C09', 'tests': 'SURVIVES'},
 {'expect': ['C16-R1'],
  'files': [('oneliner/__main__.py',
             'converted = oneliner.convert_code_string(script, configs=cfg)\n'
             '\n'
             'if args.output is not None:\n'
             '    with open(args.output, "w", encoding="utf8") as outfile:\n'
             '        outfile.write(converted)',
             'if args.output is not None:\n'
             '    outfile = open(args.output, "w", encoding="utf8")\n'
             'converted = oneliner.convert_code_string(script, configs=cfg)\n'
             '\n'
             'if args.output is not None:\n'
             '    with outfile:\n'
             '        outfile.write(converted)')],
  'id': 'm12',
  'prop': 'C16',
  'tests': 'SURVIVES'},
 {'expect': ['C03-R3'],
  'files': [('oneliner/expr_unparse.py', 'PREC_POW_SLOT_LEFT = next(enum)\nPREC_POW = next(enum)', 'PREC_POW = next(enum)\nPREC_POW_SLOT_LEFT = next(enum)')],
  'id': 'm13',
  'prop': 'C03',
  'tests': 'KILLED'},
 {'expect': ['C03-R3'],
  'files': [('oneliner/expr_unparse.py',
             '    body = yield PREC_EXPR_SLOT, node.body\n    arg_def_list = []',
             '    body = yield PREC_CALL_SLOT_ARG, node.body\n    arg_def_list = []')],
  'id': 'm14',
  'prop': 'C03',
  'tests': 'KILLED'},
 {'expect': ['C03-R3'],
  'files': [('oneliner/expr_unparse.py',
             'arg_def_list[ind] += f"={yield PREC_EXPR_SLOT,default}"',
             'arg_def_list[ind] += f"={yield PREC_CALL_SLOT_ARG,default}"')],
  'id': 'm15',
  'prop': 'C03',
  'tests': 'KILLED'},
 {'expect': ['C03-R3'],
  'files': [('oneliner/expr_unparse.py',
             '    value = yield PREC_EXPR_SLOT, node.value\n'
             '    generators = yield from _unparse_comprehensions(node.generators)\n'
             '    return f"{{{key}:{value} {generators}}}"',
             '    value = yield PREC_CALL_SLOT_ARG, node.value\n'
             '    generators = yield from _unparse_comprehensions(node.generators)\n'
             '    return f"{{{key}:{value} {generators}}}"')],
  'id': 'm16',
  'prop': 'C03',
  'tests': 'SURVIVES'},
 {'expect': ['C03-R3'],
  'files': [('oneliner/expr_unparse.py',
             '            if_list.append((yield PREC_COMPREHENSION_SLOT_ITER, test))',
             '            if_list.append((yield PREC_EXPR_SLOT, test))')],
  'id': 'm17',
  'prop': 'C03',
  'tests': 'KILLED'},
 {'expect': ['C03-R3'],
  'files': [('oneliner/expr_unparse.py',
             '            value = yield PREC_STARRED_SLOT, v\n            item.append(f"**{value}")',
             '            value = yield PREC_EXPR_SLOT, v\n            item.append(f"**{value}")')],
  'id': 'm18',
  'prop': 'C03',
  'tests': 'KILLED'},
 {'expect': ['C03-R5'],
  'files': [('oneliner/expr_unparse.py',
             '        generator_list.append(f"{_async}for {target} in {_iter}{ifs}")',
             '        generator_list.append(f"for {target} in {_iter}{ifs}")')],
  'id': 'm19',
  'prop': 'C03',
  'tests': 'KILLED'},
 {'expect': ['C11-R6'],
  'files': [('oneliner/expr_unparse.py',
             '    if node.args.vararg:\n'
             '        arg_def_list.append(f"*{node.args.vararg.arg}")\n'
             '    elif node.args.kwonlyargs:\n'
             '        arg_def_list.append("*")',
             '    if node.args.vararg:\n        arg_def_list.append(f"*{node.args.vararg.arg}")')],
  'id': 'm20',
  'prop': 'C11',
  'tests': 'KILLED'},
 {'expect': ['C04-R3'],
  'files': [('oneliner/expr_unparse.py', '            s = s.replace("{", "{{").replace("}", "}}")', '            s = s.replace("{", "{{")')],
  'id': 'm22',
  'prop': 'C04',
  'tests': 'KILLED'},
 {'expect': ['C05-R2', 'C05-R3'],
  'files': [('oneliner/pending_nodes.py',
             '                values=[\n'
             '                    UnaryOp(op=Not(), operand=self.flow_ctrl_break_expr),\n'
             '                    expr_transf(self.nsp, self.node.test),\n'
             '                ],',
             '                values=[\n'
             '                    expr_transf(self.nsp, self.node.test),\n'
             '                    UnaryOp(op=Not(), operand=self.flow_ctrl_break_expr),\n'
             '                ],')],
  'id': 'm23',
  'prop': 'C05',
  'tests': 'SURVIVES'},
 {'expect': ['C05-R2'],
  'files': [('oneliner/pending_nodes.py',
             '        if self.break_cnt:\n            while_loop_orelse = IfExp(',
             '        if False:\n            while_loop_orelse = IfExp(')],
  'id': 'm24',
  'prop': 'C05',
  'tests': 'SURVIVES'},
 {'expect': ['C05-R4'],
  'files': [('oneliner/pending_nodes.py',
             '        # body finish, pop from loop stack\n        self.nsp.loop_stack.pop()\n\n        if self.nsp.loop_stack:',
             '        if self.nsp.loop_stack:')],
  'id': 'm25',
  'prop': 'C05',
  'tests': 'KILLED'},
 {'expect': ['C06-R3'],
  'files': [('oneliner/namespaces.py',
             '        if name in self.inner_nonlocal_names:\n            return Subscript(\n                value=self.nonlocal_dict_expr,',
             '        if False and name in self.inner_nonlocal_names:\n            return Subscript(\n                value=self.nonlocal_dict_expr,')],
  'id': 'm26',
  'prop': 'C06',
  'tests': 'KILLED'},
 {'expect': ['C06-R1'],
  'files': [('oneliner/pending_nodes.py',
             '            converted_args.defaults.append(expr_transf(self.nsp, default_expr))',
             '            converted_args.defaults.append(expr_transf(self.internal_nsp, default_expr))')],
  'id': 'm27',
  'prop': 'C06',
  'tests': 'SURVIVES'},
 {'expect': ['C07-R2'],
  'files': [('oneliner/pending_nodes.py', '        for dec_expr in reversed(self.node.decorator_list):', '        for dec_expr in self.node.decorator_list:')],
  'id': 'm28',
  'prop': 'C07',
  'tests': 'KILLED'},
 {'expect': ['C10-R3'],
  'files': [('oneliner/__init__.py', '    if configs is None:\n        configs = Configs()', '    if configs is None:\n        configs = _DEFAULT')],
  'id': 'm29',
  'prop': 'C10',
  'tests': 'KILLED'},
 {'expect': ['C12-R1'],
  'files': [('oneliner/pending_nodes.py',
             '            class_keywords.append(\n                keyword(\n                    arg=_keyword.arg,',
             '            class_keywords.insert(\n                0,\n                keyword(\n                    arg=_keyword.arg,')],
  'id': 'm30',
  'prop': 'C12',
  'tests': 'SURVIVES'},
 {'expect': ['C12-R1'],
  'files': [('oneliner/pending_nodes.py',
             '                        Tuple(elts=class_bases, ctx=Load()),',
             '                        Tuple(elts=class_bases[::-1], ctx=Load()),')],
  'id': 'm31',
  'prop': 'C12',
  'tests': 'SURVIVES'},
 {'expect': ['C13-R6'],
  'files': [('oneliner/pending_nodes.py',
             '                    _slice = Constant(value=index - len(target.elts))',
             '                    _slice = Constant(value=index - len(target.elts) + 1)')],
  'id': 'm32',
  'prop': 'C13',
  'tests': 'KILLED'},
 {'expect': ['C13-R6'],
  'files': [('oneliner/pending_nodes.py',
             '                slice_upper = Constant(value=index - len(target.elts) + 1)',
             '                slice_upper = Constant(value=index - len(target.elts))')],
  'id': 'm33',
  'prop': 'C13',
  'tests': 'KILLED'},
 {'expect': ['C14-R2'],
  'files': [('oneliner/pending_nodes.py',
             '        for _alias in self.node.names:\n            from_list.append(Constant(value=_alias.name))',
             '        for _alias in self.node.names[:1]:\n            from_list.append(Constant(value=_alias.name))')],
  'id': 'm34',
  'prop': 'C14',
  'tests': 'SURVIVES'},
 {'expect': ['C17-R1'],
  'files': [('oneliner/expr_transform.py',
             'def expr_transf(nsp: Namespace, node: expr):\n    return ExpressionTransformer(nsp).cvt(node)',
             'def expr_transf(nsp: Namespace, node: expr):\n'
             '    if isinstance(node, BinOp):\n'
             '        return BinOp(left=expr_transf(nsp, node.left), op=node.op, right=expr_transf(nsp, node.right))\n'
             '    return ExpressionTransformer(nsp).cvt(node)')],
  'id': 'm37',
  'prop': 'C17',
  'tests': 'SURVIVES'},
 {'expect': ['C08-R4'],
  'files': [('oneliner/pending_nodes.py',
             '                if have_starred:\n                    raise SyntaxError(',
             '                if False:\n                    raise SyntaxError(')],
  'id': 'm39',
  'prop': 'C08',
  'tests': 'KILLED'},
 {'expect': ['C08-R2'],
  'files': [('oneliner/convert.py',
             '        except KeyError as err:\n'
             '            raise RuntimeError(\n'
             '                utils.ast_debug_info(node)  # type: ignore\n'
             '                + f"Unable to convert node \'{type(node).__name__}\'"\n'
             '            ) from err',
             '        except KeyError:\n            return PendingPass(node, nsp=nsp_stack[-1], nsp_global=nsp_global)')],
  'id': 'm40',
  'prop': 'C08',
  'tests': 'KILLED'},
 {'expect': ['C11-R1'],
  'files': [('oneliner/pending_nodes.py',
             '        if original_args.vararg is not None:\n'
             '            converted_args.vararg = arg(arg=original_args.vararg.arg)\n'
             '        if original_args.kwarg is not None:\n'
             '            converted_args.kwarg = arg(arg=original_args.kwarg.arg)',
             '        if original_args.vararg is not None:\n            converted_args.vararg = arg(arg=original_args.vararg.arg)')],
  'id': 'm41',
  'prop': 'C11',
  'tests': 'KILLED'},
 {'expect': ['C06-R5'],
  'files': [('oneliner/pending_nodes.py',
             '                nonlocal_dict_values.append(Name(id=nonlocal_param, ctx=Load()))',
             '                nonlocal_dict_values.append(Constant(value=None))')],
  'id': 'm44',
  'prop': 'C06',
  'tests': 'KILLED'},
 {'expect': ['C05-R3'],
  'files': [('oneliner/presets/iter_wrapper.py',
             '                        body=IfExp(\n'
             '                            test=Attribute(\n'
             '                                value=Name(id="self", ctx=Load()),\n'
             '                                attr="_break",\n'
             '                                ctx=Load(),\n'
             '                            ),\n'
             '                            body=Call(\n'
             '                                func=Name(id="next", ctx=Load()),\n'
             '                                args=[\n'
             '                                    Call(\n'
             '                                        func=Name(id="iter", ctx=Load()),\n'
             '                                        args=[List(elts=[], ctx=Load())],',
             '                        body=IfExp(\n'
             '                            test=Attribute(\n'
             '                                value=Name(id="self", ctx=Load()),\n'
             '                                attr="_break",\n'
             '                                ctx=Load(),\n'
             '                            ),\n'
             '                            body=Call(\n'
             '                                func=Name(id="next", ctx=Load()),\n'
             '                                args=[\n'
             '                                    Call(\n'
             '                                        func=Name(id="iter", ctx=Load()),\n'
             '                                        args=[List(elts=[Constant(value=None)], ctx=Load())],')],
  'id': 'm45',
  'prop': 'C05',
  'tests': 'KILLED'}]

EQUIVALENTS = [{'files': [('oneliner/expr_unparse.py', '        elif ord(i) > 127 and', '        elif not ord(i) <= 127 and')],
  'id': 'm21',
  'props': ['C04'],
  'why': 'the same threshold, negated comparison (the original pilot survivor, > 255 -> > 127, became the repository state with fix c38bafc)'},
 {'files': [('oneliner/pending_nodes.py',
             '        if self.nsp_global.use_importlib:\n            self._insert_import_lib("importlib", "importlib")',
             '        if self.nsp_global.use_importlib:\n'
             '            self.converted_body.append(self.converted_body.pop(0)) if False else self._insert_import_lib("importlib", "importlib")')],
  'id': 'm35',
  'props': ['C14'],
  'why': 'behaviour-preserving by construction (pilot survivor)'},
 {'files': [('oneliner/__init__.py', '        return ast.unparse(out).replace("\\n", "")', '        return ast.unparse(out)')],
  'id': 'm36',
  'props': ['C02'],
  'why': 'behaviour-preserving by construction (pilot survivor)'},
 {'files': [('oneliner/utils.py',
             '        args=[nodes[0]],\n        keywords=[],\n    )',
             '        args=[nodes[0]],\n        keywords=[],\n    ) if True else None')],
  'id': 'm38',
  'props': ['C09'],
  'why': 'behaviour-preserving by construction (pilot survivor)'},
 {'files': [('oneliner/pending_nodes.py',
             '                    args=[value],\n'
             '                    keywords=[],\n'
             '                ),\n'
             '            )\n'
             '        )\n'
             '\n'
             '        for index, sub_target in enumerate(target.elts):',
             '                    args=[value],\n'
             '                    keywords=[],\n'
             '                ),\n'
             '            )\n'
             '        ) if True else None\n'
             '\n'
             '        for index, sub_target in enumerate(target.elts):')],
  'id': 'm43',
  'props': ['C07'],
  'why': 'behaviour-preserving by construction (pilot survivor)'}]

# --- behaviour-preserving refactorings that must stay silent (robustness of the analyser) ----
_ALL = ["C%02d" % i for i in range(1, 18)]
EQUIVALENTS += [
    {"id": "e01", "props": ["C03", "C15", "C11"], "why": "driver wraps when >= (more parentheses, still correct)",
     "files": [("oneliner/expr_unparse.py", "if inner_node.node_precedence > inner_node.outer_precedence:", "if inner_node.node_precedence >= inner_node.outer_precedence:")]},
    {"id": "e02", "props": ["C05", "C07", "C02", "C09", "C01"], "why": "rename a local of PendingWhile.get_result",
     "files": [("oneliner/pending_nodes.py", "        while_loop_final: list[expr] = []", "        final_nodes: list[expr] = []"),
               ("oneliner/pending_nodes.py", "            while_loop_final.append(\n                NamedExpr(\n                    target=self.flow_ctrl_break_expr,", "            final_nodes.append(\n                NamedExpr(\n                    target=self.flow_ctrl_break_expr,"),
               ("oneliner/pending_nodes.py", "        while_loop_final.append(while_loop_body)", "        final_nodes.append(while_loop_body)"),
               ("oneliner/pending_nodes.py", "            while_loop_final.append(while_loop_orelse)\n\n        return while_loop_final", "            final_nodes.append(while_loop_orelse)\n\n        return final_nodes")]},
    {"id": "e03", "props": ["C01", "C07", "C02", "C06"], "why": "extract a helper method that builds the conditional expression",
     "files": [("oneliner/pending_nodes.py", "        else:  # if_style==\"if_expr\"\n            return [IfExp(test=test, body=body, orelse=orelse)]", "        else:  # if_style==\"if_expr\"\n            return [self._as_ifexp(test, body, orelse)]\n\n    def _as_ifexp(self, test: expr, body: expr, orelse: expr) -> expr:\n        node = IfExp(test=test, body=body, orelse=orelse)\n        return node")]},
    {"id": "e04", "props": ["C03", "C15", "C04"], "why": "first rung of the precedence ladder written as a literal",
     "files": [("oneliner/expr_unparse.py", "enum = itertools.count()\nPREC_NAME = next(enum)", "PREC_NAME = 0\nenum = itertools.count(1)")]},
    {"id": "e05", "props": ["C05", "C09", "C02"], "why": "build the flag assignment through a local variable",
     "files": [("oneliner/pending_nodes.py", "        if isinstance(self.loop, PendingWhile):\n            return_value.append(\n                NamedExpr(\n                    target=self.loop.flow_ctrl_break_expr,\n                    value=Constant(value=True),\n                )\n            )", "        if isinstance(self.loop, PendingWhile):\n            set_flag = NamedExpr(\n                target=self.loop.flow_ctrl_break_expr,\n                value=Constant(value=True),\n            )\n            return_value.append(set_flag)")]},
    {"id": "e06", "props": ["C05", "C10", "C09"], "why": "reorder independent statements of a constructor",
     "files": [("oneliner/pending_nodes.py", "        self.flow_ctrl_wrapped_iter_expr = Name(id=ol_name(OL_WRAPPED_ITER))\n        self.flow_ctrl_interrupt_expr = Name(id=ol_name(OL_INTERRUPT))\n        self.flow_ctrl_interrupt_used = False\n        self.interrupt_node_bodies = []", "        self.interrupt_node_bodies = []\n        self.flow_ctrl_interrupt_used = False\n        self.flow_ctrl_interrupt_expr = Name(id=ol_name(OL_INTERRUPT))\n        self.flow_ctrl_wrapped_iter_expr = Name(id=ol_name(OL_WRAPPED_ITER))")]},
    {"id": "e07", "props": ["C06", "C02", "C09", "C13"], "why": "decision list of NamespaceGlobal-less class written with early returns",
     "files": [("oneliner/namespaces.py", "        if name in self.inner_nonlocal_names:\n            return Subscript(\n                value=self.nonlocal_dict_expr,\n                slice=Constant(value=name),\n                ctx=Load(),\n            )\n        elif name in self.outer_nonlocal_map:", "        if name in self.inner_nonlocal_names:\n            return Subscript(\n                value=self.nonlocal_dict_expr,\n                slice=Constant(value=name),\n                ctx=Load(),\n            )\n        if name in self.outer_nonlocal_map:")]},
    {"id": "e08", "props": ["C13", "C02", "C06", "C09"], "why": "slice helper uses a nested def instead of a lambda",
     "files": [("oneliner/utils.py", "    _slice_value = lambda v: Constant(None) if v is None else v\n", "    def _slice_value(v):\n        if v is None:\n            return Constant(None)\n        return v\n\n")]},
    {"id": "e09", "props": ["C08", "C01", "C17", "C10"], "why": "rename the dispatch table",
     "files": [("oneliner/convert.py", "ast2pending: dict[type[ast.AST], type[PendingNode]] = {", "DISPATCH: dict[type[ast.AST], type[PendingNode]] = {"),
               ("oneliner/convert.py", "            return ast2pending[type(node)](", "            return DISPATCH[type(node)](")]},
    {"id": "e10", "props": ["C16", "C10"], "why": "rename variables of the command line",
     "files": [("oneliner/__main__.py", "converted = oneliner.convert_code_string(script, configs=cfg)", "result_text = oneliner.convert_code_string(script, configs=cfg)"),
               ("oneliner/__main__.py", "        outfile.write(converted)\nelse:\n    print(converted)", "        outfile.write(result_text)\nelse:\n    print(result_text)")]},
    {"id": "e11", "props": ["C03", "C15"], "why": "slot precedences through local variables",
     "files": [("oneliner/expr_unparse.py", "    body = yield PREC_IFEXP_SLOT_LEFT, node.body\n    test = yield PREC_IFEXP_SLOT_LEFT, node.test", "    left_slot = PREC_IFEXP_SLOT_LEFT\n    body = yield left_slot, node.body\n    test = yield left_slot, node.test")]},
    {"id": "e12", "props": ["C05", "C11"], "why": "iterate over a copy of the loop stack",
     "files": [("oneliner/pending_nodes.py", "        self.nsp.return_cnt += 1\n        for loop in self.nsp.loop_stack:", "        self.nsp.return_cnt += 1\n        for loop in list(self.nsp.loop_stack):")]},
    {"id": "e13", "props": ["C07", "C11", "C17"], "why": "reversed() written as a [::-1] slice",
     "files": [("oneliner/pending_nodes.py", "        for dec_expr in reversed(self.node.decorator_list):", "        for dec_expr in self.node.decorator_list[::-1]:")]},
    {"id": "e14", "props": ["C16", "C10"], "why": "descriptor validates through a local alias of the allowed list",
     "files": [("oneliner/config.py", "        if isinstance(self.tp, list):\n            if value not in self.tp:", "        allowed = self.tp\n        if isinstance(allowed, list):\n            if value not in allowed:")]},
    {"id": "e15", "props": ["C14", "C02", "C09"], "why": "from-list built with a comprehension",
     "files": [("oneliner/pending_nodes.py", "        from_list: list[expr] = []\n        for _alias in self.node.names:\n            from_list.append(Constant(value=_alias.name))", "        from_list: list[expr] = [Constant(value=_alias.name) for _alias in self.node.names]")]},
    {"id": "e16", "props": ["C12", "C07", "C02"], "why": "class keywords collected with append in an else branch",
     "files": [("oneliner/pending_nodes.py", "                metaclass_expr = expr_transf(self.nsp, _keyword.value)\n                continue\n            class_keywords.append(", "                metaclass_expr = expr_transf(self.nsp, _keyword.value)\n                continue\n            else:\n                pass\n            class_keywords.append(")]},
]

# --- second batch: at least two mutants per claimed rule (anchored on the repaired tree) -------
PN = "oneliner/pending_nodes.py"
EU = "oneliner/expr_unparse.py"
MUTANTS += [
    {"id": "n01", "prop": "C01", "expect": ["C01-R1"], "files": [(PN, "        loader_name = ol_name(OL_CLASS_LOADER)", "        loader_name = \"__loader\"")]},
    {"id": "n03", "prop": "C01", "expect": ["C01-R3"], "files": [("oneliner/__init__.py", "    symtable_root = symtable.symtable(code, filename, \"exec\")", "    symtable_root = symtable.symtable(code.strip(), filename, \"exec\")")]},
    {"id": "n04", "prop": "C02", "expect": ["C02-R1"], "files": [("oneliner/reserved_identifiers.py", "\"__ol_mod_{}\"", "\"__ol_mod-{}\"")]},
    {"id": "n05", "prop": "C02", "expect": ["C02-R2"], "files": [(PN, "        _slice = utils.convert_index(expr_transf(self.nsp, target.slice))", "        _slice = expr_transf(self.nsp, target.slice)")]},
    {"id": "n07", "prop": "C02", "expect": ["C02-R5"], "files": [("oneliner/__init__.py", "        return expr_unparse(out)", "        return expr_unparse(out).strip(\"()\")")]},
    {"id": "n08", "prop": "C03", "expect": ["C03-R1"], "files": [(EU, "        Await: unparse_Await,\n", "")]},
    {"id": "n09", "prop": "C03", "expect": ["C03-R2"], "files": [(EU, "    if node.step is not None:\n        step = yield PREC_EXPR_SLOT, node.step\n", "")]},
    {"id": "n10", "prop": "C03", "expect": ["C03-R4"], "files": [(EU, "    if value.isdigit():", "    if False:")]},
    {"id": "n11", "prop": "C03", "expect": ["C03-R5"], "files": [(EU, "    Sub: \"-\",\n}", "    Sub: \"+\",\n}")]},
    {"id": "n12", "prop": "C03", "expect": ["C03-R5"], "files": [(EU, "    Is: \" is \",", "    Is: \"is\",")]},
    {"id": "n14", "prop": "C04", "expect": ["C04-R1"], "files": [(EU, "        if i == qm:\n            out.append(f\"\\\\{qm}\")\n        elif ord(i) > 127", "        if ord(i) > 127")]},
    {"id": "n15", "prop": "C04", "expect": ["C04-R1"], "files": [(EU, "        elif ord(i) > 127 and", "        elif ord(i) > 126 and")]},
    {"id": "n16", "prop": "C04", "expect": ["C04-R2"], "files": [(EU, ".replace(\"inf\", \"1e309\")", ".replace(\"inf\", \"1e308\")")]},
    {"id": "n17", "prop": "C04", "expect": ["C04-R3"], "files": [(EU, "    if value[0] == \"{\":\n        value = \" \" + value\n", "")]},
    {"id": "n18", "prop": "C04", "expect": ["C04-R4"], "files": [(EU, "            if outer_str_qm == \"'\":\n                self.qm = '\"'\n            elif outer_str_qm == '\"':\n                self.qm = \"'\"", "            self.qm = outer_str_qm")]},
    {"id": "n19", "prop": "C05", "expect": ["C05-R1"], "files": [(PN, "        self.loop = self.nsp.loop_stack[-1]\n        self.loop.interrupt_cnt += 1\n\n    def get_result(self) -> list[expr]:\n        return_value: list[expr] = []\n        self.loop.interrupt_node_bodies.append(return_value)", "        self.loop = self.nsp.loop_stack[-1]\n        self.loop.interrupt_cnt += 1\n        self.loop.break_cnt += 1\n\n    def get_result(self) -> list[expr]:\n        return_value: list[expr] = []\n        self.loop.interrupt_node_bodies.append(return_value)")]},
    {"id": "n20", "prop": "C05", "expect": ["C05-R2"], "files": [(PN, "        # init the interrupt flow-control var\n        if self.flow_ctrl_interrupt_used:\n            self.converted_body.insert(\n                0,\n                NamedExpr(", "        # init the interrupt flow-control var\n        if self.flow_ctrl_interrupt_used:\n            self.converted_body.append(\n                NamedExpr(")]},
    {"id": "n21", "prop": "C05", "expect": ["C05-R2"], "files": [(PN, "                    operand=Attribute(\n                        value=self.flow_ctrl_wrapped_iter_expr,\n                        attr=\"_break\",\n                        ctx=Load(),\n                    ),", "                    operand=self.flow_ctrl_interrupt_expr,")]},
    {"id": "n22", "prop": "C05", "expect": ["C05-R4"], "files": [(PN, "        yield from self._iter_branch(\n            self.converted_orelse,\n            self.node.orelse,\n            get_interrupt_cnt,\n            get_flow_control_expr,\n        )\n\n\nclass PendingWhile", "        yield from self._iter_branch(\n            self.converted_orelse,\n            self.node.orelse,\n            lambda: self.interrupt_cnt,\n            self.get_flow_ctrl_expr,\n        )\n\n\nclass PendingWhile")]},
    {"id": "n23", "prop": "C06", "expect": ["C06-R1"], "files": [(PN, "                    target=self.nsp.return_value_expr,\n                    value=expr_transf(self.nsp, self.node.value),", "                    target=self.nsp.return_value_expr,\n                    value=self.node.value,")]},
    {"id": "n24", "prop": "C06", "expect": ["C06-R2"], "files": [("oneliner/expr_transform.py", "        elif isinstance(node, (ListComp, SetComp, DictComp, GeneratorExp)):\n            return PendingComp(node, self.nsp)\n", "")]},
    {"id": "n25", "prop": "C06", "expect": ["C06-R3"], "files": [("oneliner/namespaces.py", "            outer = self.outer_nonlocal_map[name]\n            return Subscript(\n                value=outer.nonlocal_dict_expr,\n                slice=Constant(value=name),\n                ctx=Load(),\n            )\n        else:  # globals or locals except free", "            outer = self.outer_nonlocal_map[name]\n            return Subscript(\n                value=self.nonlocal_dict_expr,\n                slice=Constant(value=name),\n                ctx=Load(),\n            )\n        else:  # globals or locals except free")]},
    {"id": "n26", "prop": "C06", "expect": ["C06-R4"], "files": [("oneliner/namespaces.py", "                if outer_symbol.is_local():\n                    outer.inner_nonlocal_names.add(nonlocal_free)\n                    self.outer_nonlocal_map[nonlocal_free] = outer\n                    if outer_symbol.is_parameter():\n                        outer.nonlocal_parameters.add(nonlocal_free)\n                    break\n            else:\n                raise RuntimeError(  # pragma: no cover\n                    f\"Unable to search the origin of nonlocal/free '{nonlocal_free}'\"\n                )\n\n    def get_flow_ctrl_expr", "                if outer_symbol.is_local() or outer_symbol.is_assigned():\n                    outer.inner_nonlocal_names.add(nonlocal_free)\n                    self.outer_nonlocal_map[nonlocal_free] = outer\n                    if outer_symbol.is_parameter():\n                        outer.nonlocal_parameters.add(nonlocal_free)\n                    break\n            else:\n                raise RuntimeError(  # pragma: no cover\n                    f\"Unable to search the origin of nonlocal/free '{nonlocal_free}'\"\n                )\n\n    def get_flow_ctrl_expr")]},
    {"id": "n28", "prop": "C06", "expect": ["C06-R6"], "files": [("oneliner/namespaces.py", "        self.globals_used_in_comp = set()\n", "        if sys.version_info < (3, 12):\n            self.globals_used_in_comp = set()\n"), ("oneliner/namespaces.py", "    globals_used_in_comp: set[str]  # global names used in lambdas/comprehensions\n", "")]},
    {"id": "n29", "prop": "C07", "expect": ["C07-R1"], "files": [(PN, "        if len(assign_targets) > 1 or isinstance(\n            assign_targets[0], (Attribute, Subscript)\n        ):", "        if isinstance(assign_targets[0], (Attribute, Subscript)):")]},
    {"id": "n31", "prop": "C07", "expect": ["C07-R3"], "files": [("oneliner/expr_transform.py", "        for field_name in self.node._fields:", "        for field_name in reversed(self.node._fields):")]},
    {"id": "n32", "prop": "C08", "expect": ["C08-R1"], "files": [("oneliner/convert.py", "    ast.FunctionDef: PendingFunctionDef,", "    ast.FunctionDef: PendingFunctionDef,\n    ast.AsyncFunctionDef: PendingFunctionDef,")]},
    {"id": "n33", "prop": "C08", "expect": ["C08-R2"], "files": [("oneliner/expr_transform.py", "                except StopIteration:\n                    converted = self.pending_stack.pop().get_result()", "                except Exception:\n                    converted = self.pending_stack.pop().get_result()")]},
    {"id": "n34", "prop": "C08", "expect": ["C08-R3"], "files": [("oneliner/expr_transform.py", "        elif isinstance(node, (Yield, YieldFrom, Await)):", "        elif isinstance(node, (YieldFrom, Await)):")]},
]

MUTANTS += [
    {"id": "n35", "prop": "C08", "expect": ["C08-R4"], "files": [(PN, "        if len(self.nsp.loop_stack) == 0:\n            raise SyntaxError(\n                utils.ast_debug_info(node) + \"'continue' is not inside a loop\"\n            )\n\n        self.loop = self.nsp.loop_stack[-1]\n        self.loop.interrupt_cnt += 1", "        if len(self.nsp.loop_stack) == 0:\n            self.loop = None\n            return\n\n        self.loop = self.nsp.loop_stack[-1]\n        self.loop.interrupt_cnt += 1")]},
    {"id": "n36", "prop": "C08", "expect": ["C08-R5"], "files": [(PN, "        for _keyword in self.node.keywords:", "        for _keyword in []:")]},
    {"id": "n37", "prop": "C09", "expect": ["C09-R1"], "files": [("oneliner/reserved_identifiers.py", "OL_RETURN: _ol_reserved_name = \"__ol_ret_{}\"", "OL_RETURN: _ol_reserved_name = \"__ol_retv_{}\"")]},
    {"id": "n38", "prop": "C09", "expect": ["C09-R2"], "files": [(PN, "                value=Lambda(\n                    args=arguments(\n                        posonlyargs=[],\n                        args=[],\n                        kwonlyargs=[],\n                        kw_defaults=[],\n                        defaults=[],\n                    ),\n                    body=Subscript(\n                        value=List(elts=class_body, ctx=Load()),", "                value=Lambda(\n                    args=arguments(\n                        posonlyargs=[],\n                        args=[arg(arg=\"ns\")],\n                        kwonlyargs=[],\n                        kw_defaults=[],\n                        defaults=[Constant(value=None)],\n                    ),\n                    body=Subscript(\n                        value=List(elts=class_body, ctx=Load()),")]},
    {"id": "n39", "prop": "C10", "expect": ["C10-R1"], "files": [("oneliner/utils.py", "def get_expr_wrapper(configs: Configs):\n    if configs.expr_wrapper == \"chain_call\":", "_wrapper_cache: dict = {}\n\n\ndef get_expr_wrapper(configs: Configs):\n    if \"last\" in _wrapper_cache:\n        return _wrapper_cache[\"last\"]\n    _wrapper_cache[\"last\"] = None\n    if configs.expr_wrapper == \"chain_call\":")]},
    {"id": "n40", "prop": "C10", "expect": ["C10-R2", "C10-R1"], "files": [(PN, "            from .presets import iter_wrapper_body\n\n            self.converted_body.insert(0, iter_wrapper_body)", "            from .presets import iter_wrapper_body\n\n            iter_wrapper_body.value.keywords = []\n            self.converted_body.insert(0, iter_wrapper_body)")]},
    {"id": "n41", "prop": "C10", "expect": ["C10-R4"], "files": [("oneliner/reserved_identifiers.py", "import oneliner.utils as utils\n", "import functools\n\nimport oneliner.utils as utils\n"), ("oneliner/reserved_identifiers.py", "def ol_name(name: _ol_reserved_name):", "@functools.cache\ndef ol_name(name: _ol_reserved_name):")]},
    {"id": "n42", "prop": "C10", "expect": ["C10-R5"], "files": [("oneliner/__init__.py", "import ast\nimport symtable\n", "import ast\nimport os\nimport symtable\n"), ("oneliner/__init__.py", "    if configs.unparser == \"oneliner\":", "    if configs.unparser == \"oneliner\" or os.environ.get(\"ONELINER_UNPARSER\") == \"oneliner\":")]},
    {"id": "n43", "prop": "C11", "expect": ["C11-R1"], "files": [(PN, "        for _arg in original_args.kwonlyargs:\n            converted_args.kwonlyargs.append(arg(arg=_arg.arg))", "        for _arg in original_args.kwonlyargs:\n            converted_args.args.append(arg(arg=_arg.arg))")]},
    {"id": "n45", "prop": "C11", "expect": ["C11-R5"], "files": [(PN, "        return [self.nsp.get_assign(self.node.name, body_expr)]", "        return [self.internal_nsp.get_assign(self.node.name, body_expr)]")]},
    {"id": "n46", "prop": "C12", "expect": ["C12-R2"], "files": [(PN, "                value=self.nsp.get_load_name(self.node.name),", "                value=Name(id=self.node.name, ctx=Load()),")]},
    {"id": "n47", "prop": "C12", "expect": ["C12-R4"], "files": [(PN, "        if self.internal_nsp.zero_arg_super_used:", "        if self.internal_nsp.is_method:")]},
    {"id": "n48", "prop": "C12", "expect": ["C12-R5"], "files": [(PN, "            \"__class_getitem__\",\n", "            \"__class_getitem__\",\n            \"__new__\",\n")]},
    {"id": "n51", "prop": "C13", "expect": ["C13-R4"], "files": [(PN, "            raise NotImplementedError(f\"Unknown assignment target: {type(target)}\")", "            return []")]},
    {"id": "n52", "prop": "C13", "expect": ["C13-R7"], "files": [(PN, "        return self.nsp.get_assign(target.id, value)", "        return NamedExpr(target=Name(id=target.id, ctx=Store()), value=value)")]},
    # n53 (aliased imports through __import__) became behaviour-preserving with fix 3353021: see e27
    {"id": "n54", "prop": "C14", "expect": ["C14-R5"], "files": [(PN, "        super().__init__(node, nsp, nsp_global)\n        self.nsp_global.use_importlib = True", "        super().__init__(node, nsp, nsp_global)")]},
    {"id": "n55", "prop": "C15", "expect": ["C15-R1"], "files": [(EU, "        _slice = yield PREC_EXPR_SLOT, node.slice", "        _slice = yield PREC_CALL_SLOT_ARG, node.slice")]},
    {"id": "n56", "prop": "C15", "expect": ["C15-R3", "C15-R2"], "files": [(EU, "    if \"\\\\\" in value:", "    if sys.version_info < (3, 12) and \"\\\\\" in value:"), (EU, "import itertools\nimport typing", "import itertools\nimport sys\nimport typing")]},
    {"id": "n58", "prop": "C16", "expect": ["C16-R2"], "files": [("oneliner/__main__.py", "        outfile.write(converted)", "        outfile.write(converted.strip())")]},
    {"id": "n59", "prop": "C16", "expect": ["C16-R3"], "files": [("oneliner/config.py", "            if value not in self.tp:\n                raise ValueError(\n                    f\"Invalid value of config '{self.name}', \"\n                    f\"got '{value}', expected {self.tp}\"\n                )", "            if value not in self.tp:\n                value = self.default")]},
    {"id": "n60", "prop": "C13", "expect": ["C13-R3"], "files": [(PN, "                self.nsp.get_assign(\n                    self.node.target.id,\n                    self._aug_assign_expr(\n                        target,\n                        self.node.op,\n                        assign_value,\n                        fallback=BinOp(\n                            left=target, op=self.node.op, right=assign_value\n                        ),\n                    ),\n                )", "                self._aug_assign_expr(\n                    target,\n                    self.node.op,\n                    assign_value,\n                    fallback=self.nsp.get_assign(\n                        self.node.target.id,\n                        BinOp(left=target, op=self.node.op, right=assign_value),\n                    ),\n                )")]},
    {"id": "n61", "prop": "C17", "expect": ["C17-R1"], "files": [(EU, "def unparse_Await(node: Await) -> unparse_gen_t:\n    value = yield PREC_AWAIT_SLOT, node.value\n    return f\"await {value}\"", "def unparse_Await(node: Await) -> unparse_gen_t:\n    value = expr_unparse(node.value)\n    return f\"await ({value})\"\n    yield")]},
]

MUTANTS += [
    {"id": "q01", "prop": "C06", "expect": ["C06-R10"], "files": [("oneliner/convert.py", "                nsp=nsp_stack[-1],", "                nsp=nsp_stack[0],")]},
    {"id": "q02", "prop": "C06", "expect": ["C06-R10"], "files": [("oneliner/convert.py", "                if complete_node.has_internal_namespace:\n                    nsp_stack.pop()\n", "")]},
    {"id": "q03", "prop": "C06", "expect": ["C06-R11"], "files": [("oneliner/namespaces.py", "            walk_stack.pop()\n            generate_stack.pop()", "            walk_stack.pop()")]},
    {"id": "q04", "prop": "C03", "expect": ["C03-R7"], "files": [(EU, "    stack.append(_Node(PREC_EXPR_SLOT, node, '\"'))", "    stack.append(_Node(PREC_YIELD, node, '\"'))")]},
    {"id": "q05", "prop": "C03", "expect": ["C03-R7"], "files": [(EU, "            stack.append(_Node(slot_prec, unconverted_node, stack[-1].qm))", "            stack.append(_Node(PREC_EXPR_SLOT, unconverted_node, stack[-1].qm))")]},
    {"id": "q06", "prop": "C06", "expect": ["C06-R8"], "files": [("oneliner/expr_transform.py", "def expr_transf(nsp: Namespace, node: expr):\n    return ExpressionTransformer(nsp).cvt(node)", "def expr_transf(nsp: Namespace, node: expr):\n    if isinstance(node, (Constant, Attribute)):\n        return node\n    return ExpressionTransformer(nsp).cvt(node)")]},
]
EQUIVALENTS += [
    {"id": "e17", "props": ["C06", "C08", "C02", "C01"], "why": "constants are returned unchanged by expr_transf (no names inside)",
     "files": [("oneliner/expr_transform.py", "def expr_transf(nsp: Namespace, node: expr):\n    return ExpressionTransformer(nsp).cvt(node)", "def expr_transf(nsp: Namespace, node: expr):\n    if isinstance(node, Constant):\n        return node\n    return ExpressionTransformer(nsp).cvt(node)")]},
]

# round-2 rules: behaviour-preserving variants that must stay silent
NSF = "oneliner/namespaces.py"
EQUIVALENTS += [
    {"id": "e18", "props": ["C05", "C01", "C17"], "why": "the watcher captures the namespace object, not the counter: still a live read",
     "files": [(PN, "            self.nsp: NamespaceFunction  # fix type checker error\n            get_interrupt_cnt = lambda: self.nsp.return_cnt", "            fn_nsp = self.nsp\n            get_interrupt_cnt = lambda: fn_nsp.return_cnt")]},
    {"id": "e19", "props": ["C06", "C12", "C01"], "why": "symbol table hoisted into a local before the lookup",
     "files": [(NSF, "                outer_symbol = outer.symt.lookup(nonlocal_free)\n                if outer_symbol.is_local():\n                    outer.inner_nonlocal_names.add(nonlocal_free)\n                    self.outer_nonlocal_map[nonlocal_free] = outer\n                    if outer_symbol.is_parameter():\n                        outer.nonlocal_parameters.add(nonlocal_free)\n                    break\n            else:\n                raise RuntimeError(  # pragma: no cover\n                    f\"Unable to search the origin of nonlocal/free '{nonlocal_free}'\"\n                )\n\n    def get_flow_ctrl_expr", "                outer_table = outer.symt\n                outer_symbol = outer_table.lookup(nonlocal_free)\n                if outer_symbol.is_local():\n                    outer.inner_nonlocal_names.add(nonlocal_free)\n                    self.outer_nonlocal_map[nonlocal_free] = outer\n                    if outer_symbol.is_local() and outer_symbol.is_parameter():\n                        outer.nonlocal_parameters.add(nonlocal_free)\n                    break\n            else:\n                raise RuntimeError(  # pragma: no cover\n                    f\"Unable to search the origin of nonlocal/free '{nonlocal_free}'\"\n                )\n\n    def get_flow_ctrl_expr")]},
    {"id": "e20", "props": ["C16", "C10"], "why": "descriptor stores in both validation branches and returns early",
     "files": [("oneliner/config.py", "            if not isinstance(value, self.tp):\n                raise ValueError(f\"Invalid value of config '{self.name}'\")\n        instance.__dict__[self.name] = value", "            if not isinstance(value, self.tp):\n                raise ValueError(f\"Invalid value of config '{self.name}'\")\n            instance.__dict__[self.name] = value\n            return\n        vars(instance)[self.name] = value")]},
    {"id": "e21", "props": ["C11", "C12", "C07"], "why": "implicit classmethod decided before the decorator loop, applied after it",
     "files": [(PN, "        for dec_expr in reversed(self.node.decorator_list):\n            body_expr = Call(\n                func=expr_transf(self.nsp, dec_expr),\n                args=[body_expr],\n                keywords=[],\n            )\n\n        if self.internal_nsp.is_method and self.node.name in (\n            \"__init_subclass__\",\n            \"__class_getitem__\",\n        ):", "        implicit_cm = self.internal_nsp.is_method and self.node.name in (\n            \"__init_subclass__\",\n            \"__class_getitem__\",\n        )\n        for dec_expr in reversed(self.node.decorator_list):\n            body_expr = Call(\n                func=expr_transf(self.nsp, dec_expr),\n                args=[body_expr],\n                keywords=[],\n            )\n\n        if implicit_cm:")]},
]

# rules added after the hunting rounds
MUTANTS += [
    {"id": "r01", "prop": "C04", "expect": ["C04-R6"], "files": [(EU, "        elif ord(i) > 127 and", "        elif ord(i) > 255 and")]},
    {"id": "r02", "prop": "C04", "expect": ["C04-R6"], "files": [(EU, "        elif ord(i) > 127 and", "        elif ord(i) > 0x2000 and")]},
]
MUTANTS += [
    {"id": "r03", "prop": "C15", "expect": ["C15-R2"], "files": [(EU, "    if \"\\\\\" in value:\n", "    if False:\n")]},
    {"id": "r04", "prop": "C15", "expect": ["C15-R2"], "files": [(EU, "    if qm in value:\n", "    if qm in value and node.format_spec is None:\n")]},
    {"id": "r05", "prop": "C04", "expect": ["C04-R7"], "files": [(EU, "            field = yield PREC_FORMAT_EXPR_SLOT, v\n            contents.append(field)", "            field = yield PREC_FORMAT_EXPR_SLOT, v\n            if \"\\\\\" in field:\n                raise SyntaxError(\"Back slash is included in a f-string\")\n            contents.append(field)")]},
    {"id": "r06", "prop": "C15", "expect": ["C15-R2"], "files": [(EU, "    if qm in value:\n", "    if qm in value and sys.version_info < (3, 12):\n"), (EU, "import typing\n", "import sys\nimport typing\n")]},
]
MUTANTS += [
    {"id": "r07", "prop": "C04", "expect": ["C04-R8"], "files": [(EU, "            out.append(f\"\\\\x{ord(i):02x}\")", "            out.append(i)")]},
    {"id": "r08", "prop": "C04", "expect": ["C04-R8"], "files": [(EU, "    for i in value.decode(\"latin-1\"):\n        if i == qm:\n            out.append(f\"\\\\{qm}\")\n        elif ord(i) > 127:", "    for i in value.decode(\"latin-1\"):\n        if ord(i) > 127:")]},
    {"id": "r09", "prop": "C04", "expect": ["C04-R8", "C04-R4"], "files": [(EU, "        return f\"b{qm}{value}{qm}\"", "        return f\"b'{value}'\"")]},
    {"id": "r10", "prop": "C07", "expect": ["C07-R6"], "files": [(PN, "                orelse_or_true = Tuple(elts=[orelse], ctx=Load())\n                not_test = UnaryOp(op=Not(), operand=test)\n                semi_if = BoolOp(op=And(), values=[not_test, orelse_or_true])\n                return [BoolOp(op=Or(), values=[semi_if, body])]", "                body_or_true = Tuple(elts=[body], ctx=Load())\n                semi_if = BoolOp(op=And(), values=[test, body_or_true])\n                return [BoolOp(op=Or(), values=[semi_if, orelse])]")]},
    {"id": "r11", "prop": "C08", "expect": ["C08-R6"], "files": [(PN, "            converting.extend((yield node))\n\n", "            converting.extend((yield node))\n\n            if isinstance(node, (Break, Continue, Return)):\n                break\n\n")]},
    {"id": "r12", "prop": "C14", "expect": ["C14-R1"], "files": [(PN, "                for attr in _alias.name.split(\".\")[1:]:\n                    value = Attribute(value=value, attr=attr, ctx=Load())", "                value = Attribute(value=value, attr=_alias.name.split(\".\")[-1], ctx=Load())")]},
    {"id": "r13", "prop": "C14", "expect": ["C14-R1"], "files": [(PN, "            if _alias.asname is not None and \".\" in _alias.name:", "            if False:")]},
]
EQUIVALENTS += [
    {"id": "e24", "props": ["C05", "C08", "C01", "C17", "C07"], "why": "dead statements are converted and their result dropped (validated, not emitted)",
     "files": [(PN, "            converting.extend((yield node))\n\n", "            if dead:\n                yield node\n                continue\n            converting.extend((yield node))\n            if isinstance(node, (Break, Continue, Return)):\n                dead = True\n\n"), (PN, "        converting: list[expr] = []\n        stack = [converting]\n        for node in branch:", "        converting: list[expr] = []\n        stack = [converting]\n        dead = False\n        for node in branch:")]},
    {"id": "e23", "props": ["C04", "C15", "C02", "C03"], "why": "both refusal tests in one condition",
     "files": [(EU, "    if \"\\\\\" in value:\n", "    if \"\\\\\" in value or False:\n")]},
    {"id": "e22", "props": ["C04", "C15", "C02"], "why": "the same threshold spelled as >= 128",
     "files": [(EU, "        elif ord(i) > 127 and", "        elif ord(i) >= 128 and")]},
]

EQUIVALENTS += [
    {"id": "e25", "props": ["C11", "C03", "C02"], "why": "positional defaults attached by a forward walk from len(names) - len(defaults)",
     "files": [(EU, "    ind = len(arg_def_list)\n    for default in reversed(node.args.defaults):\n        ind -= 1\n        if default is not None:\n            arg_def_list[ind] += f\"={yield PREC_EXPR_SLOT,default}\"\n", "    first = len(arg_def_list) - len(node.args.defaults)\n    for ind, default in enumerate(node.args.defaults):\n        arg_def_list[first + ind] += f\"={yield PREC_EXPR_SLOT,default}\"\n")]},
    {"id": "e26", "props": ["C11", "C03", "C02"], "why": "positional defaults attached through negative indices, last default first",
     "files": [(EU, "    ind = len(arg_def_list)\n    for default in reversed(node.args.defaults):\n        ind -= 1\n        if default is not None:\n            arg_def_list[ind] += f\"={yield PREC_EXPR_SLOT,default}\"\n", "    for ind, default in enumerate(reversed(node.args.defaults), 1):\n        arg_def_list[-ind] += f\"={yield PREC_EXPR_SLOT,default}\"\n")]},
]
MUTANTS += [
    {"id": "r14", "prop": "C11", "expect": ["C11-R6"], "files": [(EU, "    ind = len(arg_def_list)\n    for default in reversed(node.args.defaults):\n        ind -= 1\n", "    ind = len(arg_def_list)\n    for default in node.args.defaults:\n        ind -= 1\n")]},
    {"id": "r15", "prop": "C11", "expect": ["C11-R6"], "files": [(EU, "    ind = len(arg_def_list)\n    for default in reversed(node.args.defaults):\n        ind -= 1\n", "    ind = len(node.args.args)\n    for default in reversed(node.args.defaults):\n        ind -= 1\n")]},
]

EQUIVALENTS += [
    {"id": "e27", "props": ["C14", "C01", "C09"], "why": "`import a as c` through __import__('a') binds the same module; dotted aliases take the attribute path anyway (former mutant n53)",
     "files": [(PN, "            if _alias.asname is not None:\n                asname = _alias.asname\n", "            if _alias.asname is not None:\n                asname = _alias.asname\n                import_func = Name(id=\"__import__\", ctx=Load())\n")]},
]

# a dedicated Lambda handler that also rewrites the defaults: with every kw_defaults entry kept in its
# position (e28, must stay silent) and with the None entries filtered out (r16: the list is shorter than
# kwonlyargs); r17: class-level reads of a name that nested scopes read as a global go to the class dict
# unless a comprehension is open (the body of a lambda is read in the class-level state)
ET = "oneliner/expr_transform.py"
NS = "oneliner/namespaces.py"
_LAM_HEAD = "class PendingComp(PendingExprGeneric[_CompNode]):\n"
_LAM_CLS = (
    "class PendingLambda(PendingExprGeneric[Lambda]):\n"
    "    def _iter_fields(self):\n"
    "        args = self.node.args\n"
    "        defaults = []\n"
    "        for default in args.defaults:\n"
    "            defaults.append((yield default))\n"
    "        kw_defaults = []\n"
    "        for default in args.kw_defaults:\n"
    "            if default is not None:\n"
    "                kw_defaults.append((yield default))\n"
    "%s"
    "        self.converted_dict[\"args\"] = arguments(\n"
    "            posonlyargs=args.posonlyargs,\n"
    "            args=args.args,\n"
    "            vararg=args.vararg,\n"
    "            kwonlyargs=args.kwonlyargs,\n"
    "            kw_defaults=kw_defaults,\n"
    "            kwarg=args.kwarg,\n"
    "            defaults=defaults,\n"
    "        )\n"
    "        self.converted_dict[\"body\"] = yield self.node.body\n"
    "\n\n"
)
_LAM_DISPATCH = ("        elif isinstance(node, (Yield, YieldFrom, Await)):\n", "        elif isinstance(node, Lambda):\n            return PendingLambda(node)\n        elif isinstance(node, (Yield, YieldFrom, Await)):\n")
EQUIVALENTS += [
    {"id": "e28", "props": ["C06", "C08", "C01", "C11", "C02"], "why": "dedicated Lambda handler that rewrites the defaults and keeps the None entries of kw_defaults in place",
     "files": [(ET, _LAM_HEAD, _LAM_CLS % "            else:\n                kw_defaults.append(None)\n" + _LAM_HEAD), (ET,) + _LAM_DISPATCH]},
]
MUTANTS += [
    {"id": "r16", "prop": "C06", "expect": ["C06-R1"], "files": [(ET, _LAM_HEAD, _LAM_CLS % "" + _LAM_HEAD), (ET,) + _LAM_DISPATCH]},
    {"id": "r17", "prop": "C06", "expect": ["C06-R3"], "files": [(NS, "        if name in self.globals_used_in_comp:\n            return Name(id=name, ctx=Load())\n", "        if name in self.globals_used_in_comp and self.comp_stack:\n            return Name(id=name, ctx=Load())\n")]},
]
