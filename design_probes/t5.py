import ast, sys
import os; sys.path.insert(0, os.environ.get('OLREPO','/repo'))
from oneliner.expr_unparse import expr_unparse
def rt(src):
    t = ast.parse(src, mode='eval').body
    try:
        out = expr_unparse(t)
    except Exception as e:
        print(repr(src), '-> UNPARSE-EXC', type(e).__name__, e); return
    try:
        t2 = ast.parse(out, mode='eval').body
        same = ast.dump(t)==ast.dump(t2)
    except Exception as e:
        same = 'REPARSE-EXC %s'%type(e).__name__
    print(repr(src), '->', repr(out), same)
for s in ["f'{x!r}'", "f'{x=}'", "f'{x:{w}}'", "f'{x:{w}.{p}}'", "f'{x:>{w}}'", "f'{ {1:2}[1]}'", "f'{a}{{b}}'", 'f"""{f"{x[\'a\']}"}"""',
          "a[1:2, 3]", "a[1:2]", "a[(1,2)]", "a[*b]", "a[b:=1]" if False else "a[(b:=1)]", "1e999", "1e999j", "-1", "(-1)**2", "(1).real", "1.5.real", "1j.real",
          "x[lambda: 1]", "[i async for i in y]", "f(a for a in b)", "f(*a, b, k=1, **c)", "f(**a, b=1)", "f(a, *b, c)",
          "lambda a=1, /, b=2, *, c, d=3, **k: 0", "lambda *, a: 0", "lambda *a, b=1: 0", "lambda a, /: 0",
          "{**a, 'b': 1}", "{k: v for k, v in x if k if v}", "[a for b in (c if d else e)]", "[a for b in c if (d if e else f)]",
          "a if (b if c else d) else e", "not (not a)", "-(-a)", "- -a", "a ** -b", "(-a) ** b", "(a ** b) ** c", "a ** b ** c", "(await a) ** b", "await (a ** b)" ,
          "a < (b < c)", "(a, *b)", "(yield)", "a.b.c", "a().b[0](1)", "(a:=1, b)", "'\\n\\r\\t\\x00\\u2028'", "b'\\n\"\\''", "'\\ud800'", "f'{x!s:>{w}}'",
          "a[1:2:3, ::, 4]", "a[::(yield)]", "print(*a)", "print(*a or b)", "[*a, *b]", "{*a}", "{**(a or b)}", "f(**a or b)", "f(x for x in y)(1)", "(x for x in y).z", 
          "lambda: (yield)", "lambda: (a := 1)", "(lambda: a)()", "(lambda: a).b", "a if b else lambda: c", "(lambda: a) if b else c"]:
    rt(s)
