"""bug3 (same mechanism as the known 'long program' RecursionError, but reached by ONE expression and with
every expr_wrapper): with unparser=ast.unparse the recursive ast.unparse of the host runs with the default
recursion limit, so an expression whose tree is deeper than ~330 levels can not be converted:
`s = a + a + ... ` with 332 operands, `o.s.s.s...` 328 attributes, `x.m(1).m(1)...` 164 calls, an if with 194
(short_circuit) / 324 (if_expr) elif arms, 328 nested conditional expressions. The source (and the
'oneliner' unparser, which is iterative) work up to ~2990, the limit of CPython's own compiler."""
import sys, os, itertools, io, contextlib

sys.path.insert(0, os.environ["OLREPO"])
import oneliner
from oneliner.config import Configs

N = 500
SCRIPTS = {
    "a + a + ... (%d operands)" % N: "a = 1\nx = " + " + ".join(["a"] * N) + "\nprint(x)\n",
    "'..' + s + '..' string concatenation (%d)" % N: "s = 'ab'\nx = " + " + ".join(["'<'", "s", "'>'"] * (N // 3)) + "\nprint(len(x))\n",
    "attribute chain (%d)" % N: "class O: pass\no = O()\no.s = o\nx = o" + ".s" * N + "\nprint(x is o)\n",
    "method chain (%d calls)" % (N // 2): "class B:\n    t = 0\n    def m(self, k):\n        self.t += k\n        return self\nx = B()" + ".m(1)" * (N // 2) + "\nprint(x.t)\n",
}


def run(fn):
    buf = io.StringIO()
    try:
        with contextlib.redirect_stdout(buf):
            fn()
    except BaseException as e:
        return "%s: %s" % (type(e).__name__, str(e)[:70])
    return buf.getvalue()


bad = 0
for name, src in SCRIPTS.items():
    exp = run(lambda: exec(src, {}))
    for combo in itertools.product(["ast.unparse", "oneliner"], ["list", "chain_call"], ["if_expr"]):
        cfg = Configs()
        cfg.unparser, cfg.expr_wrapper, cfg.if_style = combo
        try:
            text = oneliner.convert_code_string(src, configs=cfg)
            got = run(lambda: eval(text, {}))
            res = "ok" if got == exp else "DIFFERENT: " + got
        except BaseException as e:
            res = "conversion failed: %s: %s" % (type(e).__name__, str(e)[:50])
        if res != "ok":
            bad += 1
        print("%-45s %-38s %s" % (name, combo, res))
sys.exit(1 if bad else 0)
