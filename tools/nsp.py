import sys
from olsa.model import get_program
from olsa.extract import Templates
from olsa.tmpl import show
p=get_program(); T=Templates(p)
root,leaves,glob=T.namespace_leaves()
for c in leaves:
    for m in ('get_assign','get_load_name'):
        e=T.namespace_method(c,m)
        print('#####',c.name,m,len(e.paths))
        for pr in e.paths:
            print('  ',pr.outcome,'|', '; '.join(f"{k.split(':',1)[1] if ':' in k else k}={v}" for k,v in pr.assign.items())[:300])
            if pr.outcome=='ok': print('      =>',show(pr.result)[:300])
            else: print('      !!',pr.raised, pr.events[:2])
