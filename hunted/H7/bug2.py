"""statements after break/continue/return are dropped without being looked at:
unsupported constructs in them are silently accepted, and a `yield` there (which makes
the function a generator function in Python) is lost."""
import sys, os
sys.path.insert(0, os.path.dirname(os.path.abspath(__file__)))
from _common import *

SEMANTIC = '''
def empty():
    return
    yield
print(type(empty()).__name__, list(empty()))
def g():
    while True:
        break
        yield 1
    return 5
print(type(g()).__name__)
'''
# must be refused according to the README (try / with / raise / assert / del / yield)
REFUSE = {
    "try": "for i in range(3):\n    continue\n    try:\n        pass\n    finally:\n        pass\n",
    "with": "def f():\n    return 1\n    with open('x') as h:\n        pass\n",
    "raise": "while True:\n    break\n    raise ValueError()\n",
    "del": "def f(x):\n    return x\n    del x\n",
    "yield": "def f():\n    return 1\n    yield 2\n",
}
bad = 0
for combo in COMBOS:
    try:
        convert(SEMANTIC, combo)
    except (RuntimeError, SyntaxError, NotImplementedError):
        continue  # a clean refusal is the right answer: yield is not convertible
    d = differs(SEMANTIC, combo)
    if d:
        bad += 1
        print(combo, "->", d)
for name, src in REFUSE.items():
    try:
        convert(src, COMBOS[0])
    except (RuntimeError, SyntaxError, NotImplementedError):
        continue
    bad += 1
    print("unsupported %r after an interrupt statement is silently accepted" % name)
print("defect present" if bad else "ok")
sys.exit(1 if bad else 0)
