"""Maintenance tool: apply a behaviour-preserving refactoring diff to a scratch copy of /repo and
report every NEW finding / analysis error of every property check (each one is a false alarm or a
robustness gap of the analyser).  usage: try_refactor.py <diff>..."""
import concurrent.futures, json, os, shutil, subprocess, sys, tempfile
VERIF=os.path.dirname(os.path.dirname(os.path.abspath(__file__)))
PY="/venv/bin/python"
def one(diff):
    tmp=tempfile.mkdtemp(prefix='reftry-')
    try:
        dst=os.path.join(tmp,'repo')
        shutil.copytree('/repo',dst,ignore=shutil.ignore_patterns('.git','__pycache__','.ruff_cache','.benchmarks','*.egg-info','img','oneliner_tests'))
        r=subprocess.run(['patch','-p1','-s','--no-backup-if-mismatch','-i',os.path.abspath(diff)],cwd=dst,capture_output=True,text=True)
        if r.returncode: return diff,{'error':'patch failed '+r.stdout[-200:]}
        res={}
        for p in [f'C{i:02d}' for i in range(1,18)]:
            r=subprocess.run([PY,'-m','olsa','probe',p],env=dict(os.environ,OLSA_REPO=dst,PYTHONPATH=VERIF),capture_output=True,text=True,cwd=VERIF,timeout=900)
            try: dd=json.loads(r.stdout.strip().splitlines()[-1])
            except Exception: dd={'new':[],'analysis_errors':['crash '+(r.stdout+r.stderr)[-300:]]}
            if dd['new'] or dd['analysis_errors']: res[p]=dd
        return diff,res
    finally:
        shutil.rmtree(tmp,ignore_errors=True)
with concurrent.futures.ThreadPoolExecutor(max_workers=8) as ex:
    for diff,res in ex.map(one,sys.argv[1:]):
        if not res: print(f"{diff}: SILENT"); continue
        print(f"{diff}: ALARM")
        for p,d in res.items():
            if not isinstance(d,dict): print('   ',p,d); continue
            print('   ',p,'new=',sorted(set(d.get('new',[])))[:3],'errs=',[e[:160] for e in d.get('analysis_errors',[])][:2])
