"""bug3: `import a.b as c` binds the wrong object when the package attribute `a.b` is not the submodule.

Python (3.7+) compiles `import a.b as c` to IMPORT_NAME a.b ; IMPORT_FROM b ; STORE c, i.e. c = getattr(a, 'b')
(with sys.modules['a.b'] only as a fallback).  The converter emits `c := importlib.import_module('a.b')`, which
always returns sys.modules['a.b'].  The two differ for every package whose __init__ re-binds the name of one
of its submodules, the common `from .thing import thing` pattern.  In the standard library:
`unittest/__init__.py` does `from .main import TestProgram, main`, so `import unittest.main as m` gives the
class TestProgram in Python and the module unittest.main after conversion.
"""
import sys, os, io, itertools, contextlib, tempfile, shutil

sys.path.insert(0, os.environ["OLREPO"])
import oneliner
from oneliner import Configs

SCRIPTS = {
    "stdlib unittest.main": (
        "import unittest.main as m\n"
        "from unittest import main as n\n"
        "print(type(m).__name__, m is n)\n"
    ),
    "package with `from .thing import thing`": (
        "import h9shadow.thing as t\n"
        "import h9shadow.sub.leaf as leaf\n"
        "print(type(t).__name__, t() if callable(t) else None, leaf)\n"
    ),
    "same inside a function and a class body": (
        "def f():\n"
        "    import h9shadow.thing as t\n"
        "    return type(t).__name__\n"
        "class C:\n"
        "    import h9shadow.thing as t\n"
        "print(f(), type(C.__dict__['t']).__name__)\n"
    ),
}
PKG = {
    "h9shadow/__init__.py": "from .thing import thing\n",
    "h9shadow/thing.py": "def thing():\n    return 'thing() called'\n",
    "h9shadow/sub/__init__.py": "from . import leaf as _l\nleaf = 'attribute leaf'\n",
    "h9shadow/sub/leaf.py": "",
}


def combos():
    for u, w, i in itertools.product(
        ["ast.unparse", "oneliner"], ["list", "chain_call"], ["if_expr", "short_circuit"]
    ):
        c = Configs()
        c.unparser, c.expr_wrapper, c.if_style = u, w, i
        yield (u, w, i), c


def run(kind, text):
    for k in [k for k in sys.modules if k.split(".")[0] == "h9shadow"]:
        del sys.modules[k]
    ns = {"__name__": "__main__"}
    out = io.StringIO()
    exc = None
    try:
        with contextlib.redirect_stdout(out):
            if kind == "exec":
                exec(compile(text, "<orig>", "exec"), ns)
            else:
                eval(compile(text.strip(), "<conv>", "eval"), ns)
    except BaseException as e:  # noqa
        exc = "%s: %s" % (type(e).__name__, e)
    return out.getvalue(), exc


tmp = tempfile.mkdtemp(prefix="h9bug3_")
bad = 0
try:
    for rel, src in PKG.items():
        p = os.path.join(tmp, rel)
        os.makedirs(os.path.dirname(p), exist_ok=True)
        with open(p, "w") as f:
            f.write(src)
    sys.path.insert(0, tmp)
    sys.dont_write_bytecode = True
    for title, src in SCRIPTS.items():
        expected = run("exec", src)
        assert expected[1] is None, expected
        for name, cfg in combos():
            try:
                text = oneliner.convert_code_string(src, configs=cfg)
            except BaseException as e:  # noqa
                print("[%s] %s: conversion failed: %r" % (title, name, e))
                bad += 1
                continue
            got = run("eval", text)
            if got != expected:
                bad += 1
                print("[%s] %s" % (title, "/".join(name)))
                print("    expected stdout=%r exc=%r" % expected)
                print("    observed stdout=%r exc=%r" % got)
finally:
    shutil.rmtree(tmp, ignore_errors=True)

print("bug3 (`import a.b as c` binds sys.modules['a.b'], not the attribute):",
      "DEFECT PRESENT in %d script/option pairs" % bad if bad else "not reproduced")
sys.exit(1 if bad else 0)
