"""Engine T, part 2: statements and expressions of the builder-code subset."""
from __future__ import annotations

import ast

from .core import AnalysisError
from .interp_base import (
    BreakSig, ContinueSig, Frame, PathAbort, Raised, ReturnSig, contains_yield,
)
from .vals import *  # noqa: F401,F403
from .vals import Transf
from .reference import asdl
from .vals import (
    AstCls, BoundBuiltin, Cst, Ext, Func, Gen, Hole, Obj, PDict, PList, PSet, PTuple, Rep,
    RepoCls, RepoMod, SColl, Splice, Str, StrOp, SVal, Sym, TNode, TypeOf, UList, UNode,
    UPrim, Unknown, V, is_none,
)


_CARRIED: dict = {}
_CARRIED_KEEP: list = []


class StmtMixin:
    # ------------------------------------------------------------ statements
    def exec_block(self, stmts, fr: Frame):
        for st in stmts:
            self.exec_stmt(st, fr)

    def exec_stmt(self, st, fr: Frame):
        self.cur_site = (fr.module.rel if fr.module else "?", getattr(st, "lineno", 0))
        m = getattr(self, "st_" + type(st).__name__, None)
        if m is None:
            raise AnalysisError(
                f"statement kind {type(st).__name__} at {self.cur_site[0]}:{self.cur_site[1]} "
                "is outside the modelled builder subset"
            )
        return m(st, fr)

    def st_Expr(self, st, fr):
        self.ev(st.value, fr)

    def st_Pass(self, st, fr):
        pass

    def st_Global(self, st, fr):
        pass

    def st_Nonlocal(self, st, fr):
        pass

    def st_Assign(self, st, fr):
        v = self.ev(st.value, fr)
        for t in st.targets:
            self.assign(t, v, fr)

    def st_AnnAssign(self, st, fr):
        if st.value is None:
            return
        v = self.ev(st.value, fr)
        self.assign(st.target, v, fr)

    def st_AugAssign(self, st, fr):
        # target op= value
        if isinstance(st.target, ast.Name):
            cur = self.ev(ast.Name(id=st.target.id, ctx=ast.Load()), fr)
            v = self.ev(st.value, fr)
            self.assign(st.target, self.binop(st.op, cur, v, st), fr)
        elif isinstance(st.target, ast.Attribute):
            base = self.ev(st.target.value, fr)
            cur = self.getattr(base, st.target.attr, st)
            v = self.ev(st.value, fr)
            self.setattr(base, st.target.attr, self.binop(st.op, cur, v, st), st, aug=(type(st.op).__name__, v))
        elif isinstance(st.target, ast.Subscript):
            base = self.ev(st.target.value, fr)
            idx = self.ev(st.target.slice, fr)
            cur = self.getitem(base, idx, st)
            v = self.ev(st.value, fr)
            self.setitem(base, idx, self.binop(st.op, cur, v, st), st)
        else:
            raise AnalysisError(f"augmented assignment target {type(st.target).__name__}")

    def assign(self, t, v, fr):
        if isinstance(t, ast.Name):
            fr.locals[t.id] = v
        elif isinstance(t, ast.Attribute):
            base = self.ev(t.value, fr)
            self.setattr(base, t.attr, v, t)
        elif isinstance(t, ast.Subscript):
            base = self.ev(t.value, fr)
            idx = self.ev(t.slice, fr)
            self.setitem(base, idx, v, t)
        elif isinstance(t, (ast.Tuple, ast.List)):
            stars = [i for i, e in enumerate(t.elts) if isinstance(e, ast.Starred)]
            if stars:
                # a, *b, c = <concrete sequence>
                seq = self.concrete_seq(v) if isinstance(v, (PTuple, PList)) else None
                if seq is None or len(stars) != 1 or len(seq) < len(t.elts) - 1:
                    raise AnalysisError(f"starred assignment from {v!r} at line {getattr(t, 'lineno', '?')}")
                k = stars[0]
                tail = len(t.elts) - k - 1
                parts = list(seq[:k]) + [PList(list(seq[k: len(seq) - tail]))] + list(seq[len(seq) - tail:])
                for sub, item in zip(t.elts, parts):
                    self.assign(sub.value if isinstance(sub, ast.Starred) else sub, item, fr)
                return
            items = self.unpack(v, len(t.elts), t)
            for sub, item in zip(t.elts, items):
                self.assign(sub, item, fr)
        else:
            raise AnalysisError(f"assignment target {type(t).__name__}")

    def unpack(self, v, n, node):
        if isinstance(v, (PTuple, PList)) and len(v.items) == n and not any(
            isinstance(i, (Rep, Splice)) for i in v.items
        ):
            return list(v.items)
        if isinstance(v, (Unknown, SVal, Hole, StrOp)):
            return [Unknown(f"{getattr(v, 'desc', 'unpack')}[{i}]") for i in range(n)]
        raise AnalysisError(f"cannot unpack {v!r} into {n} targets at line {getattr(node, 'lineno', '?')}")

    def st_If(self, st, fr):
        if self.truth(self.ev(st.test, fr), st.test):
            self.exec_block(st.body, fr)
        else:
            self.exec_block(st.orelse, fr)

    def st_Return(self, st, fr):
        raise ReturnSig(self.ev(st.value, fr) if st.value is not None else Cst(None))

    def st_Break(self, st, fr):
        raise BreakSig()

    def st_Continue(self, st, fr):
        raise ContinueSig()

    def st_Raise(self, st, fr):
        exc = "Exception"
        msg = None
        if st.exc is not None:
            e = st.exc
            if isinstance(e, ast.Call):
                exc = ast.unparse(e.func)
                if e.args:
                    try:
                        mv = self.ev(e.args[0], fr)
                        msg = self.render_str(mv)
                    except (AnalysisError, PathAbort):
                        msg = None
            else:
                exc = ast.unparse(e)
        raise Raised(exc, self.cur_site, msg)

    def st_Assert(self, st, fr):
        # an assert states a belief of the code: refine without forking
        self.assume(st.test, fr)

    def assume(self, test, fr):
        """Force `test` to hold on this path (abort the path if it cannot)."""
        if isinstance(test, ast.Call) and isinstance(test.func, ast.Name) and test.func.id == "isinstance" and len(test.args) == 2:
            v = self.ev(test.args[0], fr)
            cls = self.ev(test.args[1], fr)
            if self.isinstance_force(v, cls) is False:
                raise PathAbort("assert isinstance contradicts the path")
            return
        if isinstance(test, ast.Compare) and len(test.ops) == 1 and isinstance(test.ops[0], ast.IsNot):
            v = self.ev(test.left, fr)
            r = self.ev(test.comparators[0], fr)
            if is_none(r):
                if is_none(v):
                    raise PathAbort("assert not None on None")
                if isinstance(v, (UNode, UPrim)):
                    v.opt = False
                return
        if isinstance(test, ast.Compare) and len(test.ops) == 1 and isinstance(test.ops[0], ast.Is):
            return
        # generic: evaluate; a concrete False aborts, unknown is assumed true
        self._assuming = getattr(self, "_assuming", 0) + 1
        try:
            v = self.ev(test, fr)
            t = self.truth(v, test, assume=True)
        finally:
            self._assuming -= 1
        if t is False:
            raise PathAbort("assert fails on this path")

    def st_Import(self, st, fr):
        for a in st.names:
            name = a.asname or a.name.split(".")[0]
            target = a.name if a.asname else a.name.split(".")[0]
            mi = self.prog.modules.get(target)
            fr.locals[name] = RepoMod(mi) if mi else Ext(target)

    def st_ImportFrom(self, st, fr):
        src = self.prog._abs_module(fr.module, st)
        for a in st.names:
            if a.name == "*":
                raise AnalysisError("star import inside a function")
            if src in self.prog.modules:
                fr.locals[a.asname or a.name] = self.module_global(self.prog.modules[src], a.name)
            else:
                fr.locals[a.asname or a.name] = Ext(f"{src}.{a.name}")

    def st_FunctionDef(self, st, fr):
        fr.locals[st.name] = Func(None, st, fr, module=fr.module, defcls=fr.defcls)

    def _is_chain_walk(self, st, fr):
        t = st.test
        if isinstance(t, ast.Compare) and len(t.ops) == 1 and isinstance(t.ops[0], ast.IsNot) and isinstance(t.left, ast.Name) and isinstance(t.comparators[0], ast.Constant) and t.comparators[0].value is None:
            v = fr.lookup(t.left.id)
            return isinstance(v, (Obj, Unknown)) and not getattr(v, "concrete", False)
        # `while isinstance(n, Attribute): n = n.value` down a chain of user nodes
        if isinstance(t, ast.Call) and isinstance(t.func, ast.Name) and t.func.id == "isinstance" and len(t.args) == 2 and isinstance(t.args[0], ast.Name):
            v = fr.lookup(t.args[0].id)
            return isinstance(v, UNode) or type(v).__name__ == "Transf"
        return False

    def st_While(self, st, fr):
        n = 0
        while True:
            t = self.truth(self.ev(st.test, fr), st.test)
            if not t:
                self.exec_block(st.orelse, fr)
                return
            n += 1
            if n >= 3 and self._is_chain_walk(st, fr):
                # `while x is not None: ...; x = x.<link>` over summary objects: the chain of enclosing
                # objects is followed for three links, then taken to have ended
                self.note(f"chain walk at line {st.lineno} cut after {n} links")
                self.exec_block(st.orelse, fr)
                return
            if n > 64:
                raise AnalysisError(f"while loop at line {st.lineno} does not terminate abstractly")
            try:
                self.exec_block(st.body, fr)
            except BreakSig:
                return
            except ContinueSig:
                continue

    def st_Delete(self, st, fr):
        for t in st.targets:
            if isinstance(t, ast.Name):
                fr.locals.pop(t.id, None)
            else:
                raise AnalysisError("del of a non-name")

    def st_With(self, st, fr):
        raise AnalysisError(f"with statement at line {st.lineno} is outside the modelled subset")

    def st_Try(self, st, fr):
        raise AnalysisError(f"try statement at line {st.lineno} is outside the modelled subset")

    # ------------------------------------------------------------------ for
    def st_For(self, st, fr):
        it = self.expand_splices(self.ev(st.iter, fr), f"{fr.module.rel}:{st.lineno}")
        seq = self.concrete_seq(it)
        if seq is not None:
            broke = False
            for item in seq:
                self.assign(st.target, item, fr)
                try:
                    self.exec_block(st.body, fr)
                except BreakSig:
                    broke = True
                    break
                except ContinueSig:
                    continue
            if not broke:
                self.exec_block(st.orelse, fr)
            return
        if isinstance(it, PList) and not it.sym_elem_of and all(not isinstance(i, Splice) for i in it.items) and all(len(i.items) == 1 for i in it.items if isinstance(i, Rep)):
            # mixed list: concrete items one by one, repeated parts symbolically
            broke = False
            first = None
            for item in list(it.items):
                if isinstance(item, Rep):
                    # one loop over a + b + c: "the element" is one generic element on a path, so the
                    # body's questions about it get one answer for all segments (2 paths, not 2**k)
                    e = item.items[0]
                    alias = None
                    shape = (type(e).__name__, getattr(e, "kinds", None) or getattr(e, "kind", None))
                    if isinstance(e, (UNode, TNode)) and isinstance(item.over, str):
                        if first is None:
                            first = (shape, item.over)
                        elif first[0] == shape and first[1] != item.over:
                            alias = (item.over + "[", first[1] + "[")
                            self.key_alias.append(alias)
                    try:
                        if self.symbolic_iteration(st, e, item.over, fr):
                            broke = True
                            break
                    finally:
                        if alias:
                            self.key_alias.remove(alias)
                    continue
                self.assign(st.target, item, fr)
                try:
                    self.exec_block(st.body, fr)
                except BreakSig:
                    broke = True
                    break
                except ContinueSig:
                    continue
            if not broke:
                self.exec_block(st.orelse, fr)
            return
        self.symbolic_for(st, it, fr)

    def expand_splices(self, it, site):
        """(a, *xs, b) with a symbolic xs: a sequence with one generic-element segment for xs."""
        if isinstance(it, (PList, PTuple)) and any(isinstance(i, Splice) for i in it.items) and not getattr(it, "sym_elem_of", None):
            items = []
            for i in it.items:
                if isinstance(i, Splice):
                    seq = self.concrete_seq(i.v)
                    if seq is not None:
                        items.extend(seq)
                    elif type(i.v).__name__ == "Lowered":
                        # the expressions a block was lowered to: one generic element
                        e = TNode("$LoweredItem", {"of": i.v}, self.cur_site)
                        items.append(Rep([e], f"lowered({self.describe(i.v.src)})", e))
                    else:
                        e, over = self.sym_elem(i.v, site)
                        items.append(Rep([e], over, e))
                else:
                    items.append(i)
            return PList(items)
        return it

    def concrete_seq(self, it):
        """Concrete list of items of an iterable, or None when symbolic."""
        if isinstance(it, (PList, PTuple, PSet)):
            if any(isinstance(i, (Rep, Splice)) for i in it.items):
                return None
            if isinstance(it, PList) and it.sym_elem_of:
                return None
            return list(it.items)
        if isinstance(it, PDict):
            if it.sym:
                return None
            return [k for k, _ in it.pairs]
        if isinstance(it, Cst) and isinstance(it.value, (str, tuple, list)):
            return [Cst(c) for c in it.value]
        if isinstance(it, StrOp) and it.op in ("enumerate", "zip", "reversed", "chain"):
            seqs = [self.concrete_seq(a) for a in it.args]
            if any(s is None for s in seqs):
                return None
            if it.op == "enumerate":
                return [PTuple([Cst(i), x]) for i, x in enumerate(seqs[0])]
            if it.op == "zip":
                return [PTuple(list(t)) for t in zip(*seqs)]
            if it.op == "reversed":
                return list(reversed(seqs[0]))
            if it.op == "chain":
                return [x for s in seqs for x in s]
        return None

    def sym_elem(self, it, site):
        """(element value, description of the iterable) for a symbolic iteration."""
        if isinstance(it, UList):
            lo_hi = self.intervals.get(f"len({it.path()})")
            if lo_hi is not None and lo_hi[1] is not None and lo_hi[1] <= 1 and not it.derived:
                # the list has exactly one element on this path: the element IS element 0
                return it.elem(0), it.path()
            self._star_counter[it.path()] = self._star_counter.get(it.path(), 0) + 1
            n = self._star_counter[it.path()]
            label = "*" if n == 1 else f"*{n}"
            xf = getattr(it, "xform", None)
            if xf is not None:
                return Transf(xf[0], it.elem(label), xf[1]), it.path()
            return it.elem(label), it.path()
        if isinstance(it, SColl):
            # iteration order of a set of strings follows the hash seed of the process
            return self.scoll_elem(it, "*"), (f"set({it.desc})" if it.kind == "set" else it.desc)
        if isinstance(it, StrOp) and it.op == "enumerate":
            e, d = self.sym_elem(it.args[0], site)
            start = it.args[1] if len(it.args) > 1 else None
            ssym = self.as_sym(start) if start is not None else Sym({}, 0)
            if ssym is None:
                raise AnalysisError(f"enumerate() with a start that is not a linear form at {site}")
            terms = dict(ssym.terms)
            terms[f"index({d})"] = terms.get(f"index({d})", 0) + 1
            idx = Sym(terms, ssym.const)
            return PTuple([idx, e]), d
        if isinstance(it, StrOp) and it.op in ("reversed", "sorted"):
            e, d = self.sym_elem(it.args[0], site)
            return e, f"{it.op}({d})"
        if isinstance(it, PDict) and it.sym and not it.pairs and len(it.sym) == 1:
            # iterating a dict filled by a symbolic loop: its keys, once per distinct key
            r0 = it.sym[0]
            return r0.items[0].items[0], r0.over
        if isinstance(it, PSet) and len(it.items) == 1 and isinstance(it.items[0], Rep) and len(it.items[0].items) == 1:
            # a set built from a user list: duplicates collapse, order is arbitrary
            return it.items[0].items[0], f"set({it.items[0].over})"
        if isinstance(it, StrOp) and it.op == "zip":
            parts = [self.sym_elem(a, site) for a in it.args]
            return PTuple([p[0] for p in parts]), "zip(" + ",".join(p[1] for p in parts) + ")"
        if isinstance(it, StrOp) and it.op == "chain":
            parts = [self.sym_elem(a, site) for a in it.args]
            return parts[0][0], "chain(" + ",".join(p[1] for p in parts) + ")"
        sp, sl = (it.args[0], it.args[1]) if isinstance(it, StrOp) and it.op == "slice" and isinstance(it.args[0], StrOp) else (it, None)
        if isinstance(sp, StrOp) and sp.op == "split" and isinstance(sp.args[0], UPrim) and isinstance(sp.args[1], str):
            # the components of a user string (a dotted module name): one generic component
            src = sp.args[0]
            d = UPrim(src.parent, src.field, src.typ, index=src.index)
            d.derived = f"split({sp.args[1]!r})[*]"
            d.facts = {f"contains:{sp.args[1]}": False}
            return d, f"{src.short_path()}.split({sp.args[1]!r})" + (f"[{sl}]" if sl is not None else "")
        if isinstance(it, StrOp) and it.op == "slice" and isinstance(it.args[0], (UList, PList)):
            e, d = self.sym_elem(it.args[0], site) if isinstance(it.args[0], UList) else (Unknown("elem"), "list")
            return e, f"{d}[{it.args[1]}]"
        if isinstance(it, PList) and len(it.items) == 1 and isinstance(it.items[0], Rep) and len(it.items[0].items) == 1 and not it.sym_elem_of:
            r0 = it.items[0]
            return r0.items[0], (f"filtered({r0.over})" if getattr(r0, "filtered", False) else r0.over)
        if isinstance(it, PList):
            # a list containing Rep items: iterate over "an element"
            return Unknown(f"elem(list@{site})"), f"list@{site}"
        if isinstance(it, (Unknown, SVal)):
            d = getattr(it, "desc", "?")
            return Unknown(f"{d}[*]"), d
        if isinstance(it, Hole):
            return Unknown("char"), "text"
        if isinstance(it, (UPrim, Str)) or (isinstance(it, StrOp) and it.op not in ("enumerate", "zip", "reversed", "chain", "slice", "sorted")):
            return Unknown("char", typ="char"), self.describe(it)
        if isinstance(it, Gen):
            raise AnalysisError("iteration over a generator object")
        raise AnalysisError(f"cannot iterate over {it!r} at {site}")

    def symbolic_for(self, st, it, fr):
        site = f"{fr.module.rel}:{st.lineno}"
        elem, over = self.sym_elem(it, site)
        broke = self.symbolic_iteration(st, elem, over, fr)
        if st.orelse:
            if broke:
                self.note(f"loop at {site}: left by break")
            else:
                # the symbolic iteration did not break: loop may complete -> else runs
                self.exec_block(st.orelse, fr)

    def symbolic_iteration(self, st, elem, over, fr):
        """One generic iteration of a loop over a symbolic iterable; returns True if it broke."""
        site = f"{fr.module.rel}:{st.lineno}"
        # loop-carried variables: stored and loaded inside the body
        carried = _CARRIED.get(id(st))
        if carried is None:
            stored, loaded = set(), set()
            for n in ast.walk(ast.Module(body=st.body, type_ignores=[])):
                if isinstance(n, ast.Name):
                    (stored if isinstance(n.ctx, ast.Store) else loaded).add(n.id)
                elif isinstance(n, ast.AugAssign) and isinstance(n.target, ast.Name):
                    stored.add(n.target.id)
                    loaded.add(n.target.id)
            tnames = {n.id for n in ast.walk(st.target) if isinstance(n, ast.Name)}
            carried = sorted((stored & loaded) - tnames)
            _CARRIED[id(st)] = carried
            _CARRIED_KEEP.append(st)
        holes = {}
        for name in carried:
            cur = fr.lookup(name)
            if cur is None:
                continue
            if isinstance(cur, Cst) and isinstance(cur.value, bool):
                if self.decide(f"loopcarried:{name}@{st.lineno}", ["first", "later"]) == "later":
                    fr.locals[name] = Cst(not cur.value)
            elif isinstance(cur, Cst) and cur.value is None:
                # "not seen yet" marker replaced by something in an earlier iteration
                # ("later" = an assignment of the body ran in an earlier iteration)
                if self.decide(f"loopcarried:{name}@{st.lineno}", ["first", "later"]) == "later":
                    u = Unknown(f"earlier({name})")
                    rhs = [
                        n.value for n in ast.walk(ast.Module(body=st.body, type_ignores=[]))
                        if isinstance(n, ast.Assign) and any(isinstance(t, ast.Name) and t.id == name for t in n.targets)
                    ]
                    u.not_none = bool(rhs) and all(not (isinstance(r, ast.Constant) and r.value is None) and not isinstance(r, ast.IfExp) for r in rhs)
                    fr.locals[name] = u
            elif isinstance(cur, (TNode, Sym, Cst, Hole, Str, StrOp, Unknown, Transf)) and not isinstance(cur, PList):
                h = TNode("$NestHole", {"name": Cst(name), "init": cur}, site)
                holes[name] = (cur, h)
                fr.locals[name] = h
                self.carried.append({"name": name, "site": site, "init": cur, "over": over, "hole": h, "updated": None, "step": None, "func": fr.where()})
        rec = self.start_recording()
        broke = False
        self.rep_stack.append(over)
        try:
            self.assign(st.target, elem, fr)
            try:
                self.exec_block(st.body, fr)
            except BreakSig:
                broke = True
            except ContinueSig:
                pass
        finally:
            self.rep_stack.pop()
            self.stop_recording(rec, over, elem)
        for name, (init, h) in holes.items():
            new = fr.lookup(name)
            for c in self.carried:
                if c["hole"] is h:
                    c["updated"] = new is not h
                    c["step"] = None if new is h else new
            if new is h:
                fr.locals[name] = init
            else:
                fr.locals[name] = TNode("$Nest", {"init": init, "step": new, "hole": h, "over": Cst(over)}, site)
        return broke

    # ------------------------------------------------------ list recording
    def start_recording(self):
        rec = {"start_uid": self.next_uid_probe(), "log": []}
        self.recorders.append(rec)
        return rec

    def next_uid_probe(self):
        return Cst(None).uid

    def stop_recording(self, rec, over, elem):
        self.recorders.remove(rec)
        by_list: dict[int, list] = {}
        order = []
        for lst, item, pos in rec["log"]:
            if lst.uid >= rec["start_uid"]:
                continue  # list created inside the iteration
            if lst.uid not in by_list:
                by_list[lst.uid] = (lst, [])
                order.append(lst.uid)
            by_list[lst.uid][1].append(item)
        for uid in order:
            lst, items = by_list[uid]
            ids = {id(i) for i in items}
            kept = [i for i in lst.items if id(i) in ids]
            if not kept:
                continue
            first = next(i for i, x in enumerate(lst.items) if id(x) in ids)
            rest = [x for x in lst.items if id(x) not in ids]
            fronts = [1 for l2, it2, pos in rec["log"] if l2 is lst and pos == "front"]
            rep = Rep(kept, f"reversed({over})" if fronts else over, elem)
            if len(kept) == 1 and isinstance(kept[0], TNode) and kept[0].kind == "$LoweredItem" and kept[0] is elem and not fronts:
                rep = Splice(kept[0].fields["of"])  # every element handed on unchanged: the block
            lst.items[:] = rest[:first] + [rep] + rest[first:]
            # propagate to outer recorders
            for outer in self.recorders:
                outer["log"].append((lst, rep, None))

    def log_append(self, lst, item, front=False):
        for rec in self.recorders:
            rec["log"].append((lst, item, "front" if front else None))

    # ----------------------------------------------------------- expressions
    def ev(self, node, fr: Frame) -> V:
        m = getattr(self, "ex_" + type(node).__name__, None)
        if m is None:
            raise AnalysisError(f"expression kind {type(node).__name__} at line {getattr(node, 'lineno', '?')}")
        return m(node, fr)

    def ex_Constant(self, node, fr):
        return Cst(node.value)

    def ex_Name(self, node, fr):
        v = fr.lookup(node.id)
        if v is not None:
            return v
        return self.module_global(fr.module, node.id, node)

    def ex_Attribute(self, node, fr):
        return self.getattr(self.ev(node.value, fr), node.attr, node)

    def ex_Subscript(self, node, fr):
        base = self.ev(node.value, fr)
        if isinstance(node.slice, ast.Slice):
            lo = self.ev(node.slice.lower, fr) if node.slice.lower else None
            hi = self.ev(node.slice.upper, fr) if node.slice.upper else None
            stp = self.ev(node.slice.step, fr) if node.slice.step else None
            return self.getslice(base, lo, hi, stp, node)
        return self.getitem(base, self.ev(node.slice, fr), node)

    def ex_Tuple(self, node, fr):
        return PTuple(self.ev_elts(node.elts, fr))

    def ex_List(self, node, fr):
        return PList(self.ev_elts(node.elts, fr))

    def ex_Set(self, node, fr):
        return PSet(self.ev_elts(node.elts, fr))

    def ev_elts(self, elts, fr):
        out = []
        for e in elts:
            if isinstance(e, ast.Starred):
                v = self.ev(e.value, fr)
                seq = self.concrete_seq(v)
                if seq is None:
                    out.append(Splice(v))
                else:
                    out.extend(seq)
            else:
                out.append(self.ev(e, fr))
        return out

    def ex_Dict(self, node, fr):
        d = PDict()
        for k, v in zip(node.keys, node.values):
            if k is None:
                src = self.ev(v, fr)
                if isinstance(src, PDict):
                    d.pairs.extend(src.pairs)
                else:
                    raise AnalysisError("** of a symbolic dict")
            else:
                d.pairs.append((self.ev(k, fr), self.ev(v, fr)))
        return d

    def ex_Lambda(self, node, fr):
        return Func(None, node, fr, module=fr.module, defcls=fr.defcls)

    def ex_IfExp(self, node, fr):
        if self.truth(self.ev(node.test, fr), node.test):
            return self.ev(node.body, fr)
        return self.ev(node.orelse, fr)

    def ex_BoolOp(self, node, fr):
        v = None
        for sub in node.values:
            v = self.ev(sub, fr)
            t = self.truth(v, sub)
            if isinstance(node.op, ast.And) and not t:
                return v if isinstance(v, Cst) else Cst(False)
            if isinstance(node.op, ast.Or) and t:
                return v if not isinstance(v, (Unknown, SVal)) else Cst(True)
        return v if not isinstance(v, (Unknown, SVal)) else Cst(isinstance(node.op, ast.And))

    def ex_UnaryOp(self, node, fr):
        v = self.ev(node.operand, fr)
        if isinstance(node.op, ast.Not):
            return Cst(not self.truth(v, node.operand))
        if isinstance(node.op, ast.USub):
            if isinstance(v, Cst):
                return Cst(-v.value)
            if isinstance(v, Sym):
                return Sym({k: -c for k, c in v.terms.items()}, -v.const)
        if isinstance(node.op, ast.UAdd):
            return v
        raise AnalysisError(f"unary {type(node.op).__name__} on {v!r}")

    def ex_BinOp(self, node, fr):
        return self.binop(node.op, self.ev(node.left, fr), self.ev(node.right, fr), node)

    def binop(self, op, l, r, node):
        if isinstance(l, Cst) and isinstance(r, Cst):
            try:
                v = self.prog.eval_const(
                    None,
                    ast.BinOp(left=ast.Constant(l.value), op=op, right=ast.Constant(r.value)),
                )
                return Cst(v)
            except Exception:
                pass
        if isinstance(op, (ast.Add, ast.Sub)):
            sl, sr = self.as_sym(l), self.as_sym(r)
            if sl is not None and sr is not None and not (isinstance(l, Cst) and isinstance(l.value, str)):
                sign = 1 if isinstance(op, ast.Add) else -1
                terms = dict(sl.terms)
                for k, c in sr.terms.items():
                    terms[k] = terms.get(k, 0) + sign * c
                return Sym({k: c for k, c in terms.items() if c}, sl.const + sign * sr.const)
        if isinstance(op, ast.Add):
            if self.is_stringy(l) or self.is_stringy(r):
                return Str([l, r])
            def as_items(x):
                if isinstance(x, PList) and not x.sym_elem_of:
                    return list(x.items)
                if isinstance(x, UList) and x.elem_type not in asdl.PRIMITIVE:
                    e = x.elem("*")
                    return [Rep([e], x.path(), e)]  # a user list: one generic-element segment
                return None

            li, ri = as_items(l), as_items(r)
            if li is not None and ri is not None:
                return PList(li + ri)
        if isinstance(op, ast.Mod) and self.is_stringy(l):
            return StrOp("%", [l, r])
        if isinstance(op, ast.Mult):
            # a concrete sequence repeated a symbolic number of times: a run of its elements
            seq, n = (l, r) if isinstance(l, (PTuple, PList)) else (r, l)
            if isinstance(seq, (PTuple, PList)) and isinstance(n, (Sym, Cst)) and all(isinstance(i, Cst) for i in seq.items):
                over = f"range({n.key() if isinstance(n, Sym) else n.value})"
                rep = Rep(list(seq.items), over, None)
                return PTuple([rep]) if isinstance(seq, PTuple) else PList([rep])
        if isinstance(op, ast.BitOr):
            return Unknown("union-type")
        if isinstance(l, (Unknown, SVal)) or isinstance(r, (Unknown, SVal)):
            return Unknown(f"({self.describe(l)}{type(op).__name__}{self.describe(r)})")
        raise AnalysisError(f"binary {type(op).__name__} on {l!r}, {r!r} at line {getattr(node, 'lineno', '?')}")

    def as_sym(self, v):
        if isinstance(v, Sym):
            return v
        if isinstance(v, Cst) and isinstance(v.value, int) and not isinstance(v.value, bool):
            return Sym({}, v.value)
        if isinstance(v, TNode) and v.kind == "$NestHole":
            return Sym({f"carried({v.fields['name'].value})": 1})
        return None

    def is_stringy(self, v):
        return (
            isinstance(v, (Str, StrOp, Hole))
            or (isinstance(v, Cst) and isinstance(v.value, str))
            or (isinstance(v, UPrim) and v.typ in ("identifier", "string"))
            or isinstance(v, Fresh)
            or (isinstance(v, Unknown) and v.typ in ("str", "char"))
        )

    def ex_JoinedStr(self, node, fr):
        parts = []
        for v in node.values:
            if isinstance(v, ast.Constant):
                parts.append(v.value)
            else:
                val = self.ev(v.value, fr)
                if v.conversion != -1:
                    val = StrOp("conv" + chr(v.conversion), [val])
                if v.format_spec is not None:
                    val = StrOp("format", [val, self.ev(v.format_spec, fr)])
                if isinstance(val, Cst) and not isinstance(val.value, str):
                    val = Cst(str(val.value))
                parts.append(val)
        s = Str(parts)
        if all(isinstance(p, str) for p in s.parts):
            return Cst("".join(s.parts))
        return s

    def ex_NamedExpr(self, node, fr):
        v = self.ev(node.value, fr)
        fr.locals[node.target.id] = v
        return v

    def ex_Compare(self, node, fr):
        left = self.ev(node.left, fr)
        for op, comp in zip(node.ops, node.comparators):
            right = self.ev(comp, fr)
            if not self.compare(op, left, right, node):
                return Cst(False)
            left = right
        return Cst(True)

    def ex_ListComp(self, node, fr):
        return PList(self.comprehension(node.elt, node.generators, fr, node))

    def ex_GeneratorExp(self, node, fr):
        return PList(self.comprehension(node.elt, node.generators, fr, node))

    def ex_SetComp(self, node, fr):
        return PSet(self.comprehension(node.elt, node.generators, fr, node))

    def ex_DictComp(self, node, fr):
        pair = ast.Tuple(elts=[node.key, node.value], ctx=ast.Load())
        ast.copy_location(pair, node)
        d = PDict([])
        for item in self.comprehension(pair, node.generators, fr, node):
            if isinstance(item, Rep):
                # keyed by a value computed from the element: entries with equal keys collapse
                d.sym.append(Rep(list(item.items), f"bykey({item.over})", item.elem))
            elif isinstance(item, PTuple) and len(item.items) == 2:
                self.setitem(d, item.items[0], item.items[1], node)
            else:
                raise AnalysisError(f"dict comprehension item {item!r}")
        return d

    def comprehension(self, elt, gens, fr, node, inner=None):
        """Items of a comprehension: concrete clauses are unrolled, a symbolic clause yields one Rep
        (clauses after it are evaluated inside that generic iteration)."""
        g = gens[0]
        inner = inner or Frame(fr.module, {}, closure=fr, func=fr.func, self_obj=fr.self_obj, defcls=fr.defcls)
        it = self.expand_splices(self.ev(g.iter, inner), f"{fr.module.rel}:{node.lineno}")
        seq = self.concrete_seq(it)
        if isinstance(it, PDict) and it.sym:
            seq = None
        out = []
        if seq is None and isinstance(it, PList) and not it.sym_elem_of and len(it.items) > 1 and all(not isinstance(i, Splice) for i in it.items) and all(len(i.items) == 1 for i in it.items if isinstance(i, Rep)):
            # mixed sequence: concrete items one by one, each symbolic segment as one generic element
            for item in it.items:
                sub_iter = PList([item])
                out.extend(self._comp_over(elt, gens, fr, node, inner, sub_iter))
            return out
        return self._comp_over(elt, gens, fr, node, inner, it)

    def _comp_over(self, elt, gens, fr, node, inner, it):
        g = gens[0]
        seq = self.concrete_seq(it)
        if isinstance(it, PDict) and it.sym:
            seq = None
        out = []

        def body():
            if len(gens) > 1:
                return self.comprehension(elt, gens[1:], fr, node, inner)
            return [self.ev(elt, inner)]

        if seq is not None:
            for item in seq:
                self.assign(g.target, item, inner)
                if all(self.truth(self.ev(c, inner), c) for c in g.ifs):
                    out.extend(body())
            return out
        site = f"{fr.module.rel}:{node.lineno}"
        e, over = self.sym_elem(it, site)
        self.assign(g.target, e, inner)
        self.rep_stack.append(over)
        try:
            conds = [self.truth(self.ev(c, inner), c) for c in g.ifs]
            if all(conds):
                items = body()
                if items:
                    r = Rep(items, over, e)
                    # some elements are left out: positions in the result are not positions in the source
                    r.filtered = bool(g.ifs)
                    out.append(r)
        finally:
            self.rep_stack.pop()
        return out

    def ex_Yield(self, node, fr):
        v = self.ev(node.value, fr) if node.value is not None else Cst(None)
        return self.on_yield(v, fr, node)

    def ex_YieldFrom(self, node, fr):
        g = self.ev(node.value, fr)
        if isinstance(g, Gen):
            return self.run_gen(g)
        if isinstance(g, Cst) and g.value is None:
            return Cst(None)
        raise AnalysisError(f"yield from {g!r}")

    def ex_Starred(self, node, fr):
        raise AnalysisError("starred expression outside a display/call")

    def ex_Call(self, node, fr):
        f = self.ev(node.func, fr)
        args = self.ev_elts(node.args, fr)
        if any(isinstance(a, Splice) for a in args):
            raise AnalysisError(f"call with a symbolic *args at line {node.lineno}")
        kwargs = {}
        for kw in node.keywords:
            if kw.arg is None:
                d = self.ev(kw.value, fr)
                if isinstance(d, PDict):
                    for k, v in d.pairs:
                        kwargs[k.value] = v
                else:
                    raise AnalysisError(f"call with a symbolic **kwargs at line {node.lineno}")
            else:
                kwargs[kw.arg] = self.ev(kw.value, fr)
        self.cur_site = (fr.module.rel if fr.module else "?", node.lineno)
        return self.call(f, args, kwargs, node, fr)
