"""bug3: default unparser (ast.unparse) on a 3.12+ host: characters of a f-string FORMAT SPEC are
written raw into the output - carriage return, NUL, a lone surrogate, a backslash, the quote.  The
result does not compile (or cannot even be encoded as UTF-8), although the script is fine and the
`oneliner` unparser converts it correctly.  (On a 3.10/3.11 host the same spot loses a `\n`:
f'{x:\n>3}' silently becomes f'{x:>3}' - the newline-removal mechanism of the known f-string item.)
Exit 1 while one of the scripts does not round-trip with the default options."""
import contextlib
import io
import os
import subprocess
import sys

sys.path.insert(0, os.environ["OLREPO"])
import oneliner

SCRIPTS = [
    "x = 1\nprint(ascii(f'{x:\\r>3}'))\n",      # CR as fill character
    "x = 1\nprint(ascii(f'{x:\\x00>3}'))\n",    # NUL as fill character
    "x = 1\nprint(ascii(f'{x:\\udc80>3}'))\n",  # lone surrogate
    "x = 1\nprint(ascii(f'{x:\\'>3}'))\n",      # the quote itself
    "x = 1\nprint(ascii(f'{x:\\n>3}'))\n",      # newline (3.10 / 3.11 hosts)
]


def run(code, mode):
    buf = io.StringIO()
    try:
        with contextlib.redirect_stdout(buf):
            (exec if mode == "exec" else eval)(compile(code, "<x>", mode), {})
        return buf.getvalue().strip()
    except BaseException as e:
        return f"{type(e).__name__}: {str(e)[:70]}"


def check():
    bad = 0
    for src in SCRIPTS:
        want = run(src, "exec")
        for unparser in ("ast.unparse", "oneliner"):
            for wrapper in ("list", "chain_call"):
                cfg = oneliner.Configs()
                cfg.unparser, cfg.expr_wrapper = unparser, wrapper
                text = oneliner.convert_code_string(src, configs=cfg)
                got = run(text, "eval")
                if got != want:
                    bad += 1
                    print(f"  host {sys.version_info[0]}.{sys.version_info[1]} [{unparser},{wrapper}] {src.splitlines()[1]}")
                    print(f"      expected {want} | observed {got}")
                    print(f"      text: {ascii(text)}")
    return bad


if len(sys.argv) > 1:  # child mode, other host versions
    sys.exit(1 if check() else 0)

bad = check()
for v in ("3.10.13", "3.11.7", "3.13.0"):
    py = f"/root/.pyenv/versions/{v}/bin/python"
    if os.path.exists(py):
        p = subprocess.run([py, __file__, "child"], capture_output=True, text=True)
        sys.stdout.write(p.stdout)
        bad += p.returncode
sys.exit(1 if bad else 0)
