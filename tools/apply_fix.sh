#!/bin/bash
# usage: apply_fix.sh <patch number e.g. 0001>  -- applies one planned fix to /repo as a commit,
# runs the unedited test suite, and prints the finding keys that disappeared / appeared.
set -e
n=$1
p=$(ls /verif/planned_fixes/${n}-*.patch)
cd /verif
/venv/bin/python tools/list_findings.py > /tmp/before.txt 2>&1 || true
cd /repo
git am -q "$p"
echo "applied: $(git log --oneline -1)"
/venv/bin/python -m pytest -q -p no:cacheprovider --timeout=900 -x -n 8 2>&1 | tail -1
cd /verif
/venv/bin/python tools/list_findings.py > /tmp/after.txt 2>&1 || true
echo "--- disappeared:"; diff /tmp/before.txt /tmp/after.txt | grep '^<' | cut -c1-150
echo "--- appeared:"; diff /tmp/before.txt /tmp/after.txt | grep '^>' | cut -c1-200
