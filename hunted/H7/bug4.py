"""runtime < 3.12: every loop level is a comprehension FRAME, a function that recurses from
inside a loop body needs two (or more) frames per level -> RecursionError at about half of the
depth the script itself reaches (limit 1000: script fine at depth 600, converted text fails)."""
import sys, os
sys.path.insert(0, os.path.dirname(os.path.abspath(__file__)))
from _common import *

SRC = '''
def depth(node):
    for child in node:
        return 1 + depth(child)
    return 0
tree = []
for k in range(600):
    tree = [tree]
print(depth(tree))
def count(n):
    while n > 0:
        return 1 + count(n - 1)
    return 0
print(count(600))
'''
bad = 0
for ver in ["3.8.18", "3.9.18", "3.10.13", "3.11.7", "3.12.1", "3.13.0"]:
    py = "/root/.pyenv/versions/%s/bin/python" % ver
    if not os.path.exists(py):
        continue
    for combo in COMBOS:
        d = differs_on(py, SRC, convert(SRC, combo))
        if d:
            bad += 1
            print(ver, combo, "->", d)
print("defect present" if bad else "ok")
sys.exit(1 if bad else 0)
