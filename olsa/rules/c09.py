"""C09 - helper names never capture or clobber user identifiers."""
from __future__ import annotations

import ast
import re

from ..core import AnalysisError, RuleResult
from ..model import ExtRef
from ..semwalk import events_of
from ..vals import Cst, Fresh, TNode, Transf, UNode, UPrim
from .common import all_templates, kinds_label, path_events, short_ctx

EXPLANATION = (
    "Scope analysis of the emitted templates: C09-R1 checks the reserved-identifier templates "
    "(prefix __ol_, pairwise distinct, one {} slot filled from the RNG with an identifier-safe "
    "alphabet and a large name space, every fresh name bound where it is loaded); C09-R2 finds every "
    "converter-built lambda parameter / comprehension target / walrus target with a non-reserved "
    "constant name and requires that no user hole lies in its scope; C09-R3 enumerates every free "
    "load the templates perform on a non-reserved name (builtins and helper globals the output "
    "relies on), per (name, emitting function)."
    ' C09-R4: size of the random suffix space. Shared: C06-R9 / C06-R3 (alpha-renaming of comprehension variables and class members), C06-R11, C14-R5.'
)
ASSUMPTIONS = ["two random 10-letter suffixes never coincide (probability argument)"]

RESERVED_PREFIX = "__ol_"
ALLOWED_GLOBALS = {"itertools", "importlib"}
# names that belong to Python itself, with the reason
EXEMPT_NAMES = {"__class__": "Python's own implicit closure cell of methods (PEP 3135), emulated by the class loader"}


def _reserved_constants(prog):
    mi = prog.modules.get("oneliner.reserved_identifiers")
    if mi is None:
        raise AnalysisError("anchor module oneliner.reserved_identifiers vanished")
    out = {}
    for name, v in mi.consts.items():
        if isinstance(v, str) and name.isupper():
            out[name] = v
    if not out:
        raise AnalysisError("no reserved identifier templates found")
    return mi, out


def rule_r1(ctx):
    rr = RuleResult("C09-R1", "reserved templates: __ol_ prefix, pairwise distinct, one slot filled from the RNG, fresh names bound where loaded")
    rr.exhaustive = True
    rr.floor = 10
    prog = ctx.prog
    mi, consts = _reserved_constants(prog)
    # which constants go through ol_name?
    via_ol_name = set()
    direct = set()
    for m in prog.modules.values():
        for n in ast.walk(m.tree):
            if isinstance(n, ast.Call) and isinstance(n.func, ast.Name) and n.func.id == "ol_name" and n.args:
                a = n.args[0]
                nm = a.id if isinstance(a, ast.Name) else (a.attr if isinstance(a, ast.Attribute) else None)
                if nm:
                    via_ol_name.add(nm)
            elif isinstance(n, ast.Name) and n.id in consts and isinstance(n.ctx, ast.Load):
                direct.add(n.id)
    direct -= via_ol_name
    values = {}
    for name, v in consts.items():
        rr.instances += 1
        what = f"template|{name}"
        slots = v.count("{}")
        bad = None
        if not v.startswith(RESERVED_PREFIX):
            bad = ("prefix", f"{name} = {v!r} does not start with the reserved prefix {RESERVED_PREFIX!r}: the temporary can collide with a user identifier")
        elif not re.fullmatch(r"[A-Za-z_][A-Za-z0-9_]*(\{\}[A-Za-z0-9_]*)?", v):
            bad = ("shape", f"{name} = {v!r} is not an identifier template")
        elif name in via_ol_name and slots != 1:
            bad = ("slot", f"{name} = {v!r} is passed to ol_name but has {slots} '{{}}' slots: every use yields the same name")
        elif name not in via_ol_name and slots != 0:
            bad = ("slot", f"{name} = {v!r} is used as an identifier without ol_name but contains a '{{}}' slot")
        elif v in values:
            bad = ("duplicate", f"{name} and {values[v]} are the same template {v!r}")
        values.setdefault(v, name)
        if bad:
            rr.fail(f"C09-R1|{name}|{bad[0]}", f"{mi.rel}: {bad[1]}", where=mi.rel, what=what)
        else:
            rr.ok(what, sample={"rule": "C09-R1", "constant": name, "template": v, "through_ol_name": name in via_ol_name})
    # unique_id: suffix from the RNG, identifier-safe alphabet, large space
    ut = prog.modules.get("oneliner.utils")
    if ut is None or "unique_id" not in ut.functions:
        raise AnalysisError("anchor oneliner.utils:unique_id vanished")
    fi = ut.functions["unique_id"]
    rr.instances += 1
    calls = [n for n in ast.walk(fi.node) if isinstance(n, ast.Call)]
    rng = None
    for c in calls:
        r = prog.resolve_expr_static(ut, c.func) if isinstance(c.func, (ast.Name, ast.Attribute)) else None
        if isinstance(r, ExtRef) and r.dotted.split(".")[0] in ("random", "secrets", "uuid", "os"):
            rng = (c, r.dotted)
    what = "unique_id"
    if rng is None:
        rr.fail("C09-R1|unique_id|not-random", f"{fi.where()}: the suffix of fresh names does not come from a random source: two temporaries of one purpose share a name", where=fi.where(), what=what)
    else:
        c, dotted = rng
        space = None
        alphabet = None
        try:
            if dotted == "random.choices":
                alphabet = prog.eval_const(ut, c.args[0])
                k = [kw.value for kw in c.keywords if kw.arg == "k"]
                kv = prog.eval_const(ut, k[0]) if k else 1
                space = len(set(alphabet)) ** kv
        except Exception:
            pass
        if alphabet is not None and not re.fullmatch(r"[A-Za-z0-9_]+", "".join(alphabet)):
            rr.fail("C09-R1|unique_id|alphabet", f"{fi.where()}: the suffix alphabet {''.join(alphabet)!r} contains characters that are not valid in an identifier", where=fi.where(), what=what)
        elif space is not None and space < 10 ** 9:
            rr.fail("C09-R1|unique_id|space", f"{fi.where()}: only {space} distinct suffixes: collisions between temporaries of one output are likely", where=fi.where(), what=what)
        else:
            rr.ok(what, sample={"rule": "C09-R1", "source": dotted, "name_space": space})
    # every fresh name that a template loads is bound in the same template, unless it is a
    # name object owned by another object (flags shared between classes)
    for origin, kind, pr, tmpl in all_templates(ctx):
        if pr is None:
            continue
        evs, w = path_events(pr) if "events" in pr.extra or hasattr(pr, "result") else ([], None)
        bound = {id(e.extra.get("fresh")) for e in evs if e.kind == "bind-fresh"}
        # one temporary per purpose: a fresh name created once must not be re-bound once per
        # element of a user list (nested / chained patterns would clobber each other's temporary)
        for e in evs:
            if e.kind != "bind-fresh":
                continue
            fr = e.extra.get("fresh")
            created_in = [m for m in getattr(fr, "rep", [])]
            bound_in = [m for m in e.mult if not m.startswith("iterations@")]
            what = f"{origin}|fresh-scope|{e.path}|{e.site}"
            if len(bound_in) > len(created_in):
                rr.fail(
                    f"C09-R1|{kind}|{e.path}|shared-temporary",
                    f"{origin} ({e.site}): the temporary from {e.path} is created once (at {getattr(fr, 'site', '?')}) but bound once per element of {bound_in[-1]}: nested or chained patterns share one name and overwrite each other's value (`(a, b), c = (1, 2), 3` gives c == 2)",
                    where=e.site, what=what,
                )
            else:
                rr.ok(what, nontrivial=False)
        for e in evs:
            if e.kind == "load-fresh":
                fr = e.extra.get("fresh")
                owner = getattr(e.node, "owner", None)
                what = f"{origin}|fresh|{e.path}"
                if id(fr) in bound or owner is not None:
                    rr.ok(what, nontrivial=False)
                else:
                    rr.fail(
                        f"C09-R1|{kind}|{e.path}|loaded-never-bound",
                        f"{origin} ({e.site}): the fresh name from {e.path} is loaded but this very name is never bound in the template (a second ol_name() call yields a different identifier)",
                        where=e.site, what=what,
                    )
    return rr


def _binder_names(b):
    out = []
    for n in b["names"]:
        if isinstance(n, Cst) and isinstance(n.value, str):
            out.append(n.value)
    return out


def rule_r2(ctx):
    rr = RuleResult("C09-R2", "no user hole lies in the scope of a converter-bound non-reserved name")
    rr.exhaustive = True
    rr.floor = 8
    seen_binders = set()
    for origin, kind, pr, tmpl in all_templates(ctx):
        evs, w = path_events(pr) if pr is not None else events_of(tmpl)
        # walrus on a constant name inside a converter lambda binds in that lambda
        extra_names = {}
        for e in evs:
            if e.kind == "bind-const" and e.role == "NamedExpr.target" and e.scope:
                lam = [b for b in e.scope if b["kind"] == "lambda"]
                if lam:
                    extra_names.setdefault(id(lam[-1]), set()).add(e.path)
        for b in w.binders:
            names = [n for n in _binder_names(b) if not n.startswith(RESERVED_PREFIX)]
            names += sorted(extra_names.get(id(b), set()))
            names = [n for n in names if n not in EXEMPT_NAMES]
            if not names:
                continue
            key = (b["site"], tuple(names))
            if key not in seen_binders:
                seen_binders.add(key)
                rr.instances += 1
            inside = [e for e in evs if any(x is b for x in e.scope) and e.kind in ("X", "S", "raw", "load", "load-user", "store", "raw-target")]
            what = f"{origin}|{b['kind']}@{b['site']}|{','.join(names)}"
            if not inside:
                rr.ok(what, sample={"rule": "C09-R2", "binder": f"{b['kind']} at {b['site']}", "names": names, "user_holes_in_scope": 0})
                continue
            for e in inside:
                rr.fail(
                    f"C09-R2|{kind}|{','.join(names)}|captures|{e.path.split('.', 1)[-1] if e.kind != 'load' else 'load-of-user-name'}",
                    f"{origin}: the {b['kind']} built at {b['site']} binds the plain name(s) {names}; the user hole {e.kind}:{e.path} lies inside its scope, so a user variable called {names[0]!r} is captured there (e.g. `_ = 3` then `while n < _:` / `class k:`)",
                    where=b["site"], what=what,
                )
    return rr


def rule_r3(ctx):
    rr = RuleResult("C09-R3", "free loads of non-reserved names performed by the output (builtins / helper globals)")
    rr.exhaustive = True
    rr.floor = 10
    seen = set()
    for origin, kind, pr, tmpl in all_templates(ctx):
        evs, w = path_events(pr) if pr is not None else events_of(tmpl)
        for e in evs:
            if e.kind != "load-const":
                continue
            name = e.path
            if name.startswith(RESERVED_PREFIX) or name in EXEMPT_NAMES:
                continue
            # bound by an enclosing converter binder?
            bound = False
            for b in e.scope:
                if name in _binder_names(b):
                    bound = True
            # walrus-bound in an enclosing lambda (e.g. `_` of the chained-call runner)
            if not bound:
                for e2 in evs:
                    if e2.kind == "bind-const" and e2.path == name and e2.scope and e.scope and any(x is y for x in e2.scope for y in e.scope):
                        bound = True
            if bound:
                continue
            func = origin.split(".")[0]
            key = (name, func)
            if key in seen:
                continue
            seen.add(key)
            rr.instances += 1
            rr.fail(
                f"C09-R3|{name}|{func}",
                f"{func} ({e.site}): the generated code loads the plain name `{name}`; a user binding of `{name}` (global, parameter, class attribute...) changes the meaning of the output (e.g. `list = 5; a, *b = [1, 2]`)",
                where=e.site, what=f"free-load|{name}|{func}",
            )
    return rr


MIN_ID_SPACE = 10 ** 9


def _id_space(prog, fi):
    """Number of distinct results of the fresh-suffix generator, from its source (None: not recognised)."""
    mi = fi.module

    def const(n):
        try:
            return prog.eval_const(mi, n) if n is not None else None
        except Exception:
            return None

    for n in ast.walk(fi.node):
        if not isinstance(n, ast.Call):
            continue
        f = n.func
        name = f.attr if isinstance(f, ast.Attribute) else (f.id if isinstance(f, ast.Name) else None)
        if name == "choices" and n.args:
            pop = const(n.args[0])
            k = None
            for kw in n.keywords:
                if kw.arg == "k":
                    k = const(kw.value)
            if isinstance(pop, (str, list, tuple)) and isinstance(k, int):
                return len(set(pop)) ** k, f"random.choices over {len(set(pop))} symbols, k={k}"
        if name in ("choice", "sample") and n.args:
            pop = const(n.args[0])
            # "".join(random.choice(S) for _ in range(K))
            for g in ast.walk(fi.node):
                if isinstance(g, (ast.GeneratorExp, ast.ListComp)) and any(x is n for x in ast.walk(g)):
                    it = g.generators[0].iter
                    if isinstance(it, ast.Call) and isinstance(it.func, ast.Name) and it.func.id == "range" and it.args:
                        k = const(it.args[-1])
                        if isinstance(pop, (str, list, tuple)) and isinstance(k, int):
                            return len(set(pop)) ** k, f"random.choice over {len(set(pop))} symbols, {k} times"
            if name == "sample" and len(n.args) > 1:
                k = const(n.args[1])
                if isinstance(pop, (str, list, tuple)) and isinstance(k, int):
                    import math

                    return math.perm(len(set(pop)), k), f"random.sample of {k} out of {len(set(pop))}"
        if name == "getrandbits" and n.args and isinstance(const(n.args[0]), int):
            return 2 ** const(n.args[0]), f"getrandbits({const(n.args[0])})"
        if name in ("token_hex", "token_bytes", "token_urlsafe"):
            k = const(n.args[0]) if n.args else 32
            if isinstance(k, int):
                return 256 ** k, f"secrets.{name}({k})"
        if name in ("uuid4", "uuid1"):
            return 2 ** 122, "uuid"
        if name in ("randrange", "randint") and n.args and all(isinstance(const(a), int) for a in n.args):
            vals = [const(a) for a in n.args]
            return (vals[-1] - (vals[0] if len(vals) > 1 else 0)) or 1, f"random.{name}{tuple(vals)}"
    return None


def rule_r4(ctx):
    """Freshness of the temporaries is probabilistic: it rests on the size of the suffix space."""
    rr = RuleResult("C09-R4", f"the random suffix of fresh names is drawn from at least {MIN_ID_SPACE:.0e} values")
    rr.floor = 1
    prog = ctx.prog
    fi = prog.func("oneliner.utils", "unique_id")
    if fi is None:
        raise AnalysisError("anchor oneliner.utils:unique_id vanished")
    rr.instances += 1
    sp = _id_space(prog, fi)
    if sp is None:
        raise AnalysisError(f"C09-R4: cannot evaluate the size of the suffix space of {fi.where()}")
    n, how = sp
    what = "unique_id|space"
    if n < MIN_ID_SPACE:
        rr.fail(
            "C09-R4|unique_id|suffix-space",
            f"{fi.where()}: fresh names take their suffix from only {n} values ({how}); a script with a few hundred temporaries of one kind (every assignment, loop and function makes some) gets two equal names with noticeable probability, and equal names in nested scopes clobber each other",
            where=fi.where(), what=what,
        )
    else:
        rr.ok(what, sample={"rule": "C09-R4", "generator": how, "space": f"{n:.3e}"})
    return rr


def rule_bootstrap(ctx):
    """The un-suffixed helper globals itertools / importlib / __ol_iter_wrapper must be bound by
    the output itself, unconditionally at its head (rule C14-R5): relying on a user binding of the
    same spelling makes the program depend on the identifiers the user chose."""
    from .c14 import rule_r5

    return rule_r5(ctx)


def rule_c06r11(ctx):
    """Names the symbol table gives to implicit scopes (`genexpr`, `listcomp`, ...) are legal user
    identifiers: treating a table specially by such a name alone captures a user function (shared
    rule C06-R11)."""
    from .c06 import rule_r11 as r

    return r(ctx)


def rule_c06r9(ctx):
    """Alpha-renaming: a comprehension variable spelled like a captured / class-level name must still
    be the comprehension's variable (shared rule C06-R9)."""
    from .c06 import rule_r9 as r

    return r(ctx)


def rule_c06r3(ctx):
    """Where a name is stored and where it is read from must not depend on how it was bound (an
    imported alias in a class body, a parameter, ...): shared rule C06-R3."""
    from .c06 import rule_r3 as r

    return r(ctx)


RULES = [("C06-R9", rule_c06r9), ("C06-R3", rule_c06r3), ("C06-R11", rule_c06r11), ("C09-R1", rule_r1), ("C09-R2", rule_r2), ("C09-R3", rule_r3), ("C09-R4", rule_r4), ("C14-R5", rule_bootstrap)]
