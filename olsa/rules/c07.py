"""C07 - each source sub-expression is evaluated once, in Python's order
(decided on the emitted templates of every statement class x context)."""
from __future__ import annotations

import re

from ..core import RuleResult
from ..semwalk import upath
from .common import exclusive, kinds_label, norm_path, path_events, short_ctx

EXPLANATION = (
    "Static analysis of the templates that oneliner/pending_nodes.py emits: the abstract "
    "interpreter (engine T) extracts, for every statement class of the dispatch table and every "
    "conversion-time context, the emitted expression template with holes for the rewritten user "
    "sub-expressions; C07-R1 counts how often Python evaluates each hole (multiplicity, exclusive "
    "branches as max), C07-R2 compares the left-to-right evaluation order of the holes with the "
    "Language Reference order of the statement kind, C07-R3 checks that the generic expression "
    "copier rebuilds every node from all its fields in _fields order."
    ' C07-R4: no path drops a hole other paths of the statement evaluate; C07-R5: no converter-built and/or/not/if-else tests the truth of a lowered block; C07-R6: the truth of a user expression is asked at most once (a short-circuit result that is tested again); C11-R6 (shared): defaults printed by the own unparser are attached to the right parameters, each exactly once.'
)
ASSUMPTIONS = [
    "CPython evaluates the emitted expression forms in the documented order (Language Reference 6.16)",
    "order inside stdlib helpers called by the output (tuple(), setattr) is CPython's",
    "loops over user lists are analysed for a generic element (templates are uniform per element)",
]

# holes that are legitimately inside a lambda body (evaluated when the lambda is called)
DEFERRED_OK = ("While.test", "FunctionDef.body", "ClassDef.body")
# per-iteration holes (inside the element of the loop comprehension)
PER_ITERATION_OK = ("While.body", "For.body")


def _at_most_once(pr, over):
    """The context says the iterated list has at most one element."""
    iv = getattr(pr, "intervals", {}).get(f"len({over})")
    return iv is not None and iv[1] is not None and iv[1] <= 1


def _is_constant_hole(e):
    """A hole the context has narrowed to a literal constant: evaluating it has no effect, so its
    multiplicity and position are irrelevant."""
    n = e.node
    return hasattr(n, "kinds") and set(n.kinds) <= {"Constant"}


def _hole_events(evs):
    return [e for e in evs if e.kind in ("X", "raw", "S") and not _is_constant_hole(e)]


def rule_r1(ctx):
    rr = RuleResult("C07-R1", "each user sub-expression hole is evaluated exactly once per execution")
    rr.exhaustive = True
    rr.floor = 17
    T = ctx.tmpl
    for ci, kinds, entry in T.all_pending():
        rr.instances += 1
        for pr in entry.ok_paths():
            klabel = kinds_label(pr.extra["node"].kinds)
            evs, w = path_events(pr)
            holes = _hole_events(evs)
            by_path = {}
            for e in holes:
                by_path.setdefault(e.path, []).append(e)
            for path, es in by_path.items():
                what = f"{klabel}|{path}"
                bad = None
                # (a) repetition: inside a Rep over a list the hole does not belong to
                for e in es:
                    for over in e.mult:
                        if over.startswith("iterations@"):
                            if not path.startswith(PER_ITERATION_OK):
                                bad = ("per-iteration", f"hole {path} lies inside the per-iteration part of the loop comprehension at {over[11:]}")
                        elif _at_most_once(pr, over):
                            continue
                        elif over.startswith("bykey("):
                            bad = ("collapsed-by-key", f"hole {path} is emitted once per distinct KEY of a dict built from {over[6:-1]}: entries with equal keys collapse into the last one (two `**mapping` keywords both have the key None), the others are never evaluated")
                        else:
                            base = re.sub(r"^(reversed|chain|zip)\((.*)\)$", r"\2", over)
                            base = norm_path(base)
                            # drop kind refinements from the `over` description
                            base = re.sub(r":[A-Za-z|]+", "", base)
                            # zip()/chain() walk several lists in lockstep / one after the other: once per
                            # element of EACH; the hole has to belong to one of them
                            parts = [b for b in base.split(",") if b] if over.startswith(("zip(", "chain(")) else [base]
                            if not any(path.startswith(b) for b in parts):
                                bad = ("repeated", f"hole {path} is emitted once per element of {base} (evaluated once per element instead of once)")
                    if e.deferred and e.kind != "S" and not path.startswith(DEFERRED_OK):
                        bad = ("deferred", f"hole {path} lies inside a lambda body (evaluated lazily, not at statement execution)")
                # (b) duplication: several occurrences that are not mutually exclusive
                if bad is None and len(es) > 1:
                    for i in range(len(es)):
                        for j in range(i + 1, len(es)):
                            if not exclusive(es[i], es[j]):
                                bad = ("twice", f"hole {path} occurs {len(es)} times in non-exclusive positions ({es[i].site}, {es[j].site})")
                if bad is None:
                    rr.ok(what, sample={"rule": "C07-R1", "statement": klabel, "hole": path, "context": short_ctx(pr, 80), "verdict": "evaluated once"})
                else:
                    rr.fail(
                        f"C07-R1|{klabel}|{path}|{bad[0]}",
                        f"{ci.name}.get_result ({es[0].site}): {bad[1]} [context: {short_ctx(pr, 120)}]",
                        where=es[0].site, what=what,
                    )
    return rr


def _rank_table(kind):
    """Reference evaluation order (Language Reference 7.2, 7.2.1, 8.7, 8.8): list of
    (path prefix, rank)."""
    if kind == "Assign":
        return [("Assign.value", 0), ("Assign.targets", 1)]
    if kind == "AnnAssign":
        return [("AnnAssign.value", 0), ("AnnAssign.target", 1)]
    if kind == "AugAssign":
        return [("AugAssign.target.value", 0), ("AugAssign.target.slice", 1), ("AugAssign.value", 2)]
    if kind == "FunctionDef":
        return [("FunctionDef.decorator_list", 0), ("FunctionDef.args.defaults", 1), ("FunctionDef.args.kw_defaults", 2), ("FunctionDef.body", 3)]
    if kind == "ClassDef":
        return [("ClassDef.decorator_list", 0), ("ClassDef.bases", 1), ("ClassDef.keywords", 2), ("ClassDef.body", 3)]
    if kind == "For":
        return [("For.iter", 0), ("For.target", 1), ("For.body", 2), ("For.orelse", 3)]
    if kind == "While":
        return [("While.test", 0), ("While.body", 1), ("While.orelse", 2)]
    if kind == "If":
        return [("If.test", 0), ("If.body", 1), ("If.orelse", 2)]
    return []


def rule_r2(ctx):
    rr = RuleResult("C07-R2", "holes are evaluated in the Language Reference order of the statement kind")
    rr.exhaustive = True
    rr.floor = 17
    T = ctx.tmpl
    for ci, kinds, entry in T.all_pending():
        rr.instances += 1
        for pr in entry.ok_paths():
            node = pr.extra["node"]
            kind = kinds_label(node.kinds)
            table = _rank_table(kind)
            evs, w = path_events(pr)
            seq = [e for e in evs if e.kind in ("X", "raw", "S", "raw-target") and not _is_constant_hole(e)]
            # (a) statement-level order
            last_rank, last_ev = -1, None
            for e in seq:
                r = None
                for prefix, rank in table:
                    if e.path.startswith(prefix):
                        r = rank
                if r is None:
                    continue
                what = f"{kind}|order|{e.path}"
                if r < last_rank and exclusive(e, last_ev):
                    # the two never run in the same execution (branches of one test): no order between them
                    rr.ok(what, sample={"rule": "C07-R2", "statement": kind, "hole": e.path, "verdict": f"exclusive with {last_ev.path}"})
                elif r < last_rank:
                    rr.fail(
                        f"C07-R2|{kind}|{e.path}|after|{_prefix(last_ev.path, table)}",
                        f"{ci.name} ({e.site}): {e.path} is evaluated after {last_ev.path}, Python evaluates it before [context: {short_ctx(pr, 120)}]",
                        where=e.site, what=what,
                    )
                else:
                    rr.ok(what)
                    if r > last_rank:
                        last_rank, last_ev = r, e
            # (b) inside one target / slice: object before index, lower < upper < step
            sub_rank = {"value": 0, "slice": 1, "lower": 1, "upper": 2, "step": 3}
            by_parent = {}
            for e in seq:
                m = re.match(r"^(.*)\.(value|slice)(?:\.(lower|upper|step))?$", e.path)
                if not m or e.path in ("Assign.value", "AnnAssign.value", "AugAssign.value", "Return.value", "Expr.value"):
                    continue
                parent = m.group(1)
                r = sub_rank[m.group(2)] + (sub_rank[m.group(3)] - 1 if m.group(3) else 0)
                prev = by_parent.get(parent)
                what = f"{kind}|target-order|{e.path}"
                if prev is not None and r < prev[0] and not exclusive(e, prev[1]):
                    rr.fail(
                        f"C07-R2|{kind}|{e.path}|after|{re.sub(r'[.](lower|upper|step)$', '', prev[1].path)}",
                        f"{ci.name} ({e.site}): {e.path} is evaluated after {prev[1].path} (Python: object, then index) [context: {short_ctx(pr, 120)}]",
                        where=e.site, what=what,
                    )
                else:
                    rr.ok(what)
                if prev is None or r >= prev[0]:
                    by_parent[parent] = (r, e)
            # (c) no reordering of user lists; decorators nest over reversed(list)
            for e in evs:
                if e.kind == "reordered":
                    rr.fail(
                        f"C07-R2|{kind}|reordered|{e.path}",
                        f"{ci.name} ({e.site}): a list of user sub-expressions is reordered ({e.path}) before it is emitted",
                        where=e.site, what=f"{kind}|reordered",
                    )
                if e.kind == "nest-begin":
                    what = f"{kind}|nest|{e.path}"
                    rev = e.path.startswith("reversed(")
                    # effective evaluation order of the per-element holes
                    source_order = (e.extra.get("hole_first") and not rev) or (not e.extra.get("hole_first") and rev)
                    if not source_order:
                        rr.fail(
                            f"C07-R2|{kind}|nest-order|{norm_path(e.path)}",
                            f"{ci.name} ({e.site}): wrappers are nested over {e.path} in source order, so the LAST one is outermost: evaluated bottom-up and applied top-down (Python: evaluated top-down, applied bottom-up)",
                            where=e.site, what=what,
                        )
                    else:
                        rr.ok(what, sample={"rule": "C07-R2", "statement": kind, "nesting": e.path, "verdict": "first decorator outermost"})
                for over in e.mult:
                    if over.startswith("reversed(") and e.kind in ("X", "raw") and not any(x.kind == "nest-begin" and x.pos < e.pos and x.path == over for x in evs):
                        rr.fail(
                            f"C07-R2|{kind}|{e.path}|reversed",
                            f"{ci.name} ({e.site}): {e.path} is emitted in reverse source order ({over})",
                            where=e.site, what=f"{kind}|{e.path}|rev",
                        )
    return rr


def _prefix(path, table):
    best = path
    for prefix, _r in table:
        if path.startswith(prefix):
            best = prefix
    return best


def rule_r3(ctx):
    from .exprcopy import copier_templates

    rr = RuleResult("C07-R3", "the generic expression copier rebuilds each node from all fields in order")
    rr.exhaustive = True
    rr.floor = 20
    for kind, pr, tnode in copier_templates(ctx):
        rr.instances += 1
        if pr.outcome != "ok" or tnode is None:
            continue
        import ast

        want = [f for f in getattr(ast, kind)._fields]
        got = list(tnode.fields)
        what = f"copier|{kind}"
        if tnode.kind != kind:
            rr.fail(f"C07-R3|{kind}|kind", f"generic copier rebuilds ast.{kind} as {tnode.kind}", what=what)
        elif got != [f for f in want if f in got] or set(got) != set(want):
            rr.fail(
                f"C07-R3|{kind}|fields",
                f"generic copier rebuilds ast.{kind} with fields {got}, expected {want}",
                what=what,
            )
        else:
            evs, w = path_events_of(tnode)
            seq = [e.path for e in evs if e.kind in ("X", "raw")]
            # order of the child holes must follow _fields order
            idx = []
            for p in seq:
                fld = p.split(".")[1].split("[")[0] if "." in p else ""
                if fld in want:
                    idx.append(want.index(fld))
            bad = [e for e in evs if e.kind == "reordered" or any(o.startswith("reversed(") for o in e.mult)]
            if idx != sorted(idx) or bad:
                rr.fail(f"C07-R3|{kind}|order", f"generic copier emits the children of ast.{kind} out of order: {seq}", what=what)
            else:
                rr.ok(what, sample={"rule": "C07-R3", "kind": kind, "children": seq[:6], "verdict": "all fields, in order"})
    return rr


# fields whose evaluation the converter does not reproduce by design (annotations) or that are not
# expressions evaluated at statement execution
_NOT_EVALUATED = {"annotation", "returns", "type_comment", "type_params", "simple", "ctx", "lineno", "col_offset", "end_lineno", "end_col_offset"}


def rule_r4(ctx):
    """Zero is not once: a hole the template evaluates on some path must not silently disappear on
    another, unless that path established that there is nothing to evaluate (field absent, list
    empty, a literal constant)."""
    from ..reference import asdl
    from ..vals import UList, UNode

    rr = RuleResult("C07-R4", "no path drops a sub-expression that other paths of the same statement evaluate")
    rr.exhaustive = True
    rr.floor = 10
    T = ctx.tmpl
    for ci, kinds, entry in T.all_pending():
        paths = list(entry.ok_paths())
        by_kind = {}
        for pr in paths:
            by_kind.setdefault(kinds_label(pr.extra["node"].kinds), []).append(pr)
        for klabel, prs in by_kind.items():
            if "|" in klabel:
                continue
            fields = [(f, tq[0]) for f, tq in asdl.FIELDS.get(klabel, {}).items()]
            if not fields:
                continue
            per_path = []
            for pr in prs:
                evs, w = path_events(pr)
                got = set()
                for e in evs:
                    pth = re.sub(r":[A-Za-z|]+", "", e.path or "")
                    if pth.startswith(klabel + "."):
                        got.add(re.split(r"[.\[]", pth[len(klabel) + 1:])[0])
                per_path.append(got)
            union = set().union(*per_path) if per_path else set()
            for f, t in fields:
                if f in _NOT_EVALUATED or t not in ("expr", "stmt") or f not in union or f in ("target", "targets"):
                    continue  # (stores to targets are C13's subject)
                rr.instances += 1
                for pr, got in zip(prs, per_path):
                    what = f"{klabel}.{f}|{short_ctx(pr, 60)}"
                    if f in got:
                        rr.ok(what, nontrivial=False)
                        continue
                    v = pr.extra["node"].fields.get(f)
                    why = None
                    if isinstance(v, UNode):
                        if v.is_none:
                            why = "absent"
                        elif set(v.kinds) <= {"Constant"}:
                            why = "a literal constant"
                    elif isinstance(v, UList):
                        iv = getattr(pr, "intervals", {}).get(f"len({v.path()})")
                        if iv is not None and iv[1] is not None and iv[1] <= 0:
                            why = "empty"
                        elif any(k.startswith(("truthy:", "nonempty:")) and v.path() in k and val is False for k, val in pr.assign.items()):
                            why = "empty"
                        elif any(f"lowered({v.path()})" in k for k in pr.assign):
                            why = "lowered to nothing (the path is conditioned on the length of the lowered block)"
                    if why:
                        rr.ok(what, sample={"rule": "C07-R4", "hole": f"{klabel}.{f}", "not emitted because": why})
                    else:
                        kinds_txt = kinds_label(v.kinds) if isinstance(v, UNode) else ""
                        rr.fail(
                            f"C07-R4|{klabel}|{f}|dropped",
                            f"{ci.name}.get_result: on the path [{short_ctx(pr, 140)}] nothing is emitted for {klabel}.{f}{' (' + kinds_txt + ')' if kinds_txt and len(kinds_txt) < 60 else ''}, which other paths evaluate: its side effects are lost and constructs inside it are never seen by the rewriter (`f'{{log.append(1)}}'` as a statement; a `yield` inside it is accepted)",
                            what=what,
                        )
    return rr


def rule_r5(ctx):
    """The value of a user STATEMENT is never asked for its truth value.  Python tests the truth of
    `If.test` / `While.test` only; `bool(x)` calls the user's `__bool__`/`__len__`, which may print,
    raise (numpy arrays, pandas objects) or be expensive.  In a converter-built `a or b`, `a and b`,
    `not a`, `a if t else b` every operand but the last (resp. the test) is truth-tested.  The
    expression wrapper returns a block of ONE statement as that statement's own expression, so a
    wrapped block in such a position has the user's value tested."""
    from ..semwalk import iter_tnodes
    from ..vals import PList, TNode

    rr = RuleResult("C07-R5", "no converter-built and/or/not/if-else tests the truth of a lowered statement's value")
    rr.exhaustive = True
    rr.floor = 10
    T = ctx.tmpl
    seen = set()

    def is_wrapped_block(v):
        return isinstance(v, TNode) and v.kind == "$Wrap"

    for ci, kinds, entry in T.all_pending():
        rr.instances += 1
        for pr in entry.ok_paths():
            klabel = kinds_label(pr.extra["node"].kinds)
            for t in iter_tnodes(pr.result):
                tested = []
                if t.kind == "BoolOp":
                    vals = t.fields.get("values")
                    items = vals.items if isinstance(vals, PList) else []
                    tested = items[:-1]
                elif t.kind == "IfExp":
                    tested = [t.fields.get("test")]
                elif t.kind == "UnaryOp" and isinstance(t.fields.get("op"), TNode) and t.fields["op"].kind == "Not":
                    tested = [t.fields.get("operand")]
                for v in tested:
                    if is_wrapped_block(v):
                        key = (klabel, t.site)
                        if key in seen:
                            continue
                        seen.add(key)
                        rr.fail(
                            f"C07-R5|{klabel}|block-value-truth-tested",
                            f"{ci.name}.get_result ({t.site}): a lowered block is an operand of `{t.kind}` whose truth is tested; for a block of one statement the expression wrapper hands back that statement's own value, so `bool(value)` is evaluated: `if flag: compute()` / `else: ...` with if_style=short_circuit calls `__bool__` of what compute() returns (printing / raising __bool__, `ValueError: truth value of an array is ambiguous`) [context: {short_ctx(pr, 100)}]",
                            where=str(t.site), what=f"{klabel}|{t.site}",
                        )
    if not seen:
        rr.ok("templates", sample={"rule": "C07-R5", "verdict": "no wrapped block in a truth-tested operand"})
    return rr


def rule_r6(ctx):
    """The truth of a user expression is asked at most once per evaluation.  In `a and b` / `a or b`
    the operand that short-circuits BECOMES the value of the operation; when that value is itself a
    truth-tested operand of an enclosing and/or/not/if-else, `bool(a)` runs a second time:
    `test and (body,) or orelse` calls `__bool__`/`__len__` of a false `test` twice."""
    from ..vals import PList, TNode, Transf, UNode

    rr = RuleResult("C07-R6", "no user expression has its truth value asked twice (a short-circuit result that is tested again)")
    rr.exhaustive = True
    rr.floor = 10
    T = ctx.tmpl
    seen = set()

    def walk(v, n, pr, ci, klabel, top):
        """n = how many times the VALUE of v may be truth-tested by the operations above it."""
        if isinstance(v, (Transf, UNode)):
            if n >= 2:
                u = v if isinstance(v, UNode) else v.inner
                hole = norm_path(u.short_path()) if hasattr(u, "short_path") else "?"
                key = (klabel, hole)
                if key not in seen:
                    seen.add(key)
                    rr.fail(
                        f"C07-R6|{klabel}|{hole}|truth-tested-twice",
                        f"{ci.name}.get_result ({top.site}): the value of {hole} is truth-tested by an and/or whose result - that same value, when it short-circuits - is truth-tested again by the enclosing operation: `if t: ... else: ...` with if_style=short_circuit becomes `t and (body,) or orelse`, a false `t` has `__bool__`/`__len__` called twice (a test object that prints, counts or consumes something) [context: {short_ctx(pr, 100)}]",
                        where=str(top.site), what=f"{klabel}|{hole}",
                    )
            return
        if isinstance(v, PList):
            for i in v.items:
                walk(i, 0, pr, ci, klabel, top)
            return
        if not isinstance(v, TNode):
            inner = getattr(v, "items", None)
            if isinstance(inner, list):
                for i in inner:
                    walk(i, 0, pr, ci, klabel, top)
            return
        if v.kind == "BoolOp":
            vals = v.fields.get("values")
            items = vals.items if isinstance(vals, PList) else []
            for i, o in enumerate(items):
                walk(o, n + 1 if i < len(items) - 1 else n, pr, ci, klabel, v)
            return
        if v.kind == "IfExp":
            walk(v.fields.get("test"), 1, pr, ci, klabel, v)
            walk(v.fields.get("body"), n, pr, ci, klabel, v)
            walk(v.fields.get("orelse"), n, pr, ci, klabel, v)
            return
        if v.kind == "UnaryOp" and isinstance(v.fields.get("op"), TNode) and v.fields["op"].kind == "Not":
            walk(v.fields.get("operand"), 1, pr, ci, klabel, v)
            return
        for f, x in v.fields.items():
            walk(x, 0, pr, ci, klabel, v)

    for ci, kinds, entry in T.all_pending():
        rr.instances += 1
        for pr in entry.ok_paths():
            klabel = kinds_label(pr.extra["node"].kinds)
            walk(pr.result, 0, pr, ci, klabel, pr.result if isinstance(pr.result, TNode) else TNode("?", {}, "?"))
    if not seen:
        rr.ok("templates", sample={"rule": "C07-R6", "verdict": "no short-circuit result of a user test is tested again"})
    return rr


def path_events_of(t):
    from ..semwalk import events_of

    return events_of(t)


def rule_c05_protocol(ctx):
    """"Exactly as many times as the original" includes ZERO times for the statements an interrupt
    skips: the counter/flag protocol of C05 (every break/continue/return raises the flag the guards
    of the following statements test) is a necessary condition here too (shared rules C05-R1, C05-R2)."""
    from . import c05

    return [c05.rule_r1(ctx), c05.rule_r23(ctx), c05.rule_r6(ctx)]


def rule_c11r6(ctx):
    """With the own unparser the signature of a converted function is printed by unparse_Lambda: a
    default that is not printed is evaluated zero times, one attached to the wrong parameter is
    evaluated for another argument (shared rule C11-R6)."""
    from .c03 import lambda_skeleton_rule

    return lambda_skeleton_rule(ctx)


RULES = [("C11-R6", rule_c11r6), ("C07-R1", rule_r1), ("C07-R2", rule_r2), ("C07-R3", rule_r3), ("C07-R4", rule_r4), ("C07-R5", rule_r5), ("C07-R6", rule_r6), ("C05-protocol", rule_c05_protocol)]
