"""bug1: convert_code_string() draws the suffixes of its __ol_* temporaries from the GLOBAL `random`
module (oneliner/utils.py: unique_id -> random.choices).  A caller who seeded `random` for his own
purposes gets a different sequence after a conversion (how far it is shifted depends on the script),
and the "random" suffixes become a function of the caller's seed.  Nothing in the README says so.
Exit 1 while the global random state is touched by a call."""
import os
import random
import re
import sys

sys.path.insert(0, os.environ["OLREPO"])
import oneliner

SRC = "a, b = 1, 2\nfor i in range(3):\n    if i == 1:\n        break\n"
bad = False
for u in ("ast.unparse", "oneliner"):
    for w in ("list", "chain_call"):
        for s in ("if_expr", "short_circuit"):
            cfg = oneliner.Configs()
            cfg.unparser, cfg.expr_wrapper, cfg.if_style = u, w, s
            random.seed(1234)
            expected = [random.random() for _ in range(3)]
            random.seed(1234)
            state_before = random.getstate()
            text = oneliner.convert_code_string(SRC, configs=cfg)
            touched = random.getstate() != state_before
            observed = [random.random() for _ in range(3)]
            random.seed(1234)
            text2 = oneliner.convert_code_string(SRC, configs=cfg)
            if touched or observed != expected:
                bad = True
                print(f"[{u},{w},{s}] global random state changed by the call:")
                print("   caller's next draws without a conversion:", expected)
                print("   caller's next draws after a conversion  :", observed)
                print("   same seed -> same 'random' suffixes:", re.findall(r"__ol_[a-z]+_[a-z]{10}", text)[:2],
                      "==", re.findall(r"__ol_[a-z]+_[a-z]{10}", text2)[:2], "->", text == text2)
sys.exit(1 if bad else 0)
