"""bug1: every `return` / `break` / `continue` that is followed by more statements nests the REST of the
body one expression level deeper (_PendingCompoundStmt._iter_branch). A function with ~140..200 guard
clauses (`if c: return ...`), or a loop with that many `if c: continue`, can not be converted (ast.unparse:
RecursionError) or gives text that no CPython can parse (oneliner unparser: 'Parser stack overflowed' /
'too many nested parentheses'; python 3.8: s_push parser stack overflow at ~95). The source is fine with
thousands of them. All 8 option combinations."""
import sys, os, itertools, io, contextlib

sys.path.insert(0, os.environ["OLREPO"])
import oneliner
from oneliner.config import Configs

N = 250


def many_returns(n):
    return (
        "def f(x):\n"
        + "".join("    if x == %d:\n        return %d\n" % (i, i * 2) for i in range(n))
        + "    return -1\nprint(f(0), f(%d), f(%d), f(-5))\n" % (n // 2, n - 1)
    )


def many_continues(n):
    return (
        "r = []\nfor lvx in range(%d):\n" % (n + 2)
        + "".join("    if lvx == %d:\n        continue\n" % i for i in range(n))
        + "    r.append(lvx)\nprint(r)\n"
    )


def many_breaks(n):
    return (
        "r = []\nk = 0\nwhile k < %d:\n    k += 1\n    j = 0\n    while j < 1:\n        j += 1\n" % (n + 1)
        + "".join("        if k == %d:\n            break\n" % i for i in range(n))
        + "        r.append(k)\nprint(r)\n"
    )


def run(fn):
    buf = io.StringIO()
    try:
        with contextlib.redirect_stdout(buf):
            fn()
    except BaseException as e:
        return "%s: %s" % (type(e).__name__, str(e)[:70])
    return buf.getvalue()


bad = 0
for name, gen in (("returns", many_returns), ("continues", many_continues), ("breaks", many_breaks)):
    src = gen(N)
    exp = run(lambda: exec(src, {}))
    for combo in itertools.product(["ast.unparse", "oneliner"], ["list", "chain_call"], ["if_expr", "short_circuit"]):
        cfg = Configs()
        cfg.unparser, cfg.expr_wrapper, cfg.if_style = combo
        try:
            text = oneliner.convert_code_string(src, configs=cfg)
        except BaseException as e:
            bad += 1
            print("%d %-9s %-40s conversion failed: %s: %s" % (N, name, combo, type(e).__name__, str(e)[:50]))
            continue
        got = run(lambda: eval(text, {}))
        if got != exp:
            bad += 1
            print("%d %-9s %-40s converted text: %s   (source prints %r...)" % (N, name, combo, got[:90], exp[:25]))
print("failures:", bad)
sys.exit(1 if bad else 0)
