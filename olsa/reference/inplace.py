"""Data model 3.3.8 "Emulating numeric types": augmented arithmetic assignments
(`+=, -=, *=, @=, /=, //=, %=, **=, <<=, >>=, &=, ^=, |=`) call
__iadd__, __isub__, __imul__, __imatmul__, __itruediv__, __ifloordiv__,
__imod__, __ipow__, __ilshift__, __irshift__, __iand__, __ixor__, __ior__."""

INPLACE = {
    "Add": "__iadd__",
    "Sub": "__isub__",
    "Mult": "__imul__",
    "MatMult": "__imatmul__",
    "Div": "__itruediv__",
    "FloorDiv": "__ifloordiv__",
    "Mod": "__imod__",
    "Pow": "__ipow__",
    "LShift": "__ilshift__",
    "RShift": "__irshift__",
    "BitAnd": "__iand__",
    "BitXor": "__ixor__",
    "BitOr": "__ior__",
}
