"""Abstract run of the expression rewriter (oneliner/expr_transform.py) for each
of the expression kinds: dispatch outcome of ExpressionTransformer.get_pending
and the template each handler rebuilds."""
from __future__ import annotations

from ..core import AnalysisError
from ..interp import Interp, PathResult, namespace_classes, run_protected
from ..interp_base import Decisions, enumerate_paths
from ..reference import asdl
from ..vals import Func, Gen, Obj, TNode, UNode


def _transformer(prog):
    mi = prog.modules.get("oneliner.expr_transform")
    if mi is None:
        raise AnalysisError("anchor module oneliner.expr_transform vanished")
    cands = [c for c in mi.classes.values() if "get_pending" in c.methods]
    if len(cands) != 1:
        raise AnalysisError("anchor ExpressionTransformer.get_pending vanished")
    return cands[0]


def expr_paths(prog, kind):
    """Paths of: handler = get_pending(U(kind)); run handler.iter_fields; handler.get_result()."""
    tr = _transformer(prog)
    root, leaves, glob = namespace_classes(prog)

    def run(dec: Decisions):
        it = Interp(prog, dec, mode="exprcopy")
        pr = PathResult()

        def body():
            node = UNode([kind])
            nsp_cls = it.decide("ctx:nsp", leaves)
            nsp = Obj(nsp_cls, "self.nsp")
            nsp.exact = True
            it.expr_nsp = nsp
            pr.extra["node"] = node
            pr.extra["nsp_cls"] = nsp_cls.name
            pr.extra["nsp"] = nsp
            t = it.instantiate(tr, [nsp], {}, tr.node)
            t.tag = "transformer"
            gp = tr.find_method("get_pending")
            f = Func(gp, gp.node, None, bound_self=t, module=gp.module, defcls=gp.cls)
            handler = it.invoke(f, [node], {}, gp.node)
            if not isinstance(handler, Obj):
                raise AnalysisError(f"get_pending returned {handler!r}")
            handler.tag = "self"
            it.self_obj = handler
            pr.self_obj = handler
            pr.extra["handler"] = handler.cls.name if handler.cls else "?"
            it.phase = 1
            gen = handler.attrs.get("iter_fields")
            if isinstance(gen, Gen):
                it.run_gen(gen)
            it.phase = 2
            gr = handler.cls.find_method("get_result")
            f2 = Func(gr, gr.node, None, bound_self=handler, module=gr.module, defcls=gr.cls)
            pr.result = it.invoke(f2, [], {}, gr.node)
            pr.extra["yields"] = list(it.yields)

        return run_protected(it, pr, body)

    for dec, pr in enumerate_paths(run, None, what=f"expr_transform[{kind}]"):
        yield pr


_CACHE: dict = {}


def _indexed_write(v, seen=None, depth=0):
    """Does the described value contain an element written by a symbolic index (`lst[i] = ...` in a
    loop)?  Such a list is not described element by element any more (and may contain itself)."""
    seen = set() if seen is None else seen
    if id(v) in seen or depth > 40:
        return False
    seen.add(id(v))
    if isinstance(v, TNode):
        if v.kind == "$SetItem":
            return True
        return any(_indexed_write(x, seen, depth + 1) for x in v.fields.values())
    items = getattr(v, "items", None)
    if isinstance(items, list):
        return any(_indexed_write(x, seen, depth + 1) for x in items)
    inner = getattr(v, "inner", None)
    if inner is not None:
        return _indexed_write(inner, seen, depth + 1)
    return False


def all_expr_paths(ctx):
    key = id(ctx.prog)
    if key not in _CACHE:
        out = {}
        try:
            for kind in list(asdl.EXPR_KINDS) + ["comprehension", "keyword"]:
                out[kind] = list(expr_paths(ctx.prog, kind))
                for pr in out[kind]:
                    if pr.outcome == "ok" and _indexed_write(pr.result):
                        raise AnalysisError(
                            f"the expression handler of {kind} writes list elements through an index inside a loop: the rebuilt "
                            "expression is not described element by element, nothing is concluded about the expression rewriter")
        except AnalysisError as e:
            out = e
        _CACHE[key] = out
    if isinstance(_CACHE[key], AnalysisError):
        raise AnalysisError(str(_CACHE[key]))
    return _CACHE[key]


def copier_templates(ctx):
    """(kind, path, rebuilt TNode | None) for kinds handled by the generic copier
    (the handler whose get_result rebuilds type(node)(**fields))."""
    for kind, paths in all_expr_paths(ctx).items():
        for pr in paths:
            if pr.extra.get("nsp_cls") and "Function" not in pr.extra["nsp_cls"]:
                continue  # the copier does not depend on the namespace kind: one is enough
            r = pr.result
            if pr.outcome == "ok" and isinstance(r, TNode) and getattr(r, "rebuilt_from", None) is not None:
                yield kind, pr, r


def transf_entry_paths(ctx):
    """Abstract run of the summarised entry point expr_transf(nsp, node) itself: the summary used by
    engine T (`X` = the node rewritten by the expression driver in that namespace) is valid only if
    every path hands exactly (nsp, node) to the driver."""
    from ..interp import function_paths
    from ..vals import Cst

    prog = ctx.prog
    mi = prog.modules.get("oneliner.expr_transform")
    fi = mi.functions.get("expr_transf") if mi else None
    if fi is None:
        raise AnalysisError("anchor oneliner.expr_transform:expr_transf vanished")
    tr = _transformer(prog)
    root, leaves, glob = namespace_classes(prog)
    drivers = [m for n, m in tr.methods.items() if n not in ("__init__", "get_pending")]

    def setup(it):
        for m in drivers:
            def summ(f, args, kwargs, node, fr, _m=m):
                loc = it.bind_args(f, args, kwargs, node)
                vals = list(loc.values())
                self_obj = vals[0]
                t = TNode("$Cvt", {"nsp": self_obj.attrs.get("nsp") if isinstance(self_obj, Obj) else None, "node": vals[1] if len(vals) > 1 else None, "method": Cst(_m.name)}, it.site_of(node, fr))
                return t
            it.summaries[m.fq] = summ

    def mk(it):
        nsp_cls = it.decide("ctx:nsp", leaves)
        nsp = Obj(nsp_cls, "nsp")
        nsp.exact = True
        node = UNode(asdl.EXPR_KINDS)
        return [nsp, node], {}, None

    return fi, list(function_paths(prog, fi, mk, setup=setup))
