"""bug2: recursion through a loop needs twice the stack on runtimes < 3.12.

Every `for` / `while` is a list comprehension.  Before PEP 709 (Python 3.12) a
comprehension runs in a frame of its own, so a recursive call made from inside
a loop body costs two frames per level (three for a loop in a loop...).  A
script that recurses 600 deep through a loop runs fine with the default
recursion limit of 1000, the converted text dies with RecursionError on
Python 3.8 - 3.11 (README: the converted text should run on 3.8+).
Typical victims: recursive tree walks / DFS / flood fill (`for child in ...:
walk(child)`).  All 8 option combinations.  Not reproducible on 3.12+.
"""

import contextlib
import io
import itertools
import json
import os
import subprocess
import sys
import tempfile

sys.path.insert(0, os.environ["OLREPO"])
import oneliner  # noqa: E402
from oneliner import Configs  # noqa: E402

COMBOS = list(
    itertools.product(
        ["ast.unparse", "oneliner"], ["list", "chain_call"], ["if_expr", "short_circuit"]
    )
)
PYENV = "/root/.pyenv/versions/%s/bin/python"


def convert(src, combo):
    c = Configs()
    c.unparser, c.expr_wrapper, c.if_style = combo
    return oneliner.convert_code_string(src, configs=c)


def run_here(text, mode):
    """exec/eval `text` in a fresh namespace -> (stdout, exception or None)"""
    buf = io.StringIO()
    try:
        with contextlib.redirect_stdout(buf):
            code = compile(text, "<%s>" % mode, mode)
            (exec if mode == "exec" else eval)(code, {"__name__": "__main__"})
        return buf.getvalue(), None
    except BaseException as e:  # noqa
        return buf.getvalue(), "%s: %s" % (type(e).__name__, str(e)[:100])


_RUNNER = """
import sys, io, contextlib, json
mode, path = sys.argv[1], sys.argv[2]
txt = open(path, encoding="utf8").read()
buf = io.StringIO(); exc = None
try:
    with contextlib.redirect_stdout(buf):
        code = compile(txt, "<%s>" % mode, mode)
        (exec if mode == "exec" else eval)(code, {"__name__": "__main__"})
except BaseException as e:
    exc = "%s: %s" % (type(e).__name__, str(e)[:100])
sys.stdout.write(json.dumps([buf.getvalue(), exc]))
"""


def run_on(version, text, mode):
    """same as run_here on another interpreter; None when it is not installed"""
    exe = PYENV % version
    if not os.path.exists(exe):
        return None
    with tempfile.TemporaryDirectory() as d:
        runner = os.path.join(d, "runner.py")
        script = os.path.join(d, "script.txt")
        with open(runner, "w") as f:
            f.write(_RUNNER)
        with open(script, "w", encoding="utf8") as f:
            f.write(text)
        r = subprocess.run([exe, runner, mode, script], capture_output=True, text=True, timeout=300)
    try:
        out, exc = json.loads(r.stdout)
        return out, exc
    except Exception:
        return "", "runner failed: " + r.stderr[-200:]


SCRIPTS = {
    "recursion from a for body": (
        "def walk(n):\n"
        "    for c in [n]:\n"
        "        if c > 0:\n"
        "            return walk(c - 1) + 1\n"
        "    return 0\n"
        "print(walk(600))\n"
    ),
    "recursion from a while body": (
        "def depth(n):\n"
        "    r = 0\n"
        "    while n:\n"
        "        r = 1 + depth(n - 1)\n"
        "        break\n"
        "    return r\n"
        "print(depth(600))\n"
    ),
    "tree walk": (
        "def size(t):\n"
        "    n = 1\n"
        "    for kid in t:\n"
        "        n += size(kid)\n"
        "    return n\n"
        "t = []\n"
        "for i in range(550):\n"
        "    t = [t]\n"
        "print(size(t))\n"
    ),
}

bad = 0
for title, src in SCRIPTS.items():
    texts = {combo: convert(src, combo) for combo in COMBOS}
    for version in ["3.8.18", "3.9.18", "3.10.13", "3.11.7", "3.12.1", "3.13.0"]:
        expected = run_on(version, src, "exec")
        if expected is None or expected[1] is not None:
            continue
        failing = []
        for combo, text in texts.items():
            observed = run_on(version, text, "eval")
            if observed != expected:
                failing.append(("/".join(combo), observed[1]))
        if failing:
            bad += len(failing)
            print("[%s] python %s: expected %r; %d of 8 option combinations differ, e.g. %s -> %s"
                  % (title, version, expected[0], len(failing), failing[0][0], failing[0][1]))

print("bug2: %d differing runs" % bad)
sys.exit(1 if bad else 0)
