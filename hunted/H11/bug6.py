"""bug6: command-line usage errors end in raw Python tracebacks (exit code 1) instead of an argparse
usage error (exit code 2, one line): the -C values are parsed by hand after parse_args().
  -C foo=bar            ValueError: Unknown convig name 'foo'          (sic)
  -C unparser=bad       ValueError from the Configs descriptor
  -C unparser= / -C unparser / -C a=b=c   ValueError / TypeError
whereas the deprecated `--unparser bad` is a proper argparse error (rc 2).  `-h` does not list the
config names or their values, the usage line says `__main__.py`.  A missing / unreadable input file
is a traceback as well.
Exit 1 while one of these user errors prints a traceback."""
import os
import shutil
import subprocess
import sys
import tempfile

REPO = os.environ["OLREPO"]
sys.path.insert(0, REPO)
import oneliner  # noqa: F401

td = tempfile.mkdtemp(dir=os.path.dirname(os.path.abspath(__file__)))
fn = os.path.join(td, "a.py")
with open(fn, "w") as f:
    f.write("print(1)\n")
env = dict(os.environ, PYTHONPATH=REPO)
bad = False
CASES = [
    ["-C", "foo=bar"], ["-C", "unparser=bad"], ["-C", "unparser="], ["-C", "unparser"], ["-C", "unparser=oneliner=x"],
    ["-C", "Unparser=oneliner"], ["--unparser", "bad"],
]
for extra in CASES:
    p = subprocess.run([sys.executable, "-m", "oneliner", fn] + extra, capture_output=True, text=True, env=env)
    tb = "Traceback (most recent call last)" in p.stderr
    print(f"{' '.join(extra):28} rc={p.returncode} traceback={tb} | {p.stderr.strip().splitlines()[-1][:100]}")
    bad |= tb
p = subprocess.run([sys.executable, "-m", "oneliner", os.path.join(td, "missing.py")], capture_output=True, text=True, env=env)
tb = "Traceback (most recent call last)" in p.stderr
print(f"{'missing input file':28} rc={p.returncode} traceback={tb} | {p.stderr.strip().splitlines()[-1][:100]}")
bad |= tb
h = subprocess.run([sys.executable, "-m", "oneliner", "-h"], capture_output=True, text=True, env=env).stdout
print("-h mentions the option names:", all(n in h for n in ("expr_wrapper", "if_style", "chain_call", "short_circuit")),
      "| usage line:", h.splitlines()[0])
shutil.rmtree(td, ignore_errors=True)
sys.exit(1 if bad else 0)
