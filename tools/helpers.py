from olsa.model import get_program
from olsa.extract import Templates, helper_entries, expr_wrapper_paths
from olsa.tmpl import show
p=get_program(); T=Templates(p)
for k,e in helper_entries(T).items():
    print('####',k,len(e.paths))
    for pr in e.paths[:3]:
        print('  ',pr.outcome, pr.ctx()[:150]); print('     =>', show(pr.result)[:700] if pr.outcome=='ok' else (pr.raised, pr.events))
print('#### wrapper closure')
for pr in expr_wrapper_paths(T):
    print('  ',pr.outcome, pr.extra.get('n'), pr.ctx()[:100]); print('     =>', show(pr.result)[:400] if pr.outcome=='ok' else (pr.raised, pr.events))
