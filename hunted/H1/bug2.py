"""if_style=short_circuit evaluates the truth value of the last body expression

`if t: A else: B` is rendered as `(t and (A or 1)) or B`.  When the body is one
single expression statement, `A or 1` calls bool() on the VALUE of that
statement.  The original program never does that, so objects whose __bool__/__len__
has side effects or raises (numpy arrays, pandas frames, ...) break the program.
Run: OLREPO=/path/to/checkout python bug2.py   (exit status 1 = defect shows)
"""
import os, sys; sys.path.insert(0, os.environ["OLREPO"])
import contextlib, io, itertools

import oneliner
from oneliner.config import Configs

SRC = 'class Frame:\n    def __bool__(self):\n        print("__bool__ called")\n        return [][0]          # like numpy/pandas: truth value is an error\ndef compute():\n    return Frame()\nflag = 1\nif flag:\n    compute()\nelse:\n    print("else")\nprint("done")\n'


def all_configs():
    for u, w, s in itertools.product(
        ("ast.unparse", "oneliner"), ("list", "chain_call"), ("if_expr", "short_circuit")
    ):
        c = Configs()
        c.unparser, c.expr_wrapper, c.if_style = u, w, s
        yield (u, w, s), c


def run(fn):
    buf, exc = io.StringIO(), None
    try:
        with contextlib.redirect_stdout(buf):
            fn()
    except BaseException as e:  # noqa
        exc = type(e).__name__ + ": " + str(e)[:80]
    return buf.getvalue(), exc


expected = run(lambda: exec(compile(SRC, "<orig>", "exec"), {"__name__": "__main__"}))
print("original :", expected)
bad = 0
for name, cfg in all_configs():
    try:
        text = oneliner.convert_code_string(SRC, configs=cfg)
    except BaseException as e:  # noqa
        print(name, "CONVERSION FAILED:", type(e).__name__, e)
        bad += 1
        continue
    got = run(lambda: eval(compile(text, "<conv>", "eval"), {"__name__": "__main__"}))
    if got[0] != expected[0] or (got[1] is None) != (expected[1] is None):
        print(name, "converted:", got)
        bad += 1
print("DEFECT SHOWS in %d of 8 option combinations" % bad if bad else "ok (no difference)")
sys.exit(1 if bad else 0)
