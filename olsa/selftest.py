"""Self-test of the rules: every mutant of the corpus (olsa/mutants.py) must be caught by
the expected rule, every behaviour-preserving variant must stay silent.  Runs in scratch
copies of /repo outside /repo and /verif (removed afterwards).  A failure is an
ANALYSIS-ERROR (exit 2): the checker is broken, the repository is not accused."""
from __future__ import annotations

import concurrent.futures
import json
import os
import shutil
import subprocess
import sys
import tempfile

from . import core


def _run_variant(args):
    mid, prop, files, expect, silent = args
    tmp = tempfile.mkdtemp(prefix="olsa-selftest-")
    try:
        dst = os.path.join(tmp, "repo")
        shutil.copytree(core.REPO, dst, ignore=shutil.ignore_patterns(".git", "__pycache__", ".ruff_cache", ".benchmarks", "*.egg-info", "img", "oneliner_tests"))
        if files and files[0][0] == "<patch>":
            r = subprocess.run(["patch", "-p1", "-s", "--no-backup-if-mismatch", "-i", files[0][1]], cwd=dst, capture_output=True, text=True)
            if r.returncode != 0:
                return mid, "stale", "seeded patch no longer applies (the repository changed)"
            files = []
        for rel, old, new in files:
            p = os.path.join(dst, rel)
            s = open(p).read()
            if old not in s:
                return mid, "stale", f"anchor text not found in {rel} (the repository changed: mutant needs refreshing)"
            s = s.replace(old, new, 1)
            open(p, "w").write(s)
            try:
                compile(s, p, "exec")
            except SyntaxError as e:
                return mid, "broken", f"variant does not compile: {e}"
        env = dict(os.environ, OLSA_REPO=dst, OLSA_NO_EVIDENCE="1", PYTHONPATH=core.VERIF)
        r = subprocess.run([sys.executable, "-m", "olsa", "probe", prop], capture_output=True, text=True, env=env, cwd=core.VERIF, timeout=600)
        try:
            data = json.loads(r.stdout.strip().splitlines()[-1])
        except Exception:
            return mid, "error", (r.stdout + r.stderr)[-400:]
        new = data["new"]
        errs = data["analysis_errors"]
        if silent:
            if new or errs:
                return mid, "false-alarm", f"equivalent variant raised {new[:3]} {errs[:2]}"
            return mid, "ok", "silent"
        hit = [k for k in new if any(k.startswith(e) for e in expect)]
        if hit:
            return mid, "ok", hit[0]
        if new:
            return mid, "wrong-rule", f"caught only by {new[:3]}, expected {expect}"
        if errs:
            return mid, "analysis-error", errs[0][:200]
        return mid, "missed", f"no new finding for {prop} (expected {expect})"
    finally:
        shutil.rmtree(tmp, ignore_errors=True)


def run_selftest(prop=None, jobs=16, only=None, quiet=False):
    from .mutants import EQUIVALENTS, MUTANTS

    work = []
    for m in MUTANTS:
        if prop and m["prop"] != prop:
            continue
        if only and m["id"] not in only.split(","):
            continue
        work.append((m["id"], m["prop"], m["files"], m["expect"], False))
    for m in EQUIVALENTS:
        for p in (m["props"] if not prop else [x for x in m["props"] if x == prop]):
            if only and m["id"] not in only.split(","):
                continue
            work.append((m["id"] + "@" + p, p, m["files"], [], True))
    # seeded changes from independent sub-agents (/verif/seeded/<id>): each must be caught by the
    # check of the property it was written against
    seeded_dir = os.path.join(core.VERIF, "seeded")
    if os.path.isdir(seeded_dir):
        for sid in sorted(os.listdir(seeded_dir)):
            meta_p = os.path.join(seeded_dir, sid, "meta.json")
            patch_p = os.path.join(seeded_dir, sid, "patch.diff")
            if not (os.path.exists(meta_p) and os.path.exists(patch_p)):
                continue
            meta = json.load(open(meta_p))
            if meta.get("kind") == "refactoring":
                for p in (meta.get("props") or []):
                    if (not prop or p == prop) and (not only or sid in only.split(",")):
                        work.append((sid + "@" + p, p, [("<patch>", patch_p, "")], [], True))
                continue
            p = meta["property"]
            if meta.get("props") == []:
                continue  # kept for the record: ends in ANALYSIS-ERROR (no verdict), see its meta.json
            if prop and p != prop:
                continue
            if only and sid not in only.split(","):
                continue
            work.append((sid, p, [("<patch>", patch_p, "")], [""], False))
    if not work:
        print(f"selftest: no variants for {prop or 'all'}")
        return 0
    bad = 0
    stale = 0
    with concurrent.futures.ThreadPoolExecutor(max_workers=jobs) as ex:
        for mid, status, info in ex.map(_run_variant, work):
            if status == "stale":
                stale += 1
                if not quiet:
                    print(f"  [selftest] {mid}: STALE {info}")
                continue
            if status != "ok":
                bad += 1
                print(f"  [selftest] {mid}: {status.upper()} {info}")
            elif not quiet:
                print(f"  [selftest] {mid}: ok ({info[:100]})")
    print(f"selftest {prop or 'all'}: {len(work)} variants, {bad} failures, {stale} stale")
    global LAST_SUMMARY
    LAST_SUMMARY = {"variants": len(work), "failures": bad, "stale": stale,
                    "mutants_and_seeded": sum(1 for w in work if not w[4]), "equivalents": sum(1 for w in work if w[4])}
    return 2 if bad else 0


LAST_SUMMARY: dict = {}
