"""unparser="oneliner": a str constant inside an f-string replacement field is
written with the "other" quote, but a quote character *inside* that constant
which equals the quote of the enclosing f-string is emitted raw:

    f'{d["it's"]}'

That is only valid on 3.12+ (PEP 701).  README: "The converted scripts should
be able to run on python 3.8+".  On a 3.10/3.11 host the text does not even
compile on the host.  No error is raised during the conversion (in contrast to
the backslash case)."""
import os, sys, io, contextlib, itertools

sys.path.insert(0, os.environ["OLREPO"])
import oneliner
from oneliner.config import Configs

ALL = list(itertools.product(["ast.unparse", "oneliner"], ["list", "chain_call"], ["if_expr", "short_circuit"]))


def make_cfg(unparser, wrapper, if_style):
    c = Configs()
    c.unparser = unparser
    c.expr_wrapper = wrapper
    c.if_style = if_style
    return c


def run(code, mode):
    out = io.StringIO()
    exc = None
    with contextlib.redirect_stdout(out):
        try:
            (exec if mode == "exec" else eval)(compile(code, "<" + mode + ">", mode), {"__name__": "__main__"})
        except BaseException as e:
            exc = type(e).__name__ + ": " + str(e)
    return out.getvalue(), exc
import glob, subprocess


def old_pythons(patterns):
    """interpreters older than 3.12 that are installed on this machine"""
    found = []
    for pat in patterns:
        found += sorted(glob.glob("/root/.pyenv/versions/%s*/bin/python" % pat))
    return found


def run_with(python, text):
    """evaluate the converted text with another interpreter"""
    p = subprocess.run(
        [python, "-c", "import sys; eval(compile(sys.stdin.read(), '<converted>', 'eval'), {'__name__': '__main__'})"],
        input=text.encode("utf-8"), capture_output=True,
        env=dict(os.environ, PYTHONIOENCODING="utf-8"),
    )
    err = p.stderr.decode("utf-8", "replace").strip().splitlines()
    return p.stdout.decode("utf-8"), (err[-1] if p.returncode else None)

SRC = '''d = {"it's": 1}
print(f"""{d["it's"]}""")
'''

expected = run(SRC, "exec")
assert expected == ("1\n", None), expected
failed = False
pythons = old_pythons(["3.8", "3.9", "3.10", "3.11"])
if sys.version_info < (3, 12):
    pythons.append(sys.executable)
if not pythons:
    print("no interpreter older than 3.12 available, can not show the defect")
for wrapper, if_style in [("list", "if_expr"), ("chain_call", "short_circuit")]:
    text = oneliner.convert_code_string(SRC, configs=make_cfg("oneliner", wrapper, if_style))
    for python in pythons:
        got = run_with(python, text)
        if got != expected:
            failed = True
            print(python, (wrapper, if_style), "expected", expected, "got", got, "text:", text)
sys.exit(1 if failed else 0)
