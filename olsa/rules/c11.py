"""C11 - functions keep their signature, defaults, decorators and return protocol."""
from __future__ import annotations

from ..core import AnalysisError, RuleResult
from ..semwalk import iter_tnodes
from ..vals import Cst, Fresh, PList, Rep, TNode, Transf, UNode, UPrim, is_none
from .common import norm_path, path_events, short_ctx

EXPLANATION = (
    "Template rules on PendingFunctionDef / PendingReturn: C11-R1 each of the seven fields of "
    "ast.arguments flows to the same-named field of the emitted lambda's arguments, element order "
    "preserved, names only; C11-R2 every default becomes a rewritten expression in the DEFINING "
    "namespace at the same index (kw_defaults keeps one entry per keyword-only parameter on every "
    "path); C11-R3 decorators (instance of C07-R2); C11-R4 the lambda body is "
    "[retv := None, ..., retv][-1] and `return v` stores into the same temporary; C11-R5 the name is "
    "bound through get_assign of the defining namespace; C11-R6 rendering of the lambda signature by "
    "the custom unparser (skeleton rule on unparse_Lambda); C11-R7 the innermost operand of the "
    "decorator chain is the lambda itself (converter-added wrappers go outside the user's decorators)."
    ' C11-R6 includes the pairing analysis of positional defaults: the position a default is attached at, as a linear form in the iteration number and the list lengths, equals len(posonlyargs)+len(args)-len(defaults)+j; shared: C12-R5, C01-R2, C06-R5.'
)
ASSUMPTIONS = ["CPython binds call arguments from the lambda's signature (run-time behaviour, not decided)"]

LIST_FIELDS = ("posonlyargs", "args", "kwonlyargs")
OPT_FIELDS = ("vararg", "kwarg")


def _lambda_of(result):
    for t in iter_tnodes(result):
        if t.kind == "Lambda" and isinstance(t.fields.get("args"), TNode) and t.fields["args"].kind == "arguments":
            a = t.fields["args"].fields
            if any(isinstance(a.get(f), PList) and any(isinstance(i, Rep) for i in a[f].items) for f in LIST_FIELDS + ("defaults", "kw_defaults")) or True:
                # the user function's lambda is the one whose body contains the lowered function body
                from ..semwalk import events_of

                evs, _w = events_of(t.fields.get("body"))
                if any(e.kind == "S" and e.path.startswith("FunctionDef.body") for e in evs):
                    return t
    return None


def rule_r1(ctx):
    rr = RuleResult("C11-R1", "each field of ast.arguments flows to the same-named field of the emitted lambda, order preserved")
    rr.floor = 5
    entry = ctx.tmpl.pending_by_kind("FunctionDef")
    checked = set()
    for pr in entry.ok_paths():
        lam = _lambda_of(pr.result)
        if lam is None:
            rr.fail("C11-R1|FunctionDef|no-lambda", "PendingFunctionDef: the template contains no lambda holding the lowered body", what="lambda")
            continue
        af = lam.fields["args"].fields
        node = pr.extra["node"]
        for f in LIST_FIELDS:
            what = f"arguments.{f}"
            if what not in checked:
                checked.add(what)
                rr.instances += 1
            v = af.get(f)
            ok = False
            if isinstance(v, PList) and len(v.items) == 1 and isinstance(v.items[0], Rep):
                r = v.items[0]
                over = norm_path(r.over)
                if over.endswith(f"arguments.{f}") and not over.startswith("reversed(") and len(r.items) == 1:
                    a = r.items[0]
                    nm = a.fields.get("arg") if isinstance(a, TNode) and a.kind == "arg" else None
                    if isinstance(nm, UPrim) and nm.field == "arg" and isinstance(nm.parent, UNode) and nm.parent.field == f:
                        ok = True
            if ok:
                rr.ok(what, sample={"rule": "C11-R1", "field": f, "verdict": f"[arg(arg=a.arg) for a in args.{f}]"})
            else:
                rr.fail(f"C11-R1|FunctionDef|{f}|mapping", f"PendingFunctionDef: arguments.{f} of the lambda is not built from FunctionDef.args.{f} element by element in order (got {_show(v)})", what=what)
        for f in OPT_FIELDS:
            what = f"arguments.{f}"
            if what not in checked:
                checked.add(what)
                rr.instances += 1
            src_none = f in node.fields.get("args").fields and node.fields["args"].fields[f].is_none if "args" in node.fields else None
            v = af.get(f)
            if src_none:
                ok = v is None or is_none(v)
            else:
                nm = v.fields.get("arg") if isinstance(v, TNode) and v.kind == "arg" else None
                ok = isinstance(nm, UPrim) and nm.field == "arg" and isinstance(nm.parent, UNode) and nm.parent.field == f
            if ok:
                rr.ok(what + f"|none={src_none}")
            else:
                rr.fail(f"C11-R1|FunctionDef|{f}|mapping", f"PendingFunctionDef: arguments.{f} of the lambda does not mirror FunctionDef.args.{f} (source is {'absent' if src_none else 'present'}, emitted {_show(v)}) [context: {short_ctx(pr, 90)}]", what=what)
    return rr


def _show(v):
    from ..tmpl import show

    return show(v, maxdepth=4)[:120] if v is not None else "nothing"


def rule_r2(ctx):
    rr = RuleResult("C11-R2", "defaults are rewritten in the defining namespace at the same index; kw_defaults stays aligned with kwonlyargs")
    rr.floor = 2
    entry = ctx.tmpl.pending_by_kind("FunctionDef")
    seen = set()
    for pr in entry.ok_paths():
        lam = _lambda_of(pr.result)
        if lam is None:
            continue
        af = lam.fields["args"].fields
        for f in ("defaults", "kw_defaults"):
            v = af.get(f)
            elem_none = any(k.startswith("isnone:") and f".{f}[" in k and val is True for k, val in pr.assign.items())
            what = f"arguments.{f}|none={elem_none}"
            if what not in seen:
                seen.add(what)
                rr.instances += 1
            bad = None
            if not (isinstance(v, PList) and len(v.items) == 1 and isinstance(v.items[0], Rep)):
                bad = f"is not one entry per element of FunctionDef.args.{f} (got {_show(v)})"
            else:
                r = v.items[0]
                over = norm_path(r.over)
                if not over.endswith(f"arguments.{f}") or over.startswith("reversed("):
                    bad = f"iterates {over}"
                elif len(r.items) != 1:
                    bad = f"appends {len(r.items)} entries per element"
                else:
                    item = r.items[0]
                    if elem_none:
                        if not is_none(item) and not (isinstance(item, TNode) and item.kind == "Constant" and is_none(item.fields.get("value"))):
                            bad = "does not keep a None placeholder for a keyword-only parameter without default"
                    else:
                        if not (isinstance(item, Transf) and isinstance(item.inner, UNode) and item.inner.field == f):
                            bad = f"entry is not the rewritten default (got {_show(item)})"
                        elif getattr(item.nsp, "tag", None) != "self.nsp":
                            bad = f"default is rewritten in namespace {getattr(item.nsp, 'tag', '?')} instead of the defining namespace: names in defaults resolve in the function's own scope"
            if bad:
                rr.fail(f"C11-R2|FunctionDef|{f}|{'none-placeholder' if elem_none else 'mapping'}", f"PendingFunctionDef: arguments.{f} {bad} [context: {short_ctx(pr, 90)}]", what=what)
            else:
                rr.ok(what, sample={"rule": "C11-R2", "field": f, "element_is_None": elem_none, "verdict": "one aligned entry, defining namespace"})
    return rr


def rule_r4(ctx):
    rr = RuleResult("C11-R4", "return protocol: lambda body is [retv := None, ..., retv][-1]; `return v` stores X(v) into the same temporary")
    rr.floor = 2
    entry = ctx.tmpl.pending_by_kind("FunctionDef")
    retv_owner = None
    for pr in entry.ok_paths():
        lam = _lambda_of(pr.result)
        rr.instances += 1
        what = f"FunctionDef|body-shape|{short_ctx(pr, 60)}"
        if lam is None:
            continue
        body = lam.fields.get("body")
        bad = None
        if not (isinstance(body, TNode) and body.kind == "Subscript"):
            bad = "the lambda body is not a subscript of the body list"
        else:
            idx = body.fields.get("slice")
            neg1 = (isinstance(idx, TNode) and idx.kind == "Constant" and isinstance(idx.fields.get("value"), Cst) and idx.fields["value"].value == -1) or (
                isinstance(idx, TNode) and idx.kind == "UnaryOp" and isinstance(idx.fields.get("op"), TNode) and idx.fields["op"].kind == "USub"
                and isinstance(idx.fields.get("operand"), TNode) and isinstance(idx.fields["operand"].fields.get("value"), Cst) and idx.fields["operand"].fields["value"].value == 1)
            lst = body.fields.get("value")
            elts = lst.fields.get("elts") if isinstance(lst, TNode) and lst.kind == "List" else None
            if not neg1:
                bad = "the body list is not indexed with -1"
            elif not (isinstance(elts, PList) and len(elts.items) >= 2):
                bad = "the body list has fewer than two elements"
            else:
                first, last = elts.items[0], elts.items[-1]
                f_ok = isinstance(first, TNode) and first.kind == "NamedExpr" and isinstance(first.fields.get("value"), TNode) and first.fields["value"].kind == "Constant" and is_none(first.fields["value"].fields.get("value"))
                f_name = first.fields["target"].fields.get("id") if f_ok and isinstance(first.fields.get("target"), TNode) else None
                l_name = last.fields.get("id") if isinstance(last, TNode) and last.kind == "Name" else None
                if not f_ok or not isinstance(f_name, Fresh):
                    bad = "the first element does not initialise the return-value temporary to None"
                elif l_name is not f_name:
                    bad = "the last element of the body list is not the return-value temporary initialised at the head"
                else:
                    retv_owner = getattr(first.fields["target"], "owner", None)
        if bad:
            rr.fail(f"C11-R4|FunctionDef|body-shape|{bad.split()[1] if False else 'protocol'}", f"PendingFunctionDef.get_result: {bad} [context: {short_ctx(pr, 90)}]", what=what)
        else:
            rr.ok(what, sample={"rule": "C11-R4", "shape": "[retv := None, ..., retv][-1]"})
    # return statement
    rentry = ctx.tmpl.pending_by_kind("Return")
    for pr in rentry.ok_paths():
        rr.instances += 1
        node = pr.extra["node"]
        has_val = not node.fields["value"].is_none if "value" in node.fields else False
        what = f"Return|value={has_val}|{short_ctx(pr, 60)}"
        binds = []
        for t in iter_tnodes(pr.result):
            if t.kind == "NamedExpr" and isinstance(t.fields.get("value"), Transf) and isinstance(t.fields["value"].inner, UNode) and t.fields["value"].inner.field == "value":
                binds.append(t)
        if has_val:
            if len(binds) != 1:
                rr.fail("C11-R4|Return|value-store", f"PendingReturn: the return value is stored {len(binds)} times [context: {short_ctx(pr, 90)}]", what=what)
                continue
            tgt = binds[0].fields.get("target")
            owner = getattr(tgt, "owner", None)
            if owner is None or owner[1] != (retv_owner[1] if retv_owner else "return_value_expr") or owner[0] != "self.nsp":
                rr.fail("C11-R4|Return|wrong-temporary", f"PendingReturn ({binds[0].site}): the return value is stored into {owner}, not into the function's return-value temporary", where=binds[0].site, what=what)
            else:
                rr.ok(what, sample={"rule": "C11-R4", "statement": "return v", "store": "nsp.return_value_expr := X(v)"})
        else:
            if binds:
                rr.fail("C11-R4|Return|bare-return-stores", "PendingReturn: a bare `return` stores a value", what=what)
            else:
                rr.ok(what)
    return rr


def rule_r5(ctx):
    rr = RuleResult("C11-R5", "the function name is bound through get_assign of the defining namespace")
    rr.floor = 1
    entry = ctx.tmpl.pending_by_kind("FunctionDef")
    for pr in entry.ok_paths():
        rr.instances += 1
        evs, w = path_events(pr)
        stores = [e for e in evs if e.kind == "store" and not e.deferred]
        what = f"FunctionDef|bind|{short_ctx(pr, 60)}"
        good = [e for e in stores if isinstance(e.extra.get("name"), UPrim) and e.extra["name"].field == "name" and getattr(e.extra.get("nsp_obj"), "tag", None) == "self.nsp"]
        if len(good) != 1 or len(stores) != 1:
            rr.fail("C11-R5|FunctionDef|name-binding", f"PendingFunctionDef: the function object is not bound exactly once to FunctionDef.name through get_assign of the defining namespace ({len(stores)} stores) [context: {short_ctx(pr, 90)}]", what=what)
        else:
            rr.ok(what, sample={"rule": "C11-R5", "store": "self.nsp.get_assign(FunctionDef.name, <lambda>)"})
    return rr


def rule_r3(ctx):
    from .c07 import rule_r2 as c07r2

    src = c07r2(ctx)
    rr = RuleResult("C11-R3", "decorators evaluated top-down then defaults, applied bottom-up (instance of C07-R2)")
    rr.floor = 1
    for f in src.findings:
        if "|FunctionDef|" in f.key:
            rr.fail(f.key.replace("C07-R2", "C11-R3"), f.msg)
    for w in sorted(src.nontrivial):
        if w.startswith("FunctionDef"):
            rr.instances += 1
            rr.ok(w)
    return rr


def rule_r6(ctx):
    from .c03 import lambda_skeleton_rule

    return lambda_skeleton_rule(ctx)


def rule_r7(ctx):
    """Decorators receive the function object itself.  Anything the converter adds around the function
    (the implicit classmethod of __init_subclass__/__class_getitem__) goes OUTSIDE the user's
    decorators: Python applies the decorators to the plain function and wraps the result."""
    from ..semwalk import iter_tnodes

    rr = RuleResult("C11-R7", "the innermost operand of the decorator chain is the function object (lambda) itself")
    rr.floor = 1
    entry = ctx.tmpl.pending_by_kind("FunctionDef")
    for pr in entry.ok_paths():
        nests = [t for t in iter_tnodes(pr.result) if t.kind == "$Nest" and "decorator_list" in str(getattr(t.fields.get("over"), "value", ""))]
        what = f"FunctionDef|decorator-operand|{short_ctx(pr, 60)}"
        rr.instances += 1
        if len(nests) != 1:
            # C07-R2 / C11-R3 report a missing or duplicated decorator chain
            continue
        init = nests[0].fields.get("init")
        inner = init
        # a cell-providing wrapper `(lambda __class__: <function>)(...)` is still the function object
        ok = isinstance(inner, TNode) and (inner.kind == "Lambda" or (inner.kind == "Call" and isinstance(inner.fields.get("func"), TNode) and inner.fields["func"].kind == "Lambda"))
        if ok:
            rr.ok(what, sample={"rule": "C11-R7", "operand": inner.kind})
        else:
            desc = inner.kind if isinstance(inner, TNode) else type(inner).__name__
            fn = inner.fields.get("func") if isinstance(inner, TNode) and inner.kind == "Call" else None
            if isinstance(fn, TNode) and fn.kind == "Name" and isinstance(fn.fields.get("id"), Cst):
                desc = f"{fn.fields['id'].value}(...)"
            rr.fail("C11-R7|FunctionDef|decorator-operand", f"PendingFunctionDef.get_result: the user's decorators are applied to `{desc}` instead of the function: a decorator that wraps its argument receives (and calls) a non-function [context: {short_ctx(pr, 90)}]", what=what)
    return rr


def rule_c12r5(ctx):
    """What is stored for a decorated __init_subclass__/__class_getitem__ (shared rule C12-R5)."""
    from .c12 import rule_r5 as r

    return r(ctx)


def rule_c01r2(ctx):
    """`return` is lowered inside the option-dependent `if` templates: the option siblings must agree
    (shared rule C01-R2), or a call returns a different value under one option."""
    from .c01 import rule_r2 as r

    return r(ctx)


def rule_c06r5(ctx):
    """A parameter captured by an inner scope lives in the function-entry dict: all five kinds of
    parameters must be seeded there or the call fails with KeyError (shared rule C06-R5)."""
    from .c06 import rule_r5 as r

    return r(ctx)


RULES = [("C06-R5", rule_c06r5), ("C11-R1", rule_r1), ("C11-R2", rule_r2), ("C11-R3", rule_r3), ("C11-R4", rule_r4), ("C11-R5", rule_r5), ("C11-R6", rule_r6), ("C11-R7", rule_r7), ("C12-R5", rule_c12r5), ("C01-R2", rule_c01r2)]
