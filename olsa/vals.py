"""Abstract values of the template extractor (engine T / Ustr)."""
from __future__ import annotations

import itertools

from .reference import asdl

_uid = itertools.count(1)

LIST_WITH_NONE = {("arguments", "kw_defaults"), ("Dict", "keys")}


class V:
    def __init__(self):
        self.uid = next(_uid)


class Cst(V):
    """A concrete Python constant (str, int, bool, None, Ellipsis, bytes, float)."""

    def __init__(self, value):
        super().__init__()
        self.value = value

    def __repr__(self):
        return f"Cst({self.value!r})"


class UNode(V):
    """A *user* AST node (part of the program being converted)."""

    def __init__(self, kinds, parent=None, field=None, index=None, opt=False):
        super().__init__()
        self.kinds = frozenset(kinds)
        self.parent = parent
        self.field = field
        self.index = index
        self.opt = opt  # may be None
        self.is_none = False  # refined: is None on this path
        self.fields: dict[str, V] = {}

    def kind_label(self):
        ks = sorted(self.kinds)
        if len(ks) > 6:
            # name the ASDL sum type when the set is a full one
            for t in ("expr", "stmt", "operator"):
                if set(asdl.kinds_of_type(t)) == set(ks):
                    return t
            return f"{len(ks)}kinds"
        return "|".join(ks)

    def path(self):
        if self.parent is None:
            return self.kind_label()
        idx = "" if self.index is None else f"[{self.index}]"
        return f"{self.parent.path_as_parent()}.{self.field}{idx}"

    def path_as_parent(self):
        if self.parent is None:
            return self.kind_label()
        # annotate refined kind when informative
        p = self.path()
        lab = self.kind_label()
        if len(self.kinds) <= 3:
            return f"{p}:{lab}"
        return p

    def short_path(self):
        """Path without kind refinements of intermediate nodes."""
        if self.parent is None:
            return self.kind_label()
        idx = "" if self.index is None else f"[{self.index}]"
        return f"{self.parent.short_path()}.{self.field}{idx}"

    def __repr__(self):
        return f"U<{self.path()}{'?' if self.opt else ''}>"


class UList(V):
    """A list field of a user node."""

    def __init__(self, parent, field, elem_type, may_none=False):
        super().__init__()
        self.parent = parent
        self.field = field
        self.elem_type = elem_type  # asdl type name
        self.may_none = may_none
        self.derived = None  # ('reversed'|'slice', ...) view of another UList
        self._elems: dict = {}

    def path(self):
        base = f"{self.parent.path_as_parent()}.{self.field}"
        if self.derived:
            return f"{self.derived}({base})"
        return base

    def short_path(self):
        base = f"{self.parent.short_path()}.{self.field}"
        if self.derived:
            return f"{self.derived}({base})"
        return base

    def elem(self, index="*"):
        if index not in self._elems:
            t = self.elem_type
            if t in asdl.PRIMITIVE:
                e = UPrim(self.parent, self.field, t, index=index)
            else:
                e = UNode(asdl.kinds_of_type(t), self.parent, self.field, index, opt=self.may_none)
            self._elems[index] = e
        return self._elems[index]

    def __repr__(self):
        return f"UL<{self.path()}>"


class UPrim(V):
    """A primitive field of a user node (identifier / int / string / constant)."""

    def __init__(self, parent, field, typ, opt=False, index=None):
        super().__init__()
        self.parent = parent
        self.field = field
        self.typ = typ
        self.opt = opt
        self.index = index
        self.is_none = False
        self.facts: dict = {}  # e.g. {'contains:.': False, 'eq:*': False}
        self.derived = None  # e.g. 'split(.)[0]'

    def path(self):
        idx = "" if self.index is None else f"[{self.index}]"
        p = f"{self.parent.path_as_parent()}.{self.field}{idx}"
        return f"{p}.{self.derived}" if self.derived else p

    def short_path(self):
        idx = "" if self.index is None else f"[{self.index}]"
        p = f"{self.parent.short_path()}.{self.field}{idx}"
        return f"{p}.{self.derived}" if self.derived else p

    def __repr__(self):
        return f"UP<{self.path()}:{self.typ}>"


class TNode(V):
    """An `ast.<kind>(...)` node constructed by repository code (template node).
    Pseudo kinds start with '$': $Store, $Load, $Wrap, $Nest, $NestHole."""

    def __init__(self, kind, fields, site=None):
        super().__init__()
        self.kind = kind
        self.fields = fields
        self.site = site
        self.shared = False  # module-level object shared by all conversions

    def __repr__(self):
        return f"T<{self.kind}@{self.site}>"


class PList(V):
    def __init__(self, items=None):
        super().__init__()
        self.items = items if items is not None else []
        self.sym_elem_of = None  # (owner desc) when this list is a symbolic element
        self.shared = False

    def __repr__(self):
        return f"PList({len(self.items)} items)"


class Splice:
    """`lst.extend(v)` where v is not a concrete list."""

    def __init__(self, v):
        self.v = v

    def __repr__(self):
        return f"Splice({self.v!r})"


class Rep:
    """Items appended by the body of a loop over a symbolic iterable."""

    def __init__(self, items, over, elem=None, cond=None):
        self.items = items
        self.over = over  # description of the iterable
        self.elem = elem

    def __repr__(self):
        return f"Rep({self.items!r} over {self.over})"


class PTuple(V):
    def __init__(self, items):
        super().__init__()
        self.items = list(items)

    def __repr__(self):
        return f"PTuple({self.items!r})"


class PDict(V):
    def __init__(self, pairs=None):
        super().__init__()
        self.pairs = pairs if pairs is not None else []
        self.shared = False
        self.sym = []  # Rep([PTuple(key, value)], "bykey(<list>)") entries stored by a symbolic loop

    def get(self, key_pred):
        for k, v in self.pairs:
            if key_pred(k):
                return v
        return None


class PSet(V):
    def __init__(self, items=None):
        super().__init__()
        self.items = items if items is not None else []
        self.shared = False


class Obj(V):
    """Instance of a repository class. `concrete`: built by running __init__
    in this path; otherwise a symbolic summary object."""

    def __init__(self, cls, tag, concrete=False):
        super().__init__()
        self.cls = cls  # ClassInfo (upper bound for symbolic objects) or None
        self.exact = concrete  # class is exactly cls
        self.excluded = set()  # classes this object is known not to be
        self.tag = tag
        self.concrete = concrete
        self.attrs: dict[str, V] = {}
        self.attr_phase: dict[str, int] = {}

    def __repr__(self):
        return f"Obj<{self.cls.name if self.cls else '?'} {self.tag}>"


class Func(V):
    def __init__(self, fi, node, env, bound_self=None, module=None, defcls=None):
        super().__init__()
        self.fi = fi  # FuncInfo or None for lambdas / nested defs
        self.node = node  # FunctionDef | Lambda
        self.env = env  # closure Frame or None
        self.bound_self = bound_self
        self.module = module
        self.defcls = defcls  # class whose body defines the function (for super())

    @property
    def name(self):
        return getattr(self.node, "name", "<lambda>")

    def __repr__(self):
        return f"Func<{self.fi.fq if self.fi else self.name}>"


class Partial(V):
    """functools.partial(f, *args, **kwargs)."""

    def __init__(self, f, args, kwargs):
        super().__init__()
        self.f = f
        self.args = list(args)
        self.kwargs = dict(kwargs)

    def __repr__(self):
        return f"Partial<{self.f!r}>"


class Ext(V):
    """Something outside the repository: builtin / stdlib function, class or module."""

    def __init__(self, dotted):
        super().__init__()
        self.dotted = dotted

    def __repr__(self):
        return f"Ext<{self.dotted}>"


class AstCls(V):
    def __init__(self, cls):
        super().__init__()
        self.cls = cls

    def __repr__(self):
        return f"AstCls<{self.cls.__name__}>"


class RepoCls(V):
    def __init__(self, ci):
        super().__init__()
        self.ci = ci

    def __repr__(self):
        return f"RepoCls<{self.ci.name}>"


class RepoMod(V):
    def __init__(self, mi):
        super().__init__()
        self.mi = mi


class Transf(V):
    """expr_transf(nsp, inner): the user expression rewritten in namespace nsp."""

    def __init__(self, nsp, inner, site):
        super().__init__()
        self.nsp = nsp
        self.inner = inner
        self.site = site

    def __repr__(self):
        return f"X<{self.inner!r} in {getattr(self.nsp, 'tag', self.nsp)}>"


class Lowered(V):
    """The list[expr] received for a yielded statement (or block)."""

    def __init__(self, src, guard=None):
        super().__init__()
        self.src = src  # UNode (one statement) or UList (block)
        self.guard = guard  # (counter ref, flag getter) for blocks lowered through _iter_branch

    def __repr__(self):
        return f"S<{self.src!r}>"


class Fresh(V):
    """Result of ol_name(TEMPLATE): a fresh reserved identifier."""

    def __init__(self, template, const_name, site):
        super().__init__()
        self.template = template
        self.const_name = const_name
        self.site = site

    def __repr__(self):
        return f"Fresh<{self.const_name or self.template}>"


class Unknown(V):
    def __init__(self, desc, typ=None):
        super().__init__()
        self.desc = desc
        self.typ = typ

    def __repr__(self):
        return f"?<{self.desc}>"


class SVal(V):
    """Volatile scalar attribute of an object (written by other code between phases)."""

    def __init__(self, obj, attr, init=None):
        super().__init__()
        self.obj = obj
        self.attr = attr
        self.init = init

    @property
    def desc(self):
        return f"{self.obj.tag}.{self.attr}"

    def __repr__(self):
        return f"SVal<{self.desc}>"


class SColl(V):
    """Volatile collection attribute (list / set / dict) of an object."""

    def __init__(self, obj, attr, elem_classes=None, kind="list", elem_is_list=False):
        super().__init__()
        self.obj = obj
        self.attr = attr
        self.kind = kind
        self.elem_classes = elem_classes or set()
        self.elem_is_list = elem_is_list
        self.known: list[V] = []  # items pushed by this path (stack discipline assumed)
        self.popped = 0
        self._elems: dict = {}

    @property
    def desc(self):
        return f"{self.obj.tag}.{self.attr}"

    def __repr__(self):
        return f"SColl<{self.desc}>"


class Sym(V):
    """Linear integer form: const + sum(coef * symbol)."""

    def __init__(self, terms=None, const=0):
        super().__init__()
        self.terms = dict(terms or {})
        self.const = const

    def key(self):
        t = "+".join(f"{c}*{s}" if c != 1 else s for s, c in sorted(self.terms.items()) if c)
        if self.const or not t:
            return f"{t}{self.const:+d}" if t else str(self.const)
        return t

    def __repr__(self):
        return f"Sym<{self.key()}>"


class Gen(V):
    def __init__(self, func, frame):
        super().__init__()
        self.func = func
        self.frame = frame
        self.started = False


class SuperProxy(V):
    def __init__(self, obj, after_cls):
        super().__init__()
        self.obj = obj
        self.after_cls = after_cls


class TypeOf(V):
    """type(x) of a user node."""

    def __init__(self, node):
        super().__init__()
        self.node = node


class Str(V):
    """String template: parts are python str literals or abstract values."""

    def __init__(self, parts):
        super().__init__()
        out = []
        for p in parts:
            if isinstance(p, Cst) and isinstance(p.value, str):
                p = p.value
            if isinstance(p, Str):
                for q in p.parts:
                    if isinstance(q, str) and out and isinstance(out[-1], str):
                        out[-1] += q
                    else:
                        out.append(q)
                continue
            if isinstance(p, str) and out and isinstance(out[-1], str):
                out[-1] += p
            elif p != "":
                out.append(p)
        self.parts = out

    def __repr__(self):
        return f"Str({self.parts!r})"


class StrOp(V):
    """An operation applied to an abstract string (join / replace / slice / repr ...)."""

    def __init__(self, op, args):
        super().__init__()
        self.op = op
        self.args = args

    def __repr__(self):
        return f"StrOp<{self.op} {self.args!r}>"


class Hole(V):
    """Text received for `yield prec, child` in an unparser generator."""

    def __init__(self, child, prec, site):
        super().__init__()
        self.child = child  # UNode (or other V)
        self.prec = prec  # V (Cst int)
        self.site = site
        self.facts: dict = {}

    def __repr__(self):
        return f"Hole<{self.child!r} @{self.prec!r}>"


def is_none(v):
    return (isinstance(v, Cst) and v.value is None) or (
        isinstance(v, (UNode, UPrim)) and v.is_none
    )


class BoundBuiltin(V):
    """A method of a builtin-typed abstract value (list.append, str.join, ...)."""

    def __init__(self, recv, name):
        super().__init__()
        self.recv = recv
        self.name = name

    def __repr__(self):
        return f"BB<{self.recv!r}.{self.name}>"
