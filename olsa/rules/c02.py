"""C02 - accepted input yields one well-formed single-line expression
(identifier typing, node-kind typing, walrus placement, post-processing)."""
from __future__ import annotations

import ast
import keyword
import re

from ..core import AnalysisError, RuleResult
from ..reference import asdl
from ..semwalk import events_of, iter_tnodes, upath
from ..vals import (
    Cst, Fresh, PList, PTuple, Rep, Splice, Str, StrOp, SVal, TNode, Transf, UList, UNode,
    UPrim, Unknown, V, is_none,
)
from .common import all_templates, kinds_label, norm_path, path_events, short_ctx

EXPLANATION = (
    "Type analysis of the emitted templates (engine T, all statement classes x contexts, namespace "
    "methods, wrappers, preset): C02-R1 types every string that flows into an identifier field "
    "(Name.id, arg, keyword.arg, Attribute.attr, stored/loaded names) as identifier / dotted_name / "
    "identifier-or-*; C02-R2 checks constructor fields against the ASDL and CPython's compile-time "
    "placement rules (walrus target is a Name, Slice only inside a subscript, Starred only in "
    "displays/calls, no None in required fields); C02-R3 checks that no hole that may contain a "
    "walrus lies in the outermost iterable of a converter-built comprehension or under a "
    "comprehension whose target is a user name or a non-reserved constant; C02-R4 = C08-R3 "
    "(yield/await rejected); C02-R5 checks that convert_code_string returns the unparser's text "
    "with nothing but the defensive newline removal applied; with the custom unparser the "
    "syntax-critical skeleton rules of C03/C11-R6/C04-R3 are evaluated too."
    ' C02-R3c: the For template does not store its own target through a walrus inside a comprehension element (an enclosing loop may iterate over the same name). C15-R9 (shared): node kinds that reach a host-versioned stdlib printer.'
)
ASSUMPTIONS = [
    "ast.unparse of the host prints a well-formed expression for a well-formed tree (stdlib, trusted)",
    "CPython's placement rules for walrus/Slice/Starred as in Python/compile.c and symtable.c",
]


# ------------------------------------------------------------------ R1
def string_type(v):
    """-> 'identifier' | 'dotted_name' | 'identifier-or-*' | 'not-identifier' | 'none' | 'unknown'"""
    if is_none(v):
        return "none"
    if isinstance(v, Cst):
        if isinstance(v.value, str) and v.value.isidentifier() and not keyword.iskeyword(v.value):
            return "identifier"
        return "not-identifier"
    if isinstance(v, Fresh):
        t = v.template
        if isinstance(t, str) and re.fullmatch(r"[A-Za-z_][A-Za-z0-9_]*(\{\}[A-Za-z0-9_]*)?", t):
            return "identifier"
        return "not-identifier"
    if isinstance(v, UPrim):
        if v.typ != "identifier":
            return "not-identifier"
        par = v.parent
        pk = set(par.kinds) if isinstance(par, UNode) else set()
        fld = v.field
        base = "identifier"
        if pk == {"alias"} and fld == "name":
            gp = par.parent
            gk = set(gp.kinds) if isinstance(gp, UNode) else set()
            if gk == {"Import"}:
                base = "dotted_name"
            elif gk == {"ImportFrom"}:
                base = "identifier-or-*"
            else:
                base = "dotted_name"
        elif pk == {"ImportFrom"} and fld == "module":
            base = "dotted_name"
        if v.derived and re.match(r"split\('\.'\)\[(\d+|-\d+|\*)\]$", v.derived) and base == "dotted_name":
            # any component of a dotted name is an identifier
            return "identifier"
        if v.derived and base != "identifier":
            return "unknown"
        if base == "dotted_name" and v.facts.get("contains:.") is False:
            return "identifier"
        if base == "identifier-or-*" and v.facts.get("eq:'*'") is False:
            return "identifier"
        return base
    if isinstance(v, (Str, StrOp)):
        return "unknown"
    return "unknown"


IDENT_FIELDS = {("Name", "id"), ("arg", "arg"), ("Attribute", "attr"), ("keyword", "arg"), ("$Store", "name"), ("$Load", "name")}


def rule_r1(ctx):
    rr = RuleResult("C02-R1", "every string flowing into an identifier field is an identifier")
    rr.exhaustive = True
    rr.floor = 30
    seen_sites = set()
    for origin, kind, pr, tmpl in all_templates(ctx):
        for t in iter_tnodes(tmpl):
            for (k, fld) in IDENT_FIELDS:
                if t.kind != k or fld not in t.fields:
                    continue
                v = t.fields[fld]
                ty = string_type(v)
                site = t.site
                what = f"{origin}|{k}.{fld}|{site}"
                if (site, k, fld) not in seen_sites:
                    seen_sites.add((site, k, fld))
                    rr.instances += 1
                if ty == "identifier" or (ty == "none" and (k, fld) == ("keyword", "arg")):
                    rr.ok(what, sample={"rule": "C02-R1", "site": site, "field": f"{k}.{fld}", "value": _desc(v), "type": ty})
                elif ty == "unknown" and isinstance(v, Unknown):
                    # names taken from analysis summaries (e.g. elements of nonlocal_parameters): identifiers by population
                    if "nonlocal_parameters" in v.desc or "param" in v.desc:
                        rr.ok(what, nontrivial=False)
                    else:
                        rr.fail(f"C02-R1|{kind}|{k}.{fld}|untyped", f"{origin} ({site}): cannot type the string `{_desc(v)}` flowing into {k}.{fld}", where=site, what=what)
                else:
                    src = _desc(v)
                    rr.fail(
                        f"C02-R1|{kind}|{k}.{fld}|{ty}",
                        f"{origin} ({site}): `{src}` of type {ty} flows into {k}.{fld}, which must be an identifier (e.g. `import a.b` binds the name 'a.b': text that is not an expression) [context: {short_ctx(pr, 100) if pr else ''}]",
                        where=site, what=what,
                    )
    return rr


def _desc(v):
    if isinstance(v, UPrim):
        return norm_path(v.short_path())
    if isinstance(v, Cst):
        return repr(v.value)
    if isinstance(v, Fresh):
        return f"fresh({v.const_name})"
    return repr(v)[:60]


# ------------------------------------------------------------------ R2
STARRED_OK = {("List", "elts"), ("Tuple", "elts"), ("Set", "elts"), ("Call", "args")}


def _vkinds(v):
    """Node kinds a field value may have: set of kind names, or None when not a node."""
    if isinstance(v, TNode):
        if v.kind == "$Store":
            return {"NamedExpr", "Call"}
        if v.kind == "$Load":
            return {"Name", "Subscript"}
        if v.kind == "$Wrap":
            return {"List", "Call", "Constant", "other-expr"}
        if v.kind in ("$Nest", "$NestHole", "$Rec", "$Param", "$Index"):
            return {"other-expr"}
        return {v.kind}
    if isinstance(v, Transf):
        inner = v.inner
        if isinstance(inner, UNode):
            return _grammar_kinds(inner)
        return _vkinds(inner)
    if isinstance(v, UNode):
        return _grammar_kinds(v)
    return None


def _grammar_kinds(u):
    """Kinds the parser can produce at this position of the user tree: the ASDL types every
    field `expr`, but a Slice only occurs as a subscript index (or inside an index tuple)
    and a Starred only in displays, call arguments and target lists."""
    ks = set(u.kinds)
    if "Slice" in ks and not (u.field == "slice" or (u.field == "elts" and _from_subscript_index(u))):
        ks.discard("Slice")
    if "Starred" in ks and u.field not in ("elts", "args", "targets", "target"):
        ks.discard("Starred")
    return ks


def _from_subscript_index(u):
    """Is this user node the index of a Subscript (or an element of an index tuple)?"""
    n = u
    while isinstance(n, UNode) and n.parent is not None:
        if n.field == "slice" and isinstance(n.parent, UNode) and "Subscript" in n.parent.kinds:
            return True
        if n.field == "elts":
            n = n.parent
            continue
        return False
    return False


def rule_r2(ctx):
    rr = RuleResult("C02-R2", "constructor fields receive node kinds the ASDL and the compile-time placement rules allow")
    rr.exhaustive = True
    rr.floor = 100
    sites = set()
    for origin, kind, pr, tmpl in all_templates(ctx):
        for t in iter_tnodes(tmpl):
            if t.kind.startswith("$"):
                continue
            if getattr(t, "rebuilt_from", None) is not None:
                continue
            if (t.site, t.kind) not in sites:
                sites.add((t.site, t.kind))
                rr.instances += 1
            spec = asdl.FIELDS.get(t.kind)
            if spec is None:
                continue
            for fld, (ftype, q) in spec.items():
                what = f"{origin}|{t.kind}.{fld}|{t.site}"
                v = t.fields.get(fld)
                if fld in asdl.NO_RUNTIME_MEANING:
                    continue
                # required expr-typed fields must be present
                if ftype == "expr" and q == "":
                    if v is None or is_none(v):
                        rr.fail(f"C02-R2|{kind}|{t.kind}.{fld}|missing", f"{origin} ({t.site}): required field {t.kind}.{fld} is missing/None", where=t.site, what=what)
                        continue
                if v is None:
                    continue
                items = []
                if isinstance(v, (PList, PTuple)):
                    stack = list(v.items)
                    while stack:
                        i = stack.pop(0)
                        if isinstance(i, Rep):
                            stack = list(i.items) + stack
                        elif isinstance(i, Splice):
                            continue
                        else:
                            items.append(i)
                else:
                    items = [v]
                for item in items:
                    ks = _vkinds(item)
                    if ks is None:
                        continue
                    role = (t.kind, fld)
                    # walrus target must be a Name
                    if role == ("NamedExpr", "target") and ks != {"Name"}:
                        rr.fail(f"C02-R2|{kind}|NamedExpr.target|not-a-name", f"{origin} ({t.site}): NamedExpr.target is {sorted(ks)[:4]}, CPython requires a Name", where=t.site, what=what)
                        continue
                    # Slice only directly as a subscript index (or inside an index tuple)
                    u = item.inner if isinstance(item, Transf) else item
                    if "Slice" in ks and role != ("Subscript", "slice") and not (role == ("Tuple", "elts") and getattr(t, "is_index_tuple", False)):
                        rr.fail(
                            f"C02-R2|{kind}|{t.kind}.{fld}|slice-outside-subscript",
                            f"{origin} ({t.site}): a node that may be an ast.Slice ({_desc_node(u)}) is placed in {t.kind}.{fld}; `a:b` is only valid directly inside a subscript",
                            where=t.site, what=what,
                        )
                        continue
                    if isinstance(u, UNode) and "Tuple" in ks and _from_subscript_index(u) and role != ("Subscript", "slice"):
                        rr.fail(
                            f"C02-R2|{kind}|{t.kind}.{fld}|index-tuple-with-slice",
                            f"{origin} ({t.site}): the subscript index {_desc_node(u)} may be a tuple containing slices (`a[1:2, 3]`), and is placed unconverted in {t.kind}.{fld}: `(1:2, 3)` is not an expression",
                            where=t.site, what=what,
                        )
                        continue
                    if ks == {"Starred"} and role not in STARRED_OK:
                        rr.fail(f"C02-R2|{kind}|{t.kind}.{fld}|starred-position", f"{origin} ({t.site}): Starred placed in {t.kind}.{fld}", where=t.site, what=what)
                        continue
                    if ftype == "expr" and isinstance(item, TNode) and not item.kind.startswith("$") and item.kind not in asdl.EXPR_KINDS:
                        rr.fail(f"C02-R2|{kind}|{t.kind}.{fld}|not-an-expr", f"{origin} ({t.site}): {item.kind} node placed in expr field {t.kind}.{fld}", where=t.site, what=what)
                        continue
                    rr.ok(what)
    return rr


def _desc_node(u):
    if isinstance(u, UNode):
        return norm_path(u.short_path())
    return repr(u)[:50]


# ------------------------------------------------------------------ R3
def _may_contain_walrus(e):
    return e.kind in ("X", "raw", "S", "param")


def rule_r3(ctx):
    rr = RuleResult("C02-R3", "no hole that may contain a walrus lies in a comprehension's outermost iterable or under a non-reserved comprehension target")
    rr.exhaustive = True
    rr.floor = 4
    T = ctx.tmpl
    for ci, kinds, entry in T.all_pending():
        comps_seen = set()
        for pr in entry.ok_paths():
            kind = kinds_label(pr.extra["node"].kinds)
            evs, w = path_events(pr)
            for b in w.binders:
                if b["kind"] == "comp" and b["site"] not in comps_seen:
                    comps_seen.add(b["site"])
                    rr.instances += 1
            for e in evs:
                if not _may_contain_walrus(e):
                    continue
                what = f"{kind}|{e.path}|{e.kind}"
                bad = False
                if e.comp_iter:
                    bad = True
                    rr.fail(
                        f"C02-R3a|{kind}|{_fp(e.path)}|in-comprehension-iterable",
                        f"{ci.name} ({e.site}): {e.path} lies inside the outermost iterable of the comprehension built at {e.comp_iter[-1]}; CPython rejects an assignment expression there (`while (y:=f()): ...` / `for x in (y:=z): ...` produce text that does not compile) [context: {short_ctx(pr, 90)}]",
                        where=e.site, what=what,
                    )
                for site, names in e.comp_elt:
                    for n in names:
                        if isinstance(n, Fresh):
                            continue
                        if isinstance(n, Cst) and isinstance(n.value, str) and n.value.startswith("__ol_"):
                            continue
                        bad = True
                        nd = "the user's loop target" if isinstance(n, (UNode, Transf)) else f"the constant name {n.value!r}" if isinstance(n, Cst) else "a non-reserved name"
                        rr.fail(
                            f"C02-R3b|{kind}|{_fp(e.path)}|under-target-{'user' if isinstance(n, (UNode, Transf)) else getattr(n, 'value', '?')}",
                            f"{ci.name} ({e.site}): {e.path} lies in the element of the comprehension at {site} whose iteration variable is {nd}; a walrus on that name inside the hole (every lowered assignment is a walrus) is rejected by CPython (\"cannot rebind comprehension iteration variable\") [context: {short_ctx(pr, 90)}]",
                            where=e.site, what=what,
                        )
                if not bad:
                    rr.ok(what)
    return rr


def _fp(path):
    return path.split(".", 1)[1] if "." in path else path


# ------------------------------------------------------------------ R5
def rule_r3c(ctx):
    """A walrus may not rebind the iteration variable of ANY enclosing comprehension (a SyntaxError at
    compile time, whether or not the code runs).  Loops are lowered to comprehensions, the `while`
    template iterates over the non-reserved name `_`, tuple targets of `for` are emitted as they are:
    a store to the loop's own user-chosen target that the For template itself places inside the
    comprehension element collides whenever an enclosing loop iterates over the same name
    (`while ...: for _ in r: ...`, `for i, row in rows: for i in row: ...`)."""
    rr = RuleResult("C02-R3c", "the For template does not store its own target through a walrus inside a comprehension element")
    rr.floor = 1
    entry = ctx.tmpl.pending_by_kind("For")
    reported = False
    for pr in entry.ok_paths():
        rr.instances += 1
        evs, w = path_events(pr)
        bad = None
        for e in evs:
            if e.kind != "store" or not getattr(e, "comp_elt", False):
                continue
            name = e.node.fields.get("name") if hasattr(e.node, "fields") else None
            if isinstance(name, UPrim) and "For.target" in norm_path(name.short_path()):
                bad = e
        if bad is not None and not reported:
            reported = True
            rr.fail(
                "C02-R3c|For|target-stored-in-element",
                f"PendingFor ({bad.site}): the loop variable is bound by a store (walrus) to the user's name inside the element of the loop's comprehension: CPython refuses `NAME := ...` when an ENCLOSING comprehension iterates over NAME - the `while` template iterates over `_`, an outer `for i, row in ...` over `i` - so `while c: for _ in r: ...` converts to text that does not compile ('assignment expression cannot rebind comprehension iteration variable')",
                where=str(bad.site), what="For|target-store",
            )
        elif bad is None:
            rr.ok("For|target-store")
    return rr


def rule_r5(ctx):
    rr = RuleResult("C02-R5", "convert_code_string returns the unparser's text with nothing but newline removal applied")
    rr.floor = 1
    prog = ctx.prog
    fi = prog.func("oneliner", "convert_code_string")
    rets = [n for n in ast.walk(fi.node) if isinstance(n, ast.Return) and n.value is not None]
    if not rets:
        raise AnalysisError("convert_code_string has no return")
    unparsers = {"expr_unparse", "unparse"}

    def is_newline_removal(v):
        return (
            isinstance(v, ast.Call) and isinstance(v.func, ast.Attribute) and v.func.attr == "replace"
            and len(v.args) == 2 and all(isinstance(a, ast.Constant) for a in v.args)
            and v.args[0].value in ("\n", "\r", "\r\n") and v.args[1].value == ""
        )

    def leaves(v, depth=0):
        """The expressions the value may come from: peel newline removal, follow local names (every
        assignment of the function: flow-insensitive) and both arms of a conditional expression."""
        if depth > 6:
            return [v]
        if is_newline_removal(v):
            return leaves(v.func.value, depth + 1)
        if isinstance(v, ast.IfExp):
            return leaves(v.body, depth + 1) + leaves(v.orelse, depth + 1)
        if isinstance(v, ast.Name):
            assigns = [n.value for n in ast.walk(fi.node) if isinstance(n, ast.Assign) and any(isinstance(t, ast.Name) and t.id == v.id for t in n.targets)]
            assigns += [n.value for n in ast.walk(fi.node) if isinstance(n, ast.AnnAssign) and n.value is not None and isinstance(n.target, ast.Name) and n.target.id == v.id]
            aug = [n for n in ast.walk(fi.node) if isinstance(n, ast.AugAssign) and isinstance(n.target, ast.Name) and n.target.id == v.id]
            if assigns and not aug:
                out = []
                for a in assigns:
                    out += leaves(a, depth + 1)
                return out
        return [v]

    for r in rets:
        rr.instances += 1
        what = f"return@{r.lineno}"
        bad = None
        for v in leaves(r.value):
            is_unparse = isinstance(v, ast.Call) and (
                (isinstance(v.func, ast.Name) and v.func.id in unparsers)
                or (isinstance(v.func, ast.Attribute) and v.func.attr in unparsers)
            )
            if not is_unparse:
                bad = bad or v
        if bad is None:
            rr.ok(what, sample={"rule": "C02-R5", "return": ast.unparse(r.value)[:70], "verdict": "unparser text (+ defensive newline removal)"})
            # the "defensive" removal is not harmless: the text of ONE expression contains a line
            # break only inside a string literal, where deleting it changes the value
            def strips(v, depth=0):
                if depth > 6:
                    return False
                if is_newline_removal(v):
                    return True
                if isinstance(v, ast.IfExp):
                    return strips(v.body, depth + 1) or strips(v.orelse, depth + 1)
                if isinstance(v, ast.Name):
                    return any(strips(n.value, depth + 1) for n in ast.walk(fi.node) if isinstance(n, ast.Assign) and any(isinstance(t, ast.Name) and t.id == v.id for t in n.targets))
                return False

            if strips(r.value):
                rr.instances += 1
                rr.fail(
                    "C02-R5|convert_code_string|newline-removal-inside-literals",
                    f"{fi.where()} line {r.lineno}: line breaks are deleted from the unparser's text (`{ast.unparse(r.value)[:70]}`). The text of one expression has a line break only INSIDE a string literal: on a 3.10/3.11 host ast.unparse writes a constant in a replacement field of a triple-quoted f-string with a real newline, and the removal silently turns the value 'a<newline>b' into 'ab'",
                    where=fi.where(), what=what + "|newline",
                )
        else:
            rr.fail(
                f"C02-R5|convert_code_string|return-postprocessed",
                f"{fi.where()} line {r.lineno}: the returned text `{ast.unparse(r.value)[:80]}` comes from `{ast.unparse(bad)[:80]}`, which is not the plain result of an unparser call with at most \\n/\\r removed (e.g. str.splitlines() also splits at U+2028/U+2029, \\x0b, \\x0c, \\x1c-\\x1e, \\x85, which the own unparser writes verbatim inside string literals)",
                where=fi.where(), what=what,
            )
    return rr


def rule_r4(ctx):
    from .c08 import rule_r3 as c08_r3

    rr = c08_r3(ctx)
    rr.rule = "C02-R4"
    for f in rr.findings:
        f.rule = "C02-R4"
        f.key = f.key.replace("C08-R3", "C02-R4")
    return rr


def _c06r8(ctx):
    from .c06 import rule_r8

    return rule_r8(ctx)


def _unparser_syntax(ctx):
    """With the `oneliner` unparser the text is well formed only if the unparser's skeletons are:
    the syntax-critical rules of C03 (corners, skeletons, lambda signature) are necessary here too."""
    from . import c03, c04

    # ... and the f-string field structure of C04-R3 (`{{` is an escape, a lone `}` a syntax error)
    return [c03.rule_r4(ctx), c03.rule_r4b(ctx), c03.rule_r5(ctx), c03.lambda_skeleton_rule(ctx), c04.rule_r3(ctx)]


def _host_printer(ctx):
    """The text printed by the host's ast.unparse is only as well formed as that printer makes it for
    the node kinds that reach it: shared rule C15-R9 (format-spec text written raw on 3.12+ hosts)."""
    from .c15 import rule_r9

    return rule_r9(ctx)


RULES = [("C15-R9", _host_printer), ("C06-R8", _c06r8), ("C03-syntax", _unparser_syntax), ("C02-R1", rule_r1), ("C02-R2", rule_r2), ("C02-R3", rule_r3), ("C02-R3c", rule_r3c), ("C02-R4", rule_r4), ("C02-R5", rule_r5)]
