"""bug2: a nested f-string that reads a captured (closure) variable or a class-level variable is refused by
unparser='oneliner'.

The script is plain 3.8 code (two quote levels).  The converter rewrites the variable `v` into a dict subscript
`__ol_nonlocal_xxx['v']` / `__ol_class_xxx['v']`, i.e. it adds a THIRD string level inside the inner f-string.
expr_unparse only alternates between ' and " (_Node.__init__), so the third level gets the quote of the outermost
f-string again and unparse_FormattedValue() raises
"SyntaxError: The quotation mark of a f-string is included in a f-string expression".
(With the default unparser on a 3.12+ host the text re-uses the quote - known item 18 - so for such a script no
option combination gives text that runs on 3.8 .. 3.11.)
"""
import contextlib
import io
import itertools
import os
import sys

sys.path.insert(0, os.environ["OLREPO"])
import oneliner
from oneliner import Configs

SCRIPTS = [
    # variable of an enclosing function read by an inner function
    "def f():\n"
    "    v = 1\n"
    "    def g():\n"
    "        return f\"{', '.join(f'{n}={v}' for n in 'ab')}\"\n"
    "    return g()\n"
    "print(f())\n",
    # class level variable
    "class A:\n"
    "    v = 2\n"
    "    s = f\"{'-'.join([f'<{v}>'])}\"\n"
    "print(A.s)\n",
]


def run(src, fn):
    out = io.StringIO()
    with contextlib.redirect_stdout(out):
        fn(src)
    return out.getvalue()


bad = 0
for src in SCRIPTS:
    expected = run(src, lambda s: exec(s, {}))
    for up, ew, ifs in itertools.product(["oneliner"], ["list", "chain_call"], ["if_expr", "short_circuit"]):
        c = Configs()
        c.unparser, c.expr_wrapper, c.if_style = up, ew, ifs
        try:
            text = oneliner.convert_code_string(src, configs=c)
            got = run(text, lambda s: eval(s, {}))
            res = "ok" if got == expected and "\n" not in text else "DIFF %r != %r" % (got, expected)
        except Exception as e:  # noqa
            res = "%s: %s" % (type(e).__name__, e)
        if res != "ok":
            bad += 1
            print("%-12s %-10s %-13s\n%s    -> %s" % (up, ew, ifs, src, res))
print("bug2:", "DEFECT PRESENT (%d failing runs)" % bad if bad else "not reproduced")
sys.exit(1 if bad else 0)
