"""a `for` with break/return keeps its iterator alive after the loop

With a break (or a return) in the body the iterable is wrapped:
`__ol_it_xxx := __ol_iter_wrapper(iterable)`.  That hidden variable is never
cleared, so the iterator (an open file, a generator with a pending finally, ...)
stays referenced until the enclosing function returns - at module level until
interpreter exit - instead of being released when the loop is left.
Run: OLREPO=/path/to/checkout python bug6.py   (exit status 1 = defect shows)
"""
import os, sys; sys.path.insert(0, os.environ["OLREPO"])
import contextlib, io, itertools

import oneliner
from oneliner.config import Configs

SRC = 'class Lines:\n    def __init__(self):\n        self.n = 0\n    def __iter__(self):\n        return self\n    def __next__(self):\n        self.n += 1\n        return self.n\n    def __del__(self):\n        print("resource released")\nfor line in Lines():\n    if line == 2:\n        break\nprint("after loop")\n'


def all_configs():
    for u, w, s in itertools.product(
        ("ast.unparse", "oneliner"), ("list", "chain_call"), ("if_expr", "short_circuit")
    ):
        c = Configs()
        c.unparser, c.expr_wrapper, c.if_style = u, w, s
        yield (u, w, s), c


def run(fn):
    buf, exc = io.StringIO(), None
    try:
        with contextlib.redirect_stdout(buf):
            fn()
    except BaseException as e:  # noqa
        exc = type(e).__name__ + ": " + str(e)[:80]
    return buf.getvalue(), exc


expected = run(lambda: exec(compile(SRC, "<orig>", "exec"), {"__name__": "__main__"}))
print("original :", expected)
bad = 0
for name, cfg in all_configs():
    try:
        text = oneliner.convert_code_string(SRC, configs=cfg)
    except BaseException as e:  # noqa
        print(name, "CONVERSION FAILED:", type(e).__name__, e)
        bad += 1
        continue
    got = run(lambda: eval(compile(text, "<conv>", "eval"), {"__name__": "__main__"}))
    if got[0] != expected[0] or (got[1] is None) != (expected[1] is None):
        print(name, "converted:", got)
        bad += 1
print("DEFECT SHOWS in %d of 8 option combinations" % bad if bad else "ok (no difference)")
sys.exit(1 if bad else 0)
