"""__init_subclass__ / __class_getitem__ written with an explicit @classmethod (a very common spelling) are
wrapped a second time: the output contains classmethod(classmethod(lambda ...)).  A classmethod wrapping a
classmethod only works on 3.10-3.12 (descriptor chaining, removed in 3.13); the produced text raises
"TypeError: 'classmethod' object is not callable" on 3.8 and 3.13 and binds cls to <class 'type'> on 3.9.
The host (3.12) happens to hide the problem, so the produced text is evaluated with the other interpreters."""
import os, sys, subprocess, glob
sys.path.insert(0, os.environ["OLREPO"])
import oneliner
from oneliner.config import Configs

SRC = '''class Base:
    seen = []
    @classmethod
    def __init_subclass__(cls, **kw):
        Base.seen.append((cls.__name__, sorted(kw)))
    @classmethod
    def __class_getitem__(cls, item):
        return cls.__name__ + "[" + str(item) + "]"
class Child(Base, flag=1):
    pass
print(Base.seen, Base[3])
'''

CHILD = r'''
import sys, io, contextlib
def run(kind, payload):
    g = {"__name__": "__main__"}
    buf = io.StringIO(); exc = None
    with contextlib.redirect_stdout(buf):
        try:
            exec(payload, g) if kind == "exec" else eval(payload, g)
        except BaseException as e:
            exc = type(e).__name__ + ": " + str(e)
    return buf.getvalue(), exc
src = open(sys.argv[1]).read(); text = open(sys.argv[2]).read()
o = run("exec", src); c = run("eval", text)
print(sys.version.split()[0], "original:", o, "converted:", c)
sys.exit(0 if o == c else 1)
'''

if __name__ == "__main__":
    import tempfile
    c = Configs()
    text = oneliner.convert_code_string(SRC, configs=c)
    d = tempfile.mkdtemp()
    for name, content in (("src.py", SRC), ("out.txt", text), ("child.py", CHILD)):
        with open(os.path.join(d, name), "w") as f:
            f.write(content)
    interpreters = sorted(glob.glob("/root/.pyenv/versions/3.[89].*/bin/python") + glob.glob("/root/.pyenv/versions/3.1[0-9].*/bin/python"))
    failures = 0
    for py in interpreters or [sys.executable]:
        r = subprocess.run([py, os.path.join(d, "child.py"), os.path.join(d, "src.py"), os.path.join(d, "out.txt")],
                           stdout=subprocess.PIPE, stderr=subprocess.STDOUT, universal_newlines=True)
        print(("MISMATCH " if r.returncode else "ok       ") + r.stdout.strip())
        failures += bool(r.returncode)
    if "classmethod(classmethod(" in text.replace(" ", ""):
        print("the produced text contains classmethod(classmethod(...))")
        failures += not interpreters  # without other interpreters, the text itself is the evidence
    print("DEFECT SHOWN on %d interpreter(s)" % failures if failures else "no difference")
    sys.exit(1 if failures else 0)
