import sys, time
from olsa.model import get_program
from olsa.interp import pending_paths
from olsa.tmpl import show
p=get_program()
name=sys.argv[1]; kinds=sys.argv[2].split(',')
only=sys.argv[3] if len(sys.argv)>3 else None
t=time.time()
n=0
for pr in pending_paths(p, p.modules['oneliner.pending_nodes'].classes[name], kinds):
    n+=1
    if only and only not in pr.ctx(): continue
    print('---', pr.outcome, pr.ctx().replace('<class oneliner.namespaces:','').replace('>',''))
    if pr.outcome=='raise': print('   RAISE', pr.raised.exc, pr.raised.msg, pr.raised.site)
    elif pr.outcome=='abort': print('   ABORT', pr.raised, pr.events)
    else:
        print('   =>', show(pr.result))
    if '-e' in sys.argv:
        for e in pr.effects: print('   eff', e['kind'], e.get('target'), show(e['value']) if e.get('value') is not None else '', e.get('rep'), e.get('phase'))
    if pr.events: print('   events', pr.events)
print(n,'paths', round(time.time()-t,2))
