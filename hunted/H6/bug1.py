"""CLI (`python -m oneliner FILE`) decodes FILE as plain UTF-8 text and ignores
the UTF-8 BOM and the PEP 263 coding cookie, unlike `python FILE` and unlike
the library call `oneliner.convert_code_string(<bytes>)`.

 * file with a UTF-8 BOM  -> CLI dies with "SyntaxError: invalid non-printable character U+FEFF"
 * file with `# -*- coding: latin-1 -*-` -> UnicodeDecodeError, or (bytes that
   happen to be valid UTF-8) a silently different program.
"""
import os, sys, subprocess, tempfile, io, contextlib

sys.path.insert(0, os.environ["OLREPO"])
import oneliner

env = dict(os.environ, PYTHONPATH=os.environ["OLREPO"], PYTHONIOENCODING="utf-8")


def sh(*argv):
    p = subprocess.run(argv, capture_output=True, env=env)
    return p.returncode, p.stdout.decode("utf-8", "replace"), p.stderr.decode("utf-8", "replace")


def eval_text(text):
    out = io.StringIO()
    with contextlib.redirect_stdout(out):
        eval(compile(text, "<converted>", "eval"), {"__name__": "__main__"})
    return out.getvalue()


CASES = {
    # name: raw bytes of a valid python source file
    "utf8-bom": b"\xef\xbb\xbf" + 'print("ok")\n'.encode("utf-8"),
    "latin1-cookie": b'# -*- coding: latin-1 -*-\nprint(len("\xc3\xa9"))\n',
}

failed = False
with tempfile.TemporaryDirectory() as d:
    for name, raw in CASES.items():
        path = os.path.join(d, name.replace("-", "_") + ".py")
        with open(path, "wb") as f:
            f.write(raw)
        rc, expected, err = sh(sys.executable, path)
        assert rc == 0, err  # the script itself is valid
        # the library call handles the very same bytes correctly
        lib_out = eval_text(oneliner.convert_code_string(raw))
        assert lib_out == expected, (lib_out, expected)
        # the command line does not
        rc, text, err = sh(sys.executable, "-m", "oneliner", path)
        if rc != 0:
            failed = True
            print(f"[{name}] python FILE prints {expected!r}; library call OK; "
                  f"CLI fails: {err.strip().splitlines()[-1]}")
            continue
        cli_out = eval_text(text.strip())
        if cli_out != expected:
            failed = True
            print(f"[{name}] python FILE prints {expected!r}; library call OK; "
                  f"CLI output evaluates to {cli_out!r}  ({text.strip()})")
sys.exit(1 if failed else 0)
