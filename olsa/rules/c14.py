"""C14 - imports bind the same objects to the same names."""
from __future__ import annotations

import re

from ..core import AnalysisError, RuleResult
from ..semwalk import iter_tnodes
from ..vals import Cst, Fresh, PList, Rep, TNode, UNode, UPrim, is_none
from .c02 import string_type
from .common import norm_path, path_events, short_ctx

EXPLANATION = (
    "Template rules on PendingImport / PendingImportFrom / PendingModule: C14-R1 types the bound "
    "name and, with summaries of the import helpers (import_module -> leaf module, __import__(n) -> "
    "top-level package, __import__(n, g, l, fromlist, level) -> leaf), checks which object is bound; "
    "C14-R2 checks the __import__ call of a from-import argument by argument and that every alias is "
    "bound through get_assign(asname or name, tmp.name); C14-R3/R4 field consumption and one import "
    "per alias in order (C08-R5 / C07 instances); C14-R5 pairs every load of itertools / importlib / "
    "__ol_iter_wrapper with setting the use_* flag on the same path and with the bootstrap binding "
    "that PendingModule inserts at the head of the output."
    ' C14-R1 asks for the attribute path from the top package for aliased dotted imports (IMPORT_FROM semantics). C14-R6: from-import has the sys.modules fallback. C06-R4 (shared): where nested scopes find a name bound by an import.'
)
ASSUMPTIONS = ["the import system's effects (sys.modules, relative resolution) given the same arguments are CPython's"]


def _callee(t):
    """-> ('import_module'|'__import__'|other name, n positional args)"""
    f = t.fields.get("func")
    args = t.fields.get("args")
    n = len(args.items) if isinstance(args, PList) else 0
    if isinstance(f, TNode) and f.kind == "Attribute" and isinstance(f.fields.get("attr"), Cst):
        return f.fields["attr"].value, n
    if isinstance(f, TNode) and f.kind == "Name" and isinstance(f.fields.get("id"), Cst):
        return f.fields["id"].value, n
    return "?", n


def rule_r1(ctx):
    rr = RuleResult("C14-R1", "`import` binds an identifier to the right object (top package for `import a.b`, leaf for `as`)")
    rr.floor = 2
    entry = ctx.tmpl.pending_by_kind("Import")
    for pr in entry.ok_paths():
        evs, w = path_events(pr)
        stores = [e for e in evs if e.kind == "store"]
        rr.instances += 1
        what = f"Import|{short_ctx(pr, 120)}"
        if len(stores) != 1 or not stores[0].mult:
            rr.fail("C14-R1|Import|store-shape", f"PendingImport: expected one store per alias, found {len(stores)} [context: {short_ctx(pr, 100)}]", what=what)
            continue
        st = stores[0].node
        name = st.fields["name"]
        val = st.fields["value"]
        ty = string_type(name)
        if ty != "identifier":
            rr.fail(
                "C14-R1|Import|bound-name|" + ty,
                f"PendingImport ({st.site}): the bound name is `{norm_path(name.short_path()) if isinstance(name, UPrim) else name}` of type {ty}: `import a.b` must bind the first component `a` (to the top-level package); here the walrus target is 'a.b' at module level and a KeyError-prone dict key elsewhere [context: {short_ctx(pr, 80)}]",
                where=st.site, what=what,
            )
            continue
        # `import a.b as c` binds getattr(getattr(__import__('a.b'), ...), 'b'): the attribute path from
        # the top package, which a package may have rebound (`import unittest.main as m` is a class);
        # importlib.import_module('a.b') is sys.modules['a.b'], the submodule
        nest = isinstance(val, TNode) and val.kind == "$Nest"
        call = val.fields["init"] if nest else val
        if not (isinstance(call, TNode) and call.kind == "Call"):
            rr.fail("C14-R1|Import|value-shape", "PendingImport: the stored value is not an import call", what=what)
            continue
        callee, n = _callee(call)
        args = call.fields["args"].items
        arg0 = args[0].fields.get("value") if args and isinstance(args[0], TNode) and args[0].kind == "Constant" else None
        full_name = isinstance(arg0, UPrim) and arg0.field == "name" and not arg0.derived
        if not full_name:
            rr.fail("C14-R1|Import|module-argument", f"PendingImport ({call.site}): the import call does not receive the full dotted name of the alias", where=call.site, what=what)
            continue
        is_as = isinstance(name, UPrim) and name.field == "asname"
        first_component = isinstance(name, UPrim) and bool(name.derived)
        dotted = None
        for k, v in pr.assign.items():
            if re.match(r"contains:.*alias\.name:'\.'$", k):
                dotted = v
        if is_as:
            want = "either" if dotted is False else "attribute-path"
        elif first_component:
            want = "top"
        else:
            want = "either"  # undotted name: top == leaf
        got = {"import_module": "leaf-module", "__import__": "top" if n == 1 else "leaf-module"}.get(callee, "?")
        if nest:
            step = val.fields.get("step")
            attr = step.fields.get("attr") if isinstance(step, TNode) and step.kind == "Attribute" else None
            over = str(getattr(val.fields.get("over"), "value", ""))
            hole_ok = isinstance(step, TNode) and isinstance(step.fields.get("value"), TNode) and step.fields["value"].kind == "$NestHole"
            comp_ok = isinstance(attr, UPrim) and attr.field == "name" and (attr.derived or "").startswith("split('.')")
            if got == "top" and hole_ok and comp_ok and over.endswith("split('.')[1:]"):
                got = "attribute-path"
            else:
                got = "?"
        ok = got != "?" and (want == "either" or got == want or (want == "either" and got in ("top", "leaf-module")))
        if not ok:
            rr.fail(
                f"C14-R1|Import|binds-{got}-wants-{want}",
                f"PendingImport ({call.site}): the bound value is the {got} ({callee}) but the name needs the {want} [context: {short_ctx(pr, 80)}]"
                + ("; `import a.b as c` binds the ATTRIBUTE `b` of the package `a` (IMPORT_FROM), not sys.modules['a.b']: `import unittest.main as m` binds the class unittest.TestProgram, the converted text the module" if want == "attribute-path" else ""),
                where=call.site, what=what,
            )
        else:
            rr.ok(what, sample={"rule": "C14-R1", "bound": "asname" if is_as else ("first component" if first_component else "name"), "callee": callee, "object": got})
    return rr


def rule_r2(ctx):
    rr = RuleResult("C14-R2", "from-import: __import__(module or '', globals(), locals(), [all names], level), then tmp.name bound to asname or name")
    rr.floor = 2
    entry = ctx.tmpl.pending_by_kind("ImportFrom")
    for pr in entry.ok_paths():
        node = pr.extra["node"]
        rr.instances += 1
        what = f"ImportFrom|{short_ctx(pr, 120)}"
        res = pr.result
        items = res.items if isinstance(res, PList) else []
        if not items or not isinstance(items[0], TNode) or items[0].kind != "NamedExpr":
            rr.fail("C14-R2|ImportFrom|shape", "PendingImportFrom: first element is not `tmp := __import__(...)`", what=what)
            continue
        call = items[0].fields.get("value")
        tmp = items[0].fields.get("target")
        callee, n = _callee(call) if isinstance(call, TNode) and call.kind == "Call" else ("?", 0)
        bad = None
        if callee != "__import__" or n != 5:
            bad = f"the import call is {callee} with {n} positional arguments (expected __import__ with 5)"
        else:
            a = call.fields["args"].items
            # 0: module name or ""
            v0 = a[0].fields.get("value") if isinstance(a[0], TNode) and a[0].kind == "Constant" else None
            mod_none = "module" in node.fields and node.fields["module"].is_none
            if mod_none:
                if not (isinstance(v0, Cst) and v0.value == ""):
                    bad = "argument 0 is not '' when the module is absent"
            elif not (isinstance(v0, UPrim) and v0.field == "module" and v0.parent is node):
                bad = "argument 0 is not the module name"
            for i, fn in ((1, "globals"), (2, "locals")):
                c = a[i]
                if not (isinstance(c, TNode) and c.kind == "Call" and _callee(c)[0] == fn):
                    bad = bad or f"argument {i} is not {fn}()"
            fl = a[3]
            ok_fl = False
            if isinstance(fl, TNode) and fl.kind in ("List", "Tuple"):
                elts = fl.fields.get("elts")
                if isinstance(elts, PList) and len(elts.items) == 1 and isinstance(elts.items[0], Rep):
                    r = elts.items[0]
                    over = norm_path(r.over)
                    if over.endswith("ImportFrom.names") and len(r.items) == 1:
                        c = r.items[0]
                        v = c.fields.get("value") if isinstance(c, TNode) and c.kind == "Constant" else None
                        if isinstance(v, UPrim) and v.field == "name":
                            ok_fl = True
            if not ok_fl:
                bad = bad or "argument 3 is not the list of ALL imported names (one Constant(alias.name) per alias, in order)"
            v4 = a[4].fields.get("value") if isinstance(a[4], TNode) and a[4].kind == "Constant" else None
            if not (isinstance(v4, UPrim) and v4.field == "level" and v4.parent is node):
                bad = bad or "argument 4 is not the statement's relative-import level"
        if bad is None:
            evs, w = path_events(pr)
            stores = [e for e in evs if e.kind == "store"]
            if len(stores) != 1 or not stores[0].mult:
                bad = f"expected one store per alias, found {len(stores)}"
            else:
                s = stores[0].node
                name, val = s.fields["name"], s.fields["value"]
                asname_none = any("asname" in k and k.startswith("isnone:") and v is True for k, v in pr.assign.items())
                if not (isinstance(name, UPrim) and name.field == ("name" if asname_none else "asname")):
                    bad = "the bound name is not `asname or name`"
                elif not (isinstance(val, TNode) and val.kind == "Attribute" and isinstance(val.fields.get("attr"), UPrim) and val.fields["attr"].field == "name"
                          and isinstance(val.fields.get("value"), TNode) and val.fields["value"].kind == "Name" and val.fields["value"].fields.get("id") is (tmp.fields.get("id") if isinstance(tmp, TNode) else None)):
                    bad = "the bound value is not `tmp.<alias.name>` of the temporary holding the imported module"
        if bad:
            rr.fail(f"C14-R2|ImportFrom|{_slug(bad)}", f"PendingImportFrom ({call.site if isinstance(call, TNode) else ''}): {bad} [context: {short_ctx(pr, 90)}]", what=what)
        else:
            rr.ok(what, sample={"rule": "C14-R2", "call": "__import__(module|'', globals(), locals(), [names...], level)", "binding": "get_assign(asname or name, tmp.name)"})
    return rr


def _slug(s):
    import re

    return re.sub(r"[^a-z0-9]+", "-", s.lower())[:50].strip("-")


HELPER_FLAGS = {"itertools": "use_itertools", "importlib": "use_importlib"}


def rule_r5(ctx):
    rr = RuleResult("C14-R5", "helper-module / iterator-wrapper loads are paired with their use_* flag and with the bootstrap at the head of the output")
    rr.floor = 4
    T = ctx.tmpl
    wrapper_name = None
    from .common import preset_templates

    for nm, t in preset_templates(ctx).items():
        if isinstance(t, TNode) and t.kind == "Name" and isinstance(t.fields.get("id"), Cst):
            wrapper_name = t.fields["id"].value
    flags = dict(HELPER_FLAGS)
    if wrapper_name:
        flags[wrapper_name] = "use_preset_iter_wrapper"
    # (a) users of the helpers set the flag on the same path
    for ci, kinds, entry in T.all_pending():
        if "Module" in kinds:
            continue
        used_any = False
        for pr in entry.ok_paths():
            evs, w = path_events(pr)
            loaded = {e.path for e in evs if e.kind == "load-const" and e.path in flags}
            for name in loaded:
                used_any = True
                flag = flags[name]
                sets = [e for e in pr.effects if e.get("attr") == flag and e["kind"] == "set"]
                what = f"{ci.name}|{name}|flag"
                if not sets:
                    rr.fail(
                        f"C14-R5|{ci.name}|{name}|flag-not-set",
                        f"{ci.name}: the template loads the helper `{name}` but {flag} is not set on the global namespace on this path: the bootstrap binding is missing from the output (NameError at run time) [context: {short_ctx(pr, 90)}]",
                        what=what,
                    )
                else:
                    rr.ok(what, sample={"rule": "C14-R5", "class": ci.name, "helper": name, "flag": flag})
        if used_any:
            rr.instances += 1
    # (b) the module inserts the binding at the head when the flag is set
    ment = T.pending_by_kind("Module")
    for pr in ment.ok_paths():
        evs, w = path_events(pr)
        body_pos = min([e.pos for e in evs if e.kind == "S"] or [10 ** 9])
        for name, flag in flags.items():
            on = [v for k, v in pr.assign.items() if flag in k]
            if not on:
                rr.fail(f"C14-R5|Module|{name}|flag-not-consulted", f"PendingModule.get_result never consults {flag}", what=f"Module|{name}")
                continue
            rr.instances += 1
            what = f"Module|{name}|{on[0]}"
            binds = [e for e in evs if e.kind == "bind-const" and e.path == name and not e.deferred]
            if on[0]:
                if not binds or binds[0].pos > body_pos:
                    rr.fail(f"C14-R5|Module|{name}|bootstrap-not-at-head", f"PendingModule.get_result: with {flag} set, `{name}` is not bound before the lowered statements", what=what)
                else:
                    # bound to the right thing
                    t = binds[0].node
                    rr.ok(what, sample={"rule": "C14-R5", "helper": name, "bootstrap": "bound at head"})
            else:
                rr.ok(what, nontrivial=False)
    # (c) the bootstrap imports the module it names
    for pr in ment.ok_paths():
        for t in iter_tnodes(pr.result):
            if t.kind == "NamedExpr" and isinstance(t.fields.get("target"), TNode):
                tid = t.fields["target"].fields.get("id")
                v = t.fields.get("value")
                if isinstance(tid, Cst) and tid.value in HELPER_FLAGS and isinstance(v, TNode) and v.kind == "Call":
                    callee, n = _callee(v)
                    a0 = v.fields["args"].items[0] if n else None
                    lib = a0.fields.get("value") if isinstance(a0, TNode) and a0.kind == "Constant" else None
                    what = f"Module|bootstrap|{tid.value}"
                    if callee not in ("__import__", "import_module") or not (isinstance(lib, Cst) and lib.value == tid.value):
                        rr.fail(f"C14-R5|Module|{tid.value}|bootstrap-wrong-module", f"PendingModule ({t.site}): `{tid.value}` is bound to {callee}({getattr(lib, 'value', lib)!r})", where=t.site, what=what)
                    else:
                        rr.ok(what)
    return rr


def rule_r34(ctx):
    """C14-R3 (field consumption) and C14-R4 (one import per alias, in order) are instances of C08-R5 / C07."""
    from .c08 import rule_r5 as c08r5

    src = c08r5(ctx)
    rr = RuleResult("C14-R3", "import statement fields (names, asname, module, level) are consumed")
    rr.floor = 4
    for f in src.findings:
        if "|Import" in f.key:
            rr.fail(f.key.replace("C08-R5", "C14-R3"), f.msg)
    for w in sorted(src.nontrivial):
        if w.startswith("Import"):
            rr.instances += 1
            rr.ok(w)
    # order: the per-alias Rep is over names in source order
    for kind in ("Import", "ImportFrom"):
        for pr in ctx.tmpl.pending_by_kind(kind).ok_paths():
            evs, w = path_events(pr)
            for e in evs:
                if e.kind == "store":
                    if any(o.startswith("reversed(") for o in e.mult) or any(x.kind == "reordered" for x in evs):
                        rr.fail(f"C14-R4|{kind}|alias-order", f"Pending{kind}: aliases are bound out of source order", what=f"{kind}|order")
                    else:
                        rr.ok(f"{kind}|order")
    return rr


def rule_r6(ctx):
    """IMPORT_FROM (reference 7.11, `import_from` in ceval): `from m import n` reads the attribute `n`
    of the module and, when that fails, falls back to `sys.modules[f"{m.__name__}.{n}"]` (needed for
    `from . import sibling` while the package is only partially initialised - circular imports);
    a name that cannot be found raises ImportError, not AttributeError."""
    from ..semwalk import iter_tnodes

    rr = RuleResult("C14-R6", "from-import binds like IMPORT_FROM: attribute read with the sys.modules fallback, ImportError when missing")
    rr.floor = 1
    entry = ctx.tmpl.pending_by_kind("ImportFrom")
    reported = False
    for pr in entry.ok_paths():
        rr.instances += 1
        names = [t.fields.get("id").value for t in iter_tnodes(pr.result) if t.kind == "Name" and isinstance(t.fields.get("id"), Cst)]
        attrs = [t.fields.get("attr").value for t in iter_tnodes(pr.result) if t.kind == "Attribute" and isinstance(t.fields.get("attr"), Cst)]
        consts = [t.fields.get("value").value for t in iter_tnodes(pr.result) if t.kind == "Constant" and isinstance(t.fields.get("value"), Cst) and isinstance(t.fields["value"].value, str)]
        has_fallback = "modules" in attrs or "modules" in names or "sys" in consts or "import_module" in attrs
        if has_fallback:
            rr.ok("ImportFrom|fallback")
        elif not reported:
            reported = True
            rr.fail(
                "C14-R6|ImportFrom|no-sys-modules-fallback",
                "PendingImportFrom.get_result: an imported name is bound with a bare attribute read `tmp.name`; IMPORT_FROM falls back to sys.modules['pkg.name'] when the attribute is not set yet: a legal circular `from . import sibling` inside a package fails with AttributeError after conversion, and a missing name raises AttributeError instead of ImportError",
                what="ImportFrom|fallback",
            )
    return rr


def rule_c06r4(ctx):
    """A name bound by an import statement is a local of the scope that imports it (symtable:
    is_imported, not is_assigned): where nested scopes find it is decided by the birthplace predicate
    (shared rule C06-R4, whose symbol models include imported names)."""
    from .c06 import rule_r4 as r

    return r(ctx)


RULES = [("C06-R4", rule_c06r4), ("C14-R1", rule_r1), ("C14-R2", rule_r2), ("C14-R3", rule_r34), ("C14-R5", rule_r5), ("C14-R6", rule_r6)]
