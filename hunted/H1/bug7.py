"""if_style=short_circuit: every `elif` adds a level of parentheses, so a long but perfectly
ordinary elif chain gives text that no interpreter can parse.

`if a: A elif b: B elif c: C else: D` becomes, with short_circuit,
    (a and (A or 1)) or ((b and (B or 1)) or ((c and (C or 1)) or D))
i.e. the `or` of the else-part is nested to the right instead of being one flat
`x or y or z or ...`.  Both unparsers must parenthesise a BoolOp(Or) that sits inside a
BoolOp(Or), so n elifs need n nested parentheses.  With the own unparser the text stops
compiling at ~198 elifs on 3.12 ("Parser stack overflowed" / "too many nested
parentheses"), at ~100 on 3.8; with ast.unparse the conversion itself dies with
RecursionError.  With if_style=if_expr the same chain (and one of 1000 elifs, own
unparser) works, because a conditional expression in the else-slot needs no parentheses.
Run: OLREPO=/path/to/checkout python bug7.py   (exit status 1 = defect shows)
"""
import os, sys; sys.path.insert(0, os.environ["OLREPO"])
import contextlib, io

import oneliner
from oneliner.config import Configs

N = 220
SRC = "x = %d\nif x == 0:\n    r = 0\n" % (N - 1)
for i in range(1, N):
    SRC += "elif x == %d:\n    r = %d\n" % (i, i)
SRC += "else:\n    r = -1\nprint(r)\n"


def run(fn):
    buf, exc = io.StringIO(), None
    try:
        with contextlib.redirect_stdout(buf):
            fn()
    except BaseException as e:  # noqa
        exc = type(e).__name__ + ": " + str(e)[:80]
    return buf.getvalue(), exc


expected = run(lambda: exec(compile(SRC, "<orig>", "exec"), {}))
print("original :", expected)
bad = 0
for style in ("if_expr", "short_circuit"):
    for unparser in ("oneliner", "ast.unparse"):
        c = Configs()
        c.unparser, c.expr_wrapper, c.if_style = unparser, "list", style
        try:
            text = oneliner.convert_code_string(SRC, configs=c)
        except RecursionError as e:
            # ast.unparse recursing on a deep tree is a known limitation; report only
            print((unparser, style), "conversion: RecursionError (known for ast.unparse)")
            continue
        got = run(lambda: eval(compile(text, "<conv>", "eval"), {}))
        print((unparser, style), "converted:", got)
        if got != expected:
            bad += 1
print("DEFECT SHOWS" if bad else "ok (no difference)")
sys.exit(1 if bad else 0)
