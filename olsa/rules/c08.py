"""C08 - unsupported constructs are rejected, never silently dropped."""
from __future__ import annotations

import ast
import re

from ..core import AnalysisError, RuleResult
from ..model import ClassInfo
from ..reference import asdl
from ..reference.unsupported import EXEMPT_FIELDS, SUPPORTED_STMTS, UNSUPPORTED_EXPRS
from ..vals import UList, UNode, UPrim
from .common import kinds_label, norm_path, path_events, short_ctx
from .exprcopy import all_expr_paths

EXPLANATION = (
    "Exhaustiveness and error-discipline rules decided from the source: C08-R1 compares the keys of "
    "the statement dispatch table with the list of supported kinds (every other ast.stmt subclass of "
    "the analysing interpreter is unsupported by default) and each handler's declared node kind; "
    "C08-R2 checks that a missing key always ends in `raise` and that no except clause on the "
    "conversion path swallows an error (all try statements enumerated); C08-R3 resolves the "
    "expression dispatch for each of the expression kinds (abstract run of get_pending and the "
    "handler constructors) and requires `raise` for yield / yield from / await / async "
    "comprehensions; C08-R4 checks the placement errors (break/continue outside a loop, return "
    "outside a function, second star in every user target pattern that reaches the output, star "
    "import) and that the raise precedes any state update; C08-R5 checks that every field with "
    "run-time meaning of every supported statement kind is consumed by its builder; C08-R6 every "
    "statement of a block is handed to the statement driver on every path of _iter_branch (a statement "
    "that is left out unconverted is never validated)."
)
ASSUMPTIONS = ["errors raised by ast.parse / symtable themselves are stdlib behaviour"]


def _generic_kinds(prog, ci: ClassInfo):
    """Node kinds a Pending class is declared for: PendingNode[T] in its bases."""
    for c in ci.mro():
        if c.generic_arg is not None:
            names = set()
            for n in ast.walk(c.generic_arg):
                if isinstance(n, ast.Name):
                    r = prog.resolve(c.module.name, n.id)
                    v = None
                    try:
                        v = prog._resolved_to_value(r, n.id)
                    except Exception:
                        pass
                    if isinstance(v, type) and issubclass(v, ast.AST):
                        names.add(v.__name__)
            if names:
                return names
    return None


def rule_r1(ctx):
    rr = RuleResult("C08-R1", "the statement dispatch table maps only supported kinds, each to a handler declared for that kind")
    rr.exhaustive = True
    rr.floor = 15
    T = ctx.tmpl
    all_stmts = {c.__name__ for c in ast.stmt.__subclasses__()} | {"Module"}
    unsupported = all_stmts - set(SUPPORTED_STMTS)
    for k, v in T.table.items():
        rr.instances += 1
        kn = k.__name__
        what = f"table|{kn}"
        if kn in unsupported or kn not in SUPPORTED_STMTS:
            rr.fail(
                f"C08-R1|{kn}|unsupported-kind-dispatched",
                f"{T.convert_fn.module.rel}: dispatch table {T.table_name} maps ast.{kn} (an unsupported statement kind) to {getattr(v, 'name', v)}: the statement is accepted instead of rejected",
                where=T.convert_fn.module.rel, what=what,
            )
            continue
        if not isinstance(v, ClassInfo):
            rr.fail(f"C08-R1|{kn}|not-a-class", f"dispatch table value for ast.{kn} is not a class", what=what)
            continue
        declared = _generic_kinds(ctx.prog, v)
        if declared is not None and kn not in declared:
            rr.fail(
                f"C08-R1|{kn}|handler-declared-for-other-kind",
                f"{T.convert_fn.module.rel}: ast.{kn} is dispatched to {v.name}, which is declared for {sorted(declared)}",
                where=T.convert_fn.module.rel, what=what,
            )
        else:
            rr.ok(what, sample={"rule": "C08-R1", "kind": kn, "handler": v.name, "declared_for": sorted(declared or [])})
    return rr


def _always_raises(stmts):
    """Does every path through the statement list end in raise?"""
    for st in stmts:
        if isinstance(st, ast.Raise):
            return True
        if isinstance(st, ast.If):
            if st.orelse and _always_raises(st.body) and _always_raises(st.orelse):
                return True
        if isinstance(st, (ast.Return, ast.Continue, ast.Break)):
            return False
    return False


NARROW_OK = {"StopIteration", "GeneratorExit"}


def rule_r2(ctx):
    rr = RuleResult("C08-R2", "a missing dispatch key always raises; no except clause on the conversion path swallows an error")
    rr.exhaustive = True
    rr.floor = 4
    prog = ctx.prog
    T = ctx.tmpl
    # (a) the lookup itself
    rr.instances += 1
    what = "lookup"
    if T.table_how == "get":
        call = T.table_node
        default = call.args[1] if len(call.args) > 1 else None
        if default is not None and not (isinstance(default, ast.Constant) and default.value is None):
            rr.fail("C08-R2|lookup|get-with-default", f"{T.convert_fn.where()}: the dispatch lookup uses .get(..., {ast.unparse(default)}): an unknown statement kind is silently handled by a default", what=what)
        else:
            # require an `is None` test that raises
            ok = False
            for n in ast.walk(T.convert_fn.node):
                if isinstance(n, ast.If) and isinstance(n.test, ast.Compare) and isinstance(n.test.ops[0], ast.Is) and _always_raises(n.body):
                    ok = True
            if ok:
                rr.ok(what)
            else:
                rr.fail("C08-R2|lookup|get-none-unchecked", f"{T.convert_fn.where()}: the dispatch lookup uses .get() and the missing-key result is not turned into a raise", what=what)
    elif T.table_how == "call-with-default":
        rr.fail("C08-R2|lookup|function-default-returns", f"{T.convert_fn.where()}: the dispatch function {T.table_name} does not end in a raise for the node classes it does not list: an unknown statement kind is handled by a default", what=what)
    elif T.table_how == "call":
        rr.ok(what, sample={"rule": "C08-R2", "lookup": ast.unparse(T.table_node)[:60], "verdict": "dispatch function: the default case raises"})
    else:
        rr.ok(what, sample={"rule": "C08-R2", "lookup": ast.unparse(T.table_node)[:60], "verdict": "subscript: a missing key raises KeyError"})
    # (b) every try statement of the repository
    reach = ctx.cg.reachable(["oneliner:convert_code_string"]) | {f for f in ctx.cg.funcs if f.startswith("oneliner.__main__")}
    for fq, fi in ctx.cg.funcs.items():
        for n in ast.walk(fi.node):
            if not isinstance(n, ast.Try):
                continue
            if fi.node.name != "<module>" and any(isinstance(p, ast.FunctionDef) and p is not fi.node and any(x is n for x in ast.walk(p)) for p in ast.walk(fi.node)):
                continue  # reported with the nested function
            for h in n.handlers:
                rr.instances += 1
                names = set()
                if h.type is None:
                    names.add("BaseException")
                else:
                    for x in ast.walk(h.type):
                        if isinstance(x, ast.Name):
                            names.add(x.id)
                        elif isinstance(x, ast.Attribute):
                            names.add(x.attr)
                what = f"try|{fi.module.rel}|{fi.qualname}|{'+'.join(sorted(names))}"
                if names <= NARROW_OK:
                    rr.ok(what, sample={"rule": "C08-R2", "handler": f"{fi.module.rel}:{h.lineno} except {'/'.join(sorted(names))}", "verdict": "narrow (generator exhaustion)"})
                    continue
                if _always_raises(h.body):
                    rr.ok(what, sample={"rule": "C08-R2", "handler": f"{fi.module.rel}:{h.lineno} except {'/'.join(sorted(names))}", "verdict": "re-raises"})
                    continue
                if fq not in reach and not fi.module.name.endswith("__main__"):
                    rr.ok(what, nontrivial=False)
                    continue
                rr.fail(
                    f"C08-R2|{fi.qualname}|except-{'+'.join(sorted(names))}|swallows",
                    f"{fi.module.rel}:{h.lineno} ({fi.qualname}): `except {'/'.join(sorted(names))}` does not re-raise on every path: an error of the conversion (rejection of an unsupported construct) can be swallowed",
                    where=f"{fi.module.rel}:{h.lineno}", what=what,
                )
    return rr


def rule_r3(ctx):
    rr = RuleResult("C08-R3", "expression dispatch: yield / yield from / await / async comprehensions are rejected")
    rr.exhaustive = True
    rr.floor = 27
    paths_by_kind = all_expr_paths(ctx)
    for kind in asdl.EXPR_KINDS:
        paths = paths_by_kind[kind]
        rr.instances += 1
        outcomes = sorted({(p.extra.get("handler", "-") if p.outcome == "ok" else p.outcome) for p in paths})
        what = f"expr-dispatch|{kind}"
        if kind in UNSUPPORTED_EXPRS:
            okp = [p for p in paths if p.outcome == "ok"]
            if okp:
                rr.fail(
                    f"C08-R3|{kind}|accepted",
                    f"oneliner/expr_transform.py: ast.{kind} is dispatched to {okp[0].extra.get('handler')} and copied into the output (README lists it as unsupported): `def g(): yield 1` converts to a lambda that is not a generator",
                    where="oneliner/expr_transform.py", what=what,
                )
            else:
                rr.ok(what, sample={"rule": "C08-R3", "kind": kind, "outcome": outcomes})
        elif kind in ("ListComp", "SetComp", "DictComp", "GeneratorExp"):
            consulted = [p for p in paths if any("is_async" in k for k in p.assign)]
            if not consulted:
                rr.fail(
                    f"C08-R3|{kind}|async-comprehension-accepted",
                    f"oneliner/expr_transform.py: the handler of ast.{kind} never looks at comprehension.is_async: an asynchronous comprehension is copied instead of rejected",
                    where="oneliner/expr_transform.py", what=what,
                )
            else:
                bad = [p for p in consulted if p.outcome == "ok" and any("is_async" in k and v is True for k, v in p.assign.items())]
                if bad:
                    rr.fail(f"C08-R3|{kind}|async-comprehension-accepted", f"ast.{kind} with is_async set reaches get_result", what=what)
                else:
                    rr.ok(what)
        else:
            rr.ok(what, sample={"rule": "C08-R3", "kind": kind, "outcome": outcomes})
    return rr


def _target_kinds_reached(u, out):
    if isinstance(u, UNode):
        out.append(u)
        for f, v in u.fields.items():
            if isinstance(v, UNode):
                _target_kinds_reached(v, out)
            elif isinstance(v, UList):
                for e in v._elems.values():
                    _target_kinds_reached(e, out)


def rule_r4(ctx):
    rr = RuleResult("C08-R4", "placement errors are raised before any state update; every user target pattern passes the second-star check")
    rr.floor = 5
    T = ctx.tmpl
    # break / continue / return
    for kind, cond_frag, msg in (("Break", "loop_stack", "outside a loop"), ("Continue", "loop_stack", "outside a loop")):
        entry = T.pending_by_kind(kind)
        rr.instances += 1
        empties = [p for p in entry.paths if any(cond_frag in k and ((k.endswith("==0") and v is True) or (k.startswith("nonempty:") and v is False) or (k.endswith(">0") and v is False)) for k, v in p.assign.items())]
        what = f"{kind}|outside-loop"
        if not empties:
            rr.fail(f"C08-R4|{kind}|no-loop-check", f"Pending{kind}: the constructor never tests whether the loop stack is empty", what=what)
            continue
        # an IndexError on the empty stack is still a rejection (an exception), though not a clean one
        bad = [p for p in empties if p.outcome != "raise" and not (p.outcome == "abort" and any(e[0] == "index-error" for e in p.events))]
        if bad:
            rr.fail(f"C08-R4|{kind}|accepted-outside-loop", f"Pending{kind}: `{kind.lower()}` with an empty loop stack does not raise [context: {short_ctx(bad[0], 100)}]", what=what)
        elif any(p.effects for p in empties):
            rr.fail(f"C08-R4|{kind}|state-updated-before-raise", f"Pending{kind}: counters are updated before the placement error is raised", what=what)
        else:
            rr.ok(what, sample={"rule": "C08-R4", "statement": kind, "context": "loop stack empty", "outcome": f"raise {empties[0].raised.exc}", "effects_before_raise": 0})
    entry = T.pending_by_kind("Return")
    rr.instances += 1
    for p in entry.paths:
        fn = "Function" in p.extra.get("nsp_cls", "")
        what = f"Return|{p.extra.get('nsp_cls')}"
        if not fn:
            if p.outcome != "raise":
                rr.fail("C08-R4|Return|accepted-outside-function", f"PendingReturn: `return` in a {p.extra.get('nsp_cls')} does not raise", what=what)
            elif p.effects:
                rr.fail("C08-R4|Return|state-updated-before-raise", "PendingReturn: counters are updated before the placement error is raised", what=what)
            else:
                rr.ok(what)
    # second star: Assign / AnnAssign patterns
    for kind in ("Assign",):
        entry = T.pending_by_kind(kind)
        rr.instances += 1
        second = [p for p in entry.paths if any(k.startswith("loopcarried:") and v == "later" for k, v in p.assign.items())
                  and _star_after_star(p)]
        what = f"{kind}|second-star"
        if not second:
            rr.fail(f"C08-R4|{kind}|no-second-star-check", f"PendingAssign: no context in which a second starred element of a target pattern is recognised", what=what)
        else:
            bad = [p for p in second if p.outcome == "ok"]
            if bad:
                rr.fail(f"C08-R4|{kind}|second-star-accepted", f"PendingAssign.assign_tuple_list: a second starred element in one target pattern is accepted (CPython: 'multiple starred expressions in assignment') [context: {short_ctx(bad[0], 140)}]", what=what)
            else:
                rr.ok(what, sample={"rule": "C08-R4", "statement": kind, "context": "second starred element", "outcome": "raise SyntaxError"})
    # every other user target that reaches the output unchecked
    for ci, kinds, entry in T.all_pending():
        for pr in entry.ok_paths():
            evs, w = path_events(pr)
            for e in evs:
                if e.kind == "raw-target":
                    rr.instances += 1
                    k = kinds_label(pr.extra["node"].kinds)
                    rr.fail(
                        f"C08-R4|{k}|{e.path.split('.', 1)[1]}|no-second-star-check",
                        f"{ci.name}: the user target {e.path} is copied into the output without the 'multiple starred expressions' check: `for a, *b, *c in x: ...` converts to text CPython refuses",
                        what=f"{k}|{e.path}|raw-target",
                    )
    # comprehension targets
    for kind in ("ListComp", "SetComp", "DictComp", "GeneratorExp"):
        rr.instances += 1
        what = f"{kind}|target-shape"
        bad = None
        for p in all_expr_paths(ctx)[kind]:
            if p.outcome != "ok":
                continue
            reached = []
            node = p.extra["node"]
            gens = node.fields.get("generators")
            if isinstance(gens, UList):
                for el in gens._elems.values():
                    t = el.fields.get("target") if isinstance(el, UNode) else None
                    if t is not None:
                        _target_kinds_reached(t, reached)
            for u in reached:
                if "Starred" in u.kinds and len(u.kinds) < 10 and u.fields:
                    bad = u
        if bad is not None:
            rr.fail(f"C08-R4|{kind}|starred-target-accepted", f"comprehension target {norm_path(bad.short_path())} may be Starred and is accepted without a second-star check", what=what)
        else:
            rr.ok(what)
    # star import
    entry = T.pending_by_kind("ImportFrom")
    rr.instances += 1
    stars = [p for p in entry.paths if any("=='*'" in k and v is True for k, v in p.assign.items())]
    what = "ImportFrom|star"
    if not stars:
        rr.fail("C08-R4|ImportFrom|no-star-check", "PendingImportFrom never tests for `import *`", what=what)
    elif any(p.outcome != "raise" for p in stars):
        rr.fail("C08-R4|ImportFrom|star-accepted", "PendingImportFrom: `from m import *` does not raise", what=what)
    else:
        rr.ok(what, sample={"rule": "C08-R4", "statement": "ImportFrom", "context": "alias.name == '*'", "outcome": f"raise {stars[0].raised.exc}"})
    return rr


def _star_after_star(p):
    """A later iteration of the loop over a pattern (the flag 'a star was seen' is set) meets a
    starred element: the loop asks first whether its element is starred, so the FIRST Starred decision
    taken after the loop-carried one is about that element.  (A test such as
    any(isinstance(e, Starred) for e in elts) before the loop, or the stars of a NESTED pattern met
    further on, decide other elements.)"""
    keys = list(p.assign.items())
    for i, (k, v) in enumerate(keys):
        if k.startswith("loopcarried:") and v == "later":
            for k2, v2 in keys[i + 1:]:
                if re.match(r"isinstance:.*\.elts\[\*\d*\]:Starred$", k2):
                    return v2 is True
            return False
    return False


PRODUCT_FIELDS = {"arguments", "alias", "keyword"}


def rule_r5(ctx):
    rr = RuleResult("C08-R5", "every field with run-time meaning of every supported statement kind is consumed by its builder")
    rr.exhaustive = True
    rr.floor = 30
    T = ctx.tmpl
    for ci, kinds, entry in T.all_pending():
        for kind in kinds:
            paths = [p for p in entry.paths if kind in p.extra["node"].kinds and p.outcome in ("ok", "raise")]
            read = {}  # field path -> in template?
            for p in paths:
                root = p.extra["node"]
                evpaths = set()
                if p.outcome == "ok":
                    evs, w = path_events(p)
                    evpaths = {e.path for e in evs}
                _collect_reads(root, kind, read, evpaths, p)
            for fld, (ftype, q) in asdl.FIELDS[kind].items():
                _check_field(rr, ci, kind, kind, fld, ftype, q, read)
    return rr


def _collect_reads(u, label, read, evpaths, p, depth=0):
    for f, v in u.fields.items():
        key = f"{label}.{f}"
        in_tmpl = any(ep.startswith(key.split(".", 1)[0]) and (("." + f) in ep) for ep in evpaths)
        decided = any(f".{f}" in k for k in p.assign)
        read[key] = read.get(key, False) or True
        read[key + "#used"] = read.get(key + "#used", False) or in_tmpl or decided or isinstance(v, UPrim) or p.outcome == "raise"
        if depth < 2:
            subs = []
            if isinstance(v, UNode):
                subs = [v]
            elif isinstance(v, UList):
                subs = [e for e in v._elems.values() if isinstance(e, UNode)]
            for s in subs:
                if s.kinds <= PRODUCT_FIELDS and len(s.kinds) == 1:
                    _collect_reads(s, next(iter(s.kinds)), read, evpaths, p, depth + 1)


def _check_field(rr, ci, stmt, label, fld, ftype, q, read):
    if fld in asdl.NO_RUNTIME_MEANING or (label, fld) in EXEMPT_FIELDS:
        return
    rr.instances += 1
    key = f"{label}.{fld}"
    what = f"{stmt}|{key}"
    if not read.get(key):
        rr.fail(
            f"C08-R5|{stmt}|{key}|never-read",
            f"{ci.name}: field {key} (run-time meaning) is never read by the builder: that part of the statement is silently dropped from the output",
            where=ci.module.rel, what=what,
        )
        return
    rr.ok(what, sample={"rule": "C08-R5", "statement": stmt, "field": key, "verdict": "consumed"})
    if ftype in PRODUCT_FIELDS:
        for f2, (t2, q2) in asdl.FIELDS[ftype].items():
            if f2 in asdl.NO_RUNTIME_MEANING or (ftype, f2) in EXEMPT_FIELDS:
                continue
            rr.instances += 1
            k2 = f"{ftype}.{f2}"
            if not read.get(k2):
                rr.fail(f"C08-R5|{stmt}|{k2}|never-read", f"{ci.name}: field {k2} of {key} is never read by the builder", where=ci.module.rel, what=f"{stmt}|{k2}")
            else:
                rr.ok(f"{stmt}|{k2}")


def _c06r8(ctx):
    from .c06 import rule_r8

    return rule_r8(ctx)


def _c06r1(ctx):
    """A child expression that the generic copier does not hand to the driver is never looked at by
    the dispatch that rejects yield/await: the routing rule C06-R1 is a clause of C08 as well."""
    from .c06 import rule_r1 as r

    return r(ctx)


def _c07r4(ctx):
    """A sub-expression that a statement template drops on some path is never handed to the rewriter
    either, so an unsupported construct inside it is accepted (shared rule C07-R4)."""
    from .c07 import rule_r4 as r

    return r(ctx)


def rule_r6(ctx):
    """Every statement of a block is handed to the statement driver - that is where an unsupported
    construct is refused.  A statement that is left out WITHOUT having been converted (dead code after
    break / continue / return) is never looked at: `def g(): return 1; yield 2` is a generator
    function in Python and converts to a plain function."""
    from .c05 import _PRUNE_KINDS, iter_branch_paths
    from .common import cached

    rr = RuleResult("C08-R6", "every statement of a block is handed to the driver (converted, hence validated), also the ones that are not emitted")
    rr.floor = 4
    seen = set()
    for label, paths in (("generic", cached(ctx, "iter_branch_paths", lambda: iter_branch_paths(ctx))), ("prune", cached(ctx, "iter_branch_prune_paths", lambda: iter_branch_paths(ctx, _PRUNE_KINDS)))):
        for pr in paths:
            if pr.outcome != "ok":
                continue  # reported by C05-IB
            rr.instances += 1
            stmts = pr.extra["stmts"]
            yielded = pr.extra.get("yielded", [])
            missing = [i for i, s in enumerate(stmts) if not any(y is s for y in yielded)]
            what = f"iter_branch|{label}|visited"
            if missing:
                first = stmts[missing[0] - 1].kind_label() if missing[0] > 0 else "?"
                if "dead" not in seen:
                    seen.add("dead")
                    rr.fail(
                        "C08-R6|_iter_branch|statements-not-visited",
                        f"_PendingCompoundStmt._iter_branch: the statements after a `{first}` statement are dropped without being handed to the driver [{short_ctx(pr, 120)}]. They never run, but they are never checked either: `def g():\\n    return 1\\n    yield 2` (a generator function: list(g()) == []) is accepted and converted to a plain function (TypeError), `try`/`with`/`del` placed there are accepted silently",
                        what=what,
                    )
            else:
                rr.ok(what)
    return rr


RULES = [("C06-R8", _c06r8), ("C06-R1", _c06r1), ("C07-R4", _c07r4), ("C08-R1", rule_r1), ("C08-R2", rule_r2), ("C08-R3", rule_r3), ("C08-R4", rule_r4), ("C08-R5", rule_r5), ("C08-R6", rule_r6)]
