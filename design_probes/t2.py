from p import run
run("""
def a():
    x = 1
    def b():
        nonlocal x
        x = 2
        def c():
            return x
        return c()
    return b()
print(a())
""", True, True)
run("""
def f():
    x = 1
    g = lambda x: x + 1
    def h():
        nonlocal x
        x = 5
    h()
    return g(10), x
print(f())
""", True, True)
run("""
def f():
    d = {}
    k = 'a'
    def h():
        return k
    d[k] = 1
    return d
print(f())
""", True, True)
run("x = [1,2,3]\nprint(x[0:2, ...] if False else 0)\nclass A:\n    def __getitem__(s,i): return i\nprint(A()[1:2, 3])", False, False)
run("""
def f():
    for i in range(3):
        def g():
            return i
    return g()
print(f())
""", True, True)
run("a, *b, *c = [1,2,3]", True)
run("for a, *b, *c in [[1,2,3]]:\n    print(a)", True, True)
run("print(f'{1e999}')", False)
run("x='\\ud800'\nprint(len(x))", False)
