from p import run
run("class O:\n    x=0\n    def __init__(s): s.d={'k':1}\no=O()\ndef f():\n    print('f'); return o\ndef k():\n    print('k'); return 'k'\nf().x += 1\nf().d[k()] += 2\nprint(o.x, o.d)\nl=[1,2,3]\nl[0:2] += [9]\nprint(l)", False)
