"""C13 - assignment, destructuring and augmented assignment store what Python stores."""
from __future__ import annotations

import ast
import itertools
import re

from ..core import AnalysisError, RuleResult
from ..extract import helper_entries
from ..reference.inplace import INPLACE
from ..semwalk import events_of, iter_tnodes
from ..vals import Cst, Fresh, PList, Rep, Sym, TNode, Transf, UNode, UPrim, is_none
from .common import kinds_label, norm_path, path_events, short_ctx

EXPLANATION = (
    "Table and template rules: C13-R1 compares the operator -> in-place method table of the "
    "augmented-assignment builder with the data-model table, exhaustively over "
    "ast.operator.__subclasses__(); C13-R2 checks the rebinding fallback BinOp(loaded target, same "
    "operator, value); C13-R3 enumerates the exclusive paths of every augmented-assignment template "
    "and requires exactly one store to the target on each; C13-R4 checks that the target dispatch is "
    "exhaustive and ends in raise; C13-R5 checks the slice -> slice(lower, upper, step) mapping; "
    "C13-R6 checks the index arithmetic of starred destructuring as linear forms; C13-R7 that a "
    "walrus on a user name is only built inside the namespace classes; C13-R8 the in-place method "
    "is tried first on every path; C09-R1 instance: pattern/value temporaries are fresh per use."
    ' C13-R6 also: no part of the right-hand side is evaluated in a repetition that stores a target. C13-R9: destructuring checks the number of values, and the bound of an emitted check is == len(targets) or >= len(targets) - 1 with a star. C13-R10: NotImplemented from the in-place method falls back. Shared: C06-R5 (the read of a class-level target falls back lazily to the plain name).'
)
ASSUMPTIONS = [
    "numeric results and CPython's type-slot lookup versus hasattr are run-time behaviour (not decided)",
]


def _find_op_tables(prog):
    """dicts {ast.operator subclass: str} in class attributes / module constants."""
    out = []
    for ci in prog.all_classes():
        for name, (val, ann, g) in ci.class_attrs.items():
            if val is None:
                continue
            try:
                v = prog.eval_const(ci.module, val)
            except Exception:
                continue
            if isinstance(v, dict) and v and all(isinstance(k, type) and issubclass(k, ast.operator) for k in v) and all(isinstance(x, str) and x.startswith("__i") for x in v.values()):
                out.append((f"{ci.name}.{name}", ci.module.rel, v))
    for mi in prog.modules.values():
        for name, v in mi.consts.items():
            if isinstance(v, dict) and v and all(isinstance(k, type) and issubclass(k, ast.operator) for k in v) and all(isinstance(x, str) and x.startswith("__i") for x in v.values()):
                out.append((f"{mi.name}.{name}", mi.rel, v))
    return out


def rule_r1(ctx):
    """The in-place method per operator, read off the templates (one context per operator kind), so
    the rule does not depend on how the repository represents the table (dict, function, ...)."""
    rr = RuleResult("C13-R1", "operator -> in-place method is total and equals the data-model table")
    rr.exhaustive = True
    rr.floor = 13
    entry = ctx.tmpl.pending_by_kind("AugAssign")
    if not entry.paths:
        raise AnalysisError("C13-R1: the AugAssign template could not be extracted: nothing is concluded about the in-place methods")
    used: dict[str, set] = {}
    aborted: dict[str, str] = {}
    for pr in entry.paths:
        node = pr.extra.get("node")
        opn = node.fields.get("op") if node is not None else None
        if opn is None or len(opn.kinds) != 1:
            continue
        k = next(iter(opn.kinds))
        if pr.outcome == "ok":
            names = set()
            for t in iter_tnodes(pr.result):
                if t.kind == "Call" and _is_call_named(t, "hasattr"):
                    args = t.fields.get("args")
                    if isinstance(args, PList) and len(args.items) == 2 and isinstance(args.items[1], TNode) and isinstance(args.items[1].fields.get("value"), Cst):
                        names.add(args.items[1].fields["value"].value)
                if t.kind == "Attribute" and isinstance(t.fields.get("attr"), Cst) and str(t.fields["attr"].value).startswith("__i"):
                    names.add(t.fields["attr"].value)
            used.setdefault(k, set()).update(names)
        elif pr.outcome in ("abort", "raise") and any(x in str(getattr(pr.raised, "exc", pr.raised)) + str(pr.events) for x in ("KeyError", "key-error")):
            aborted[k] = str(pr.events[:1] or pr.raised)
    where = entry.paths[0].extra.get("where", "PendingAugAssign") if entry.paths else "PendingAugAssign"
    for op in [c.__name__ for c in ast.operator.__subclasses__()]:
        rr.instances += 1
        what = f"inplace|{op}"
        names = used.get(op, set())
        if not names:
            rr.fail(f"C13-R1|{op}|missing", f"PendingAugAssign: no in-place method is emitted for ast.{op} ({aborted.get(op, 'no context reaches the template')}): KeyError during conversion of `x {op}= y`", what=what)
        elif names != {INPLACE[op]}:
            rr.fail(f"C13-R1|{op}|wrong-method", f"PendingAugAssign: for ast.{op} the template tests/calls {sorted(names)}, the data model prescribes {INPLACE[op]!r}", what=what)
        else:
            rr.ok(what, sample={"rule": "C13-R1", "operator": op, "method": INPLACE[op]})
    # cross-check of a literal table, when the repository has one
    for tname, rel, tab in _find_op_tables(ctx.prog):
        have = {k.__name__: v for k, v in tab.items()}
        for op in [c.__name__ for c in ast.operator.__subclasses__()]:
            rr.instances += 1
            what = f"{tname}|{op}"
            if op not in have:
                rr.fail(f"C13-R1|{op}|missing", f"{rel}: {tname} has no entry for ast.{op} (KeyError during conversion of `x {op}= y`)", where=rel, what=what)
            elif have[op] != INPLACE[op]:
                rr.fail(f"C13-R1|{op}|wrong-method", f"{rel}: {tname}[{op}] = {have[op]!r}, the data model prescribes {INPLACE[op]!r}", where=rel, what=what)
            else:
                rr.ok(what, sample={"rule": "C13-R1", "operator": op, "method": have[op]})
    return rr


def _aug_paths(ctx):
    return ctx.tmpl.pending_by_kind("AugAssign")


def _is_call_named(t, name):
    f = t.fields.get("func")
    return isinstance(f, TNode) and f.kind == "Name" and isinstance(f.fields.get("id"), Cst) and f.fields["id"].value == name


def _is_method_call(t, attr):
    f = t.fields.get("func")
    return isinstance(f, TNode) and f.kind == "Attribute" and isinstance(f.fields.get("attr"), Cst) and f.fields["attr"].value == attr


def rule_r2(ctx):
    rr = RuleResult("C13-R2", "the rebinding fallback is BinOp(loaded target, the statement's operator, rewritten value)")
    rr.floor = 3
    for pr in _aug_paths(ctx).ok_paths():
        node = pr.extra["node"]
        tk = kinds_label(node.fields["target"].kinds) if "target" in node.fields else "?"
        rr.instances += 1
        what = f"AugAssign|{tk}|binop|{pr.extra.get('nsp_cls')}"
        binops = [t for t in iter_tnodes(pr.result) if t.kind == "BinOp"]
        if not binops:
            rr.fail(f"C13-R2|AugAssign|{tk}|no-fallback", f"PendingAugAssign ({tk} target): no `target op value` fallback in the template", what=what)
            continue
        bad = None
        for b in binops:
            op = b.fields.get("op")
            if not (isinstance(op, UNode) and op.field == "op" and op.parent is node):
                bad = f"operator of the fallback is not the statement's operator ({op!r})"
            right = b.fields.get("right")
            if not (isinstance(right, Transf) and isinstance(right.inner, UNode) and right.inner.field == "value" and right.inner.parent is node):
                bad = "right operand of the fallback is not the rewritten value of the statement"
            left = b.fields.get("left")
            if not (isinstance(left, TNode) and left.kind in ("$Load", "Name")):
                bad = "left operand of the fallback is not a load of the target"
        if bad:
            rr.fail(f"C13-R2|AugAssign|{tk}|fallback-shape", f"PendingAugAssign ({tk} target): {bad}", what=what)
        else:
            rr.ok(what, sample={"rule": "C13-R2", "target": tk, "fallback": "BinOp(load target, U:AugAssign.op, X(AugAssign.value))"})
    return rr


def _store_events(evs):
    out = []
    for e in evs:
        if e.kind == "store":
            out.append(e)
        elif e.kind == "call" and isinstance(e.node, TNode):
            if _is_call_named(e.node, "setattr") or _is_method_call(e.node, "__setitem__"):
                out.append(e)
    return out


def rule_r3(ctx):
    rr = RuleResult("C13-R3", "every exclusive path of an augmented assignment performs exactly one store to the target")
    rr.floor = 3
    for pr in _aug_paths(ctx).ok_paths():
        node = pr.extra["node"]
        tk = kinds_label(node.fields["target"].kinds) if "target" in node.fields else "?"
        rr.instances += 1
        evs, w = path_events(pr)
        stores = _store_events(evs)
        tests = {}
        for e in stores:
            for pol, (_t, uid, n) in e.guards:
                tests[uid] = n
        uids = sorted(tests)
        what = f"AugAssign|{tk}|stores|{pr.extra.get('nsp_cls')}"
        verdict = None
        for vals in itertools.product((True, False), repeat=len(uids)):
            a = dict(zip(uids, vals))
            n = sum(1 for e in stores if all(a.get(uid) == pol for pol, (_t, uid, _n) in e.guards))
            if n != 1:
                branch = ", ".join(f"{_test_desc(tests[u])}={v}" for u, v in a.items()) or "unconditional"
                verdict = (n, branch)
                break
        if verdict:
            n, branch = verdict
            rr.fail(
                f"C13-R3|AugAssign|{tk}|{n}-stores",
                f"PendingAugAssign ({tk} target): on the path [{branch}] the template performs {n} stores to the target; Python binds the target to the result of the operation on every path (also to the result of __iop__) [context: {short_ctx(pr, 80)}]",
                what=what,
            )
        else:
            rr.ok(what, sample={"rule": "C13-R3", "target": tk, "paths": 2 ** len(uids), "stores_per_path": 1})
    return rr


def _test_desc(n):
    if isinstance(n, TNode) and n.kind == "Call" and _is_call_named(n, "hasattr"):
        return "hasattr(target, __iop__)"
    return getattr(n, "kind", "test")


def rule_r4(ctx):
    rr = RuleResult("C13-R4", "target dispatch is exhaustive over the grammar's target kinds and ends in raise")
    rr.floor = 2
    allowed = {"Assign": {"Name", "Attribute", "Subscript", "Tuple", "List", "Starred"}, "AugAssign": {"Name", "Attribute", "Subscript"}}
    for kind, ok_kinds in allowed.items():
        entry = ctx.tmpl.pending_by_kind(kind)
        rr.instances += 1
        # contexts in which the statement's (top-level) target is none of the kinds the dispatch tests
        import re as _re

        root_pat = _re.compile(r"^isinstance:(Assign\.targets\[[^\]]*\]|AnnAssign\.target|AugAssign\.target):[A-Za-z|]+$")
        default_paths = []
        for p in entry.paths:
            tests = [(k, v) for k, v in p.assign.items() if root_pat.match(k)]
            if tests and all(v is False for _k, v in tests):
                default_paths.append(p)
        raises = [p for p in default_paths if p.outcome == "raise"]
        what = f"{kind}|dispatch"
        accepted = [p for p in default_paths if p.outcome == "ok"]
        if accepted:
            rr.fail(f"C13-R4|{kind}|default-accepted", f"Pending{kind}: a target that is none of the handled kinds is accepted (the statement is lowered to nothing / something undefined) instead of raising [context: {short_ctx(accepted[0], 120)}]", what=what)
            continue
        if not raises:
            rr.fail(f"C13-R4|{kind}|no-raise", f"Pending{kind}: the target dispatch has no raising default branch", what=what)
            continue
        bad = None
        for p in entry.ok_paths():
            node = p.extra["node"]
            for fld in ("target", "targets"):
                v = node.fields.get(fld)
                us = [v] if isinstance(v, UNode) else (list(v._elems.values()) if v is not None and hasattr(v, "_elems") else [])
                for u in us:
                    if isinstance(u, UNode) and not (u.kinds <= ok_kinds) and u.fields == {} and len(u.kinds) < 20:
                        pass
                    if isinstance(u, UNode) and len(u.kinds) <= 3 and not (u.kinds <= ok_kinds):
                        bad = (u, p)
        if bad:
            rr.fail(f"C13-R4|{kind}|unexpected-kind", f"Pending{kind}: target kind {sorted(bad[0].kinds)} is lowered without a defined handler", what=what)
        else:
            rr.ok(what, sample={"rule": "C13-R4", "statement": kind, "default": f"raise {raises[0].raised.exc}"})
    return rr


def rule_r5(ctx):
    rr = RuleResult("C13-R5", "a user Slice maps to slice(lower, upper, step) with None for missing bounds")
    rr.floor = 8
    ents = {k: e for k, e in helper_entries(ctx.tmpl).items() if k.startswith("slice:")}
    if not ents:
        raise AnalysisError("C13-R5: slice conversion helper not found in oneliner/utils.py")
    for name, entry in ents.items():
        for pr in entry.ok_paths():
            arg = pr.extra["args"][0]
            if not (isinstance(arg, UNode) and arg.kinds == {"Slice"}):
                continue
            rr.instances += 1
            what = f"{name}|{short_ctx(pr, 100)}"
            t = pr.result
            if not (isinstance(t, TNode) and t.kind == "Call" and _is_call_named(t, "slice")):
                rr.fail(f"C13-R5|{name.split(':')[1]}|not-slice-call", f"{name}: result is not a call of slice()", what=what)
                continue
            args = t.fields.get("args")
            items = args.items if isinstance(args, PList) else []
            kws = t.fields.get("keywords")
            if len(items) != 3 or (isinstance(kws, PList) and kws.items):
                rr.fail(f"C13-R5|{name.split(':')[1]}|arity", f"{name}: slice() is called with {len(items)} positional arguments", what=what)
                continue
            bad = None
            for i, fld in enumerate(("lower", "upper", "step")):
                src = arg.fields.get(fld)
                item = items[i]
                if src is not None and not src.is_none:
                    inner = item.inner if isinstance(item, Transf) else item
                    if inner is not src:
                        bad = f"argument {i} of slice() is not Slice.{fld}"
                else:
                    if not (isinstance(item, TNode) and item.kind == "Constant" and is_none(item.fields.get("value"))):
                        bad = f"argument {i} of slice() is not Constant(None) when Slice.{fld} is missing"
            if bad:
                rr.fail(f"C13-R5|{name.split(':')[1]}|mapping", f"{name} ({t.site}): {bad} [context: {short_ctx(pr, 100)}]", where=t.site, what=what)
            else:
                rr.ok(what, sample={"rule": "C13-R5", "context": short_ctx(pr, 90), "verdict": "slice(lower, upper, step)"})
    return rr


def _sym_terms(v):
    """Linear form of a Constant(value=<Sym|int>) -> (index coef, len coef, const) or None."""
    if isinstance(v, TNode) and v.kind == "Constant":
        v = v.fields.get("value")
    if isinstance(v, Cst) and isinstance(v.value, int):
        return (0, 0, v.value)
    if isinstance(v, Sym):
        ic = lc = 0
        for k, c in v.terms.items():
            if k.startswith("index("):
                ic += c
            elif k.startswith("len("):
                lc += c
            else:
                return None
        return (ic, lc, v.const)
    return None


def rule_r6(ctx):
    rr = RuleResult("C13-R6", "index arithmetic of starred destructuring (linear forms over index and len(elts))")
    rr.floor = 3
    entry = ctx.tmpl.pending_by_kind("Assign")
    seen = set()
    # the whole right-hand side is evaluated before the first store: no part of the value may be
    # evaluated inside a repetition that also stores a target (element j after the store of target j-1)
    inter = False
    for pr in entry.ok_paths():
        evs, _w = path_events(pr)
        from .c07 import _at_most_once

        def real(m):
            # a list the path knows to have at most one element is not a repetition
            return tuple(x for x in m if not _at_most_once(pr, x))

        vals = [e for e in evs if e.kind in ("X", "raw") and re.match(r"(Ann)?Assign\.value\b", e.path or "") and real(e.mult)]
        stores = [e for e in evs if e.kind == "store" and real(e.mult)]
        for v in vals:
            if any(real(st.mult)[: len(real(v.mult))] == real(v.mult) for st in stores) and not inter:
                inter = True
                rr.instances += 1
                rr.fail(
                    "C13-R6|Assign|value-interleaved-with-stores",
                    f"PendingAssign ({v.site}): {v.path} is evaluated once per element of {v.mult[-1]}, in the same repetition that stores the targets: element j of the right-hand side is evaluated AFTER target j-1 was stored. Python evaluates the whole right-hand side first: `a, b = b, a` with a and b in a converter-managed dict (captured by a nested function, class body) gives (b, b); a later element that calls something reading an earlier target sees the new value [context: {short_ctx(pr, 100)}]",
                    where=str(v.site), what="Assign|value-before-stores",
                )
    for pr in entry.ok_paths():
        later = any(k.startswith("loopcarried:") and v == "later" for k, v in pr.assign.items())
        for t in iter_tnodes(pr.result):
            if t.kind != "Subscript" or getattr(t, "func", "") == "":
                continue
            val = t.fields.get("value")
            if not (isinstance(val, TNode) and val.kind == "Name" and isinstance(val.fields.get("id"), Fresh)):
                # an element of a pattern read from something that is not a tuple() snapshot
                sl0 = t.fields.get("slice")
                idx_terms = _sym_terms(sl0) if not (isinstance(sl0, TNode) and sl0.kind == "Slice") else _sym_terms(sl0.fields.get("lower"))
                if getattr(t, "func", "") == "assign_tuple_list" and idx_terms is not None and idx_terms[0] != 0:
                    key = ("element-base", t.site)
                    if key not in seen:
                        seen.add(key)
                        rr.instances += 1
                    from ..tmpl import show

                    rr.fail(
                        "C13-R6|Assign|element-not-from-snapshot",
                        f"PendingAssign.assign_tuple_list ({t.site}): an element of a (nested) pattern is read as `{show(t, maxdepth=3)[:70]}`, i.e. by indexing an expression, not the tuple(<source>) snapshot of that pattern: Python unpacks by ITERATING the source (`k, (p, q) = 'k', {{0: 'zero', 1: 'one'}}` must bind the keys; generators, sets, maps are not indexable)",
                        where=t.site, what=f"destructure|element-base|{t.site}",
                    )
                continue
            sl = t.fields.get("slice")
            if isinstance(sl, TNode) and sl.kind == "Slice":
                case = "starred"
                lo = _sym_terms(sl.fields.get("lower"))
                up_node = sl.fields.get("upper")
                up = None if (up_node is None or is_none(up_node)) else _sym_terms(up_node)
                lo_v = sl.fields.get("lower")
                lo_v = lo_v.fields.get("value") if isinstance(lo_v, TNode) else lo_v
                pkeys = [k for k in (lo_v.terms if isinstance(lo_v, Sym) else {}) if k.startswith("index(")]
                zero = any(k.startswith("cmp:") and pkeys and pkeys[0] in k and k.endswith("==0") and v is True for k, v in pr.assign.items())
                ok = lo == (1, 0, 0) and ((zero and up is None) or (not zero and up == (1, -1, 1)))
                want = "list(tmp[index : index-len+1]) with the upper bound omitted iff it is 0"
                got = f"lower={lo}, upper={up}, upper==0 context={zero}"
            else:
                terms = _sym_terms(sl)
                if terms is None:
                    continue
                # which case?  the element is after the star iff the form mentions len()
                if terms[1] != 0 or later:
                    case = "after-star"
                    ok = terms == (1, -1, 0)
                    want = "tmp[index - len(elts)]"
                else:
                    case = "before-star"
                    ok = terms == (1, 0, 0)
                    want = "tmp[index]"
                got = f"(index coef, len coef, const) = {terms}"
            key = (case, t.site)
            if key not in seen:
                seen.add(key)
                rr.instances += 1
            what = f"destructure|{case}|{t.site}"
            if ok:
                rr.ok(what, sample={"rule": "C13-R6", "case": case, "form": got, "verdict": want})
            else:
                rr.fail(f"C13-R6|Assign|{case}|index-arithmetic", f"PendingAssign.assign_tuple_list ({t.site}): {case} element reads {got}; expected {want}", where=t.site, what=what)
        # the temporary of every (also nested) pattern is a tuple() snapshot of its source
        for t in iter_tnodes(pr.result):
            if t.kind == "NamedExpr" and getattr(t, "func", "") == "assign_tuple_list":
                tgt = t.fields.get("target")
                if isinstance(tgt, TNode) and isinstance(tgt.fields.get("id"), Fresh):
                    v = t.fields.get("value")
                    key = ("snapshot", t.site)
                    if key not in seen:
                        seen.add(key)
                        rr.instances += 1
                    what = f"destructure|snapshot|{t.site}|{short_ctx(pr, 60)}"
                    if isinstance(v, TNode) and v.kind == "Call" and _is_call_named(v, "tuple"):
                        rr.ok(what)
                    else:
                        from ..tmpl import show

                        rr.fail(
                            "C13-R6|Assign|snapshot|not-tuple",
                            f"PendingAssign.assign_tuple_list ({t.site}): the temporary of a (nested) pattern is bound to `{show(v, maxdepth=3)[:60]}` instead of tuple(<source>): the source is indexed, not iterated (`k, (m, n) = 0, {{1: 'x', 0: 'y'}}` reads the dict by key; generators fail) [context: {short_ctx(pr, 80)}]",
                            where=t.site, what=what,
                        )
    return rr


def rule_r8(ctx):
    rr = RuleResult("C13-R8", "every augmented assignment tries the in-place method first (hasattr dispatch), whatever the operands look like")
    rr.floor = 3
    inplace = set(INPLACE.values())
    for pr in _aug_paths(ctx).ok_paths():
        node = pr.extra["node"]
        tk = kinds_label(node.fields["target"].kinds) if "target" in node.fields else "?"
        rr.instances += 1
        what = f"AugAssign|{tk}|dispatch|{short_ctx(pr, 80)}"
        found = False
        for t in iter_tnodes(pr.result):
            if t.kind == "IfExp":
                test = t.fields.get("test")
                body = t.fields.get("body")
                if isinstance(test, TNode) and test.kind == "Call" and _is_call_named(test, "hasattr") and isinstance(body, TNode) and body.kind == "Call":
                    f = body.fields.get("func")
                    if isinstance(f, TNode) and f.kind == "Attribute" and isinstance(f.fields.get("attr"), Cst) and f.fields["attr"].value in inplace:
                        found = True
        if found:
            rr.ok(what)
        else:
            rr.fail(
                f"C13-R8|AugAssign|{tk}|no-inplace-dispatch",
                f"PendingAugAssign ({tk} target): in the context [{short_ctx(pr, 110)}] the template rebinds `target op value` without trying target.__iop__ first: aliases of a mutable target no longer observe the update (`lst *= 2`)",
                what=what,
            )
    return rr


def rule_r7(ctx):
    rr = RuleResult("C13-R7", "a walrus on a user name is built only inside the namespace classes")
    rr.floor = 17
    for ci, kinds, entry in ctx.tmpl.all_pending():
        rr.instances += 1
        bad = None
        for pr in entry.ok_paths():
            evs, w = path_events(pr)
            for e in evs:
                if e.kind == "bind-user":
                    bad = (e, pr)
        what = f"{ci.name}|who-may-bind"
        if bad:
            e, pr = bad
            rr.fail(f"C13-R7|{kinds_label(pr.extra['node'].kinds)}|walrus-on-user-name", f"{ci.name} ({e.site}): builds a walrus on the user name {e.path} itself instead of calling get_assign (the store is not routed by scope)", where=e.site, what=what)
        else:
            rr.ok(what)
    return rr


def rule_temporaries(ctx):
    """The value/pattern temporaries of the assignment templates are fresh per use (shared rule C09-R1,
    restricted to the assignment statements): a nested pattern must not overwrite the temporary its
    enclosing level is still reading."""
    from .c09 import rule_r1 as c09r1

    src = c09r1(ctx)
    rr = RuleResult("C09-R1", "assignment temporaries are fresh per use (instance of C09-R1)")
    rr.floor = 1
    for f in src.findings:
        if any(f"|{k}|" in f.key for k in ("Assign", "AnnAssign", "AugAssign", "NamedExpr", "For", "With")):
            rr.fail(f.key, f.msg, where=f.where)
    for w in sorted(map(str, src.nontrivial)):
        if any(k in w for k in ("Assign", "ASSIGN", "AUGASS")):
            rr.instances += 1
            rr.ok(w)
    if rr.instances == 0 and not rr.findings:
        rr.instances = 1 if src.obligations else 0
    return rr


def rule_r9(ctx):
    """Unpacking checks the number of values (reference 7.2): too many or too few raise ValueError.
    The lowering reads the elements of the tuple() snapshot BY INDEX; unless it also compares the
    length of the snapshot with the pattern, extra values are silently ignored and missing ones
    raise IndexError instead of ValueError."""
    rr = RuleResult("C13-R9", "destructuring checks the number of values (ValueError for too many / too few)")
    rr.floor = 1
    entry = ctx.tmpl.pending_by_kind("Assign")
    reported = False
    for pr in entry.ok_paths():
        snaps = [t for t in iter_tnodes(pr.result) if t.kind == "NamedExpr" and getattr(t, "func", "") == "assign_tuple_list"]
        if not snaps:
            continue
        rr.instances += 1
        names = [t.fields.get("id").value for t in iter_tnodes(pr.result) if t.kind == "Name" and isinstance(t.fields.get("id"), Cst)]
        kws = [k.fields.get("arg").value for t in iter_tnodes(pr.result) if t.kind == "Call" and isinstance(t.fields.get("keywords"), PList) for k in t.fields["keywords"].items if isinstance(k, TNode) and isinstance(k.fields.get("arg"), Cst)]
        checked = "len" in names or "strict" in kws or "ValueError" in names
        # a comparison of len(<snapshot>) with the size of the pattern: the bound must be the number of
        # targets, minus one (and `>=`) when the pattern has a starred target, which may take nothing
        bad_bound = None
        for t in iter_tnodes(pr.result):
            if t.kind != "Compare":
                continue
            left = t.fields.get("left")
            ops = t.fields.get("ops")
            comps = t.fields.get("comparators")
            if not (isinstance(left, TNode) and left.kind == "Call" and isinstance(left.fields.get("func"), TNode) and left.fields["func"].kind == "Name"
                    and isinstance(left.fields["func"].fields.get("id"), Cst) and left.fields["func"].fields["id"].value == "len"):
                continue
            if not (isinstance(ops, PList) and len(ops.items) == 1 and isinstance(comps, PList) and len(comps.items) == 1):
                continue
            bound = comps.items[0].fields.get("value") if isinstance(comps.items[0], TNode) and comps.items[0].kind == "Constant" else None
            if not isinstance(bound, Sym):
                continue
            lens = [k for k in bound.terms if k.startswith("len(") and k.endswith(".elts)")]
            if len(lens) != 1 or bound.terms[lens[0]] != 1 or len(bound.terms) != 1:
                continue
            prefix = lens[0][4:-1]
            star_keys = [v for k, v in pr.assign.items() if re.fullmatch(re.escape("isinstance:" + prefix) + r"\[\*\d*\]:Starred", k)]
            if True in star_keys and False in star_keys:
                # the generic elements of one list are decided independently (an `any(...)` over the
                # pattern and the loop over it): a mixed answer says nothing about the pattern as a whole
                continue
            starred = True in star_keys
            op = ops.items[0].kind if isinstance(ops.items[0], TNode) else "?"
            rr.instances += 1
            ok = (not starred and op == "Eq" and bound.const == 0) or (starred and ((op == "GtE" and bound.const == -1) or (op == "Gt" and bound.const == -2)))
            if not ok:
                bad_bound = bad_bound or (op, bound, starred)
        if bad_bound and not reported:
            reported = True
            op, bound, starred = bad_bound
            rr.fail(
                "C13-R9|Assign|length-check-bound",
                f"PendingAssign.assign_tuple_list: the emitted length check is `len(snapshot) {op} {bound.key()}` for a pattern {'WITH' if starred else 'without'} a starred target: Python needs {'at least len(targets) - 1 values (the star may take nothing): `head, *tail = [x]` is legal' if starred else 'exactly len(targets) values'}; with this bound {'every starred pattern whose source has exactly the minimum length raises ValueError' if starred else 'a wrong number of values is accepted or a right one refused'} [context: {short_ctx(pr, 100)}]",
                what="Assign|length-check",
            )
        elif checked:
            rr.ok("Assign|length-check")
        elif not reported:
            reported = True
            rr.fail(
                "C13-R9|Assign|no-length-check",
                "PendingAssign.assign_tuple_list: the elements of a pattern are read from the snapshot by index and the length of the snapshot is never compared with the pattern: `a, b = [1, 2, 3]` silently binds 1 and 2 (Python: ValueError: too many values to unpack), `r, *s = []` raises IndexError instead of ValueError",
                what="Assign|length-check",
            )
    return rr


def rule_r10(ctx):
    """Augmented assignment (reference 7.2.1, data model 3.3.8): `x op= y` calls `x.__iop__(y)`; when
    that method is missing OR RETURNS NotImplemented, it falls back to `x op y`.  A template that binds
    whatever the in-place method returns stores NotImplemented: `s = {1, 2}; s &= {1: 0}.keys()`."""
    rr = RuleResult("C13-R10", "the result of the in-place method is tested for NotImplemented before it is bound")
    rr.floor = 1
    reported = False
    for pr in _aug_paths(ctx).ok_paths():
        rr.instances += 1
        names = [t.fields.get("id").value for t in iter_tnodes(pr.result) if t.kind == "Name" and isinstance(t.fields.get("id"), Cst)]
        if "NotImplemented" in names:
            rr.ok("AugAssign|NotImplemented")
        elif not reported:
            reported = True
            rr.fail(
                "C13-R10|AugAssign|NotImplemented-not-handled",
                "PendingAugAssign._aug_assign_expr: the value returned by the in-place method is bound as it is; an `__iop__` that returns NotImplemented (set.__iand__ with a dict view, a user class declining the operand) must fall back to the binary / reflected operator: `s = {1, 2}; s &= {1: 0}.keys()` leaves s == NotImplemented instead of {1}",
                what="AugAssign|NotImplemented",
            )
    return rr


def rule_c07(ctx):
    """The value of an assignment is evaluated once, before the targets; target sub-expressions once,
    in order (instances of C07-R1/R2 for Assign/AnnAssign/AugAssign)."""
    from .c07 import rule_r1 as c07r1, rule_r2 as c07r2

    rr = RuleResult("C07-R1", "assignment statements: value once and first, target sub-expressions once and in order (instance of C07-R1/R2)")
    rr.floor = 3
    for src in (c07r1(ctx), c07r2(ctx)):
        for f in src.findings:
            if any(f"|{k}|" in f.key for k in ("Assign", "AnnAssign", "AugAssign")):
                rr.fail(f.key, f.msg, where=f.where)
        for w in sorted(map(str, src.nontrivial)):
            if w.startswith(("Assign", "AnnAssign", "AugAssign")):
                rr.instances += 1
                rr.ok(w)
    return rr


def rule_c06r5(ctx):
    """An augmented assignment in a class body reads its target through the class namespace: how that
    read falls back to the plain name decides whether `x += v` in a class sees the value Python sees
    (shared rule C06-R5; the property quantifies over class placement)."""
    from .c06 import rule_r5 as r

    return r(ctx)


RULES = [("C06-R5", rule_c06r5), ("C07-R1", rule_c07), ("C13-R1", rule_r1), ("C13-R2", rule_r2), ("C13-R3", rule_r3), ("C13-R4", rule_r4), ("C13-R5", rule_r5), ("C13-R6", rule_r6), ("C13-R7", rule_r7), ("C13-R8", rule_r8), ("C13-R9", rule_r9), ("C13-R10", rule_r10), ("C09-R1", rule_temporaries)]
