"""bug5: a local variable that is captured by an inner function is not a local
variable any more: eval() / exec() / locals() / vars() of the owning function
do not see it.

Variables that an inner def/class refers to are moved into a dict
(`__ol_nonlocal_<id>`, PendingFunctionDef.get_result / NamespaceFunction
.get_assign); the name itself is never bound in the lambda.  So in

    def f():
        x = 1
        def g(): return x
        return eval('x')            # NameError in the converted text

the string evaluated by eval sees no `x` (same for `locals()['x']`,
`'{x}'.format(**locals())`, `vars()`).  This is not the known "loop bodies are
comprehension frames on < 3.12" problem: there is no loop, and it happens on
every runtime version.  All 8 option combinations.
"""

import contextlib
import io
import itertools
import json
import os
import subprocess
import sys
import tempfile

sys.path.insert(0, os.environ["OLREPO"])
import oneliner  # noqa: E402
from oneliner import Configs  # noqa: E402

COMBOS = list(
    itertools.product(
        ["ast.unparse", "oneliner"], ["list", "chain_call"], ["if_expr", "short_circuit"]
    )
)
PYENV = "/root/.pyenv/versions/%s/bin/python"


def convert(src, combo):
    c = Configs()
    c.unparser, c.expr_wrapper, c.if_style = combo
    return oneliner.convert_code_string(src, configs=c)


def run_here(text, mode):
    """exec/eval `text` in a fresh namespace -> (stdout, exception or None)"""
    buf = io.StringIO()
    try:
        with contextlib.redirect_stdout(buf):
            code = compile(text, "<%s>" % mode, mode)
            (exec if mode == "exec" else eval)(code, {"__name__": "__main__"})
        return buf.getvalue(), None
    except BaseException as e:  # noqa
        return buf.getvalue(), "%s: %s" % (type(e).__name__, str(e)[:100])


_RUNNER = """
import sys, io, contextlib, json
mode, path = sys.argv[1], sys.argv[2]
txt = open(path, encoding="utf8").read()
buf = io.StringIO(); exc = None
try:
    with contextlib.redirect_stdout(buf):
        code = compile(txt, "<%s>" % mode, mode)
        (exec if mode == "exec" else eval)(code, {"__name__": "__main__"})
except BaseException as e:
    exc = "%s: %s" % (type(e).__name__, str(e)[:100])
sys.stdout.write(json.dumps([buf.getvalue(), exc]))
"""


def run_on(version, text, mode):
    """same as run_here on another interpreter; None when it is not installed"""
    exe = PYENV % version
    if not os.path.exists(exe):
        return None
    with tempfile.TemporaryDirectory() as d:
        runner = os.path.join(d, "runner.py")
        script = os.path.join(d, "script.txt")
        with open(runner, "w") as f:
            f.write(_RUNNER)
        with open(script, "w", encoding="utf8") as f:
            f.write(text)
        r = subprocess.run([exe, runner, mode, script], capture_output=True, text=True, timeout=300)
    try:
        out, exc = json.loads(r.stdout)
        return out, exc
    except Exception:
        return "", "runner failed: " + r.stderr[-200:]


SCRIPTS = {
    "eval": (
        "def f():\n"
        "    x = 1\n"
        "    def g():\n"
        "        return x\n"
        "    return eval('x + 1')\n"
        "print(f())\n"
    ),
    "format with locals()": (
        "def report(n):\n"
        "    name = 'item'\n"
        "    def again():\n"
        "        return name\n"
        "    return '{name}: {n}'.format(**locals())\n"
        "print(report(2))\n"
    ),
}

bad = 0
for title, src in SCRIPTS.items():
    expected = run_here(src, "exec")
    for combo in COMBOS:
        observed = run_here(convert(src, combo), "eval")
        if observed != expected:
            bad += 1
            print("[%s] %s: expected %r, got %r" % (title, "/".join(combo), expected, observed))

print("bug5: %d differing runs" % bad)
sys.exit(1 if bad else 0)
