"""conversion crashes (AssertionError) when `super`/`__class__` is used in a scope nested in a method

Any use of the name `super` (even the two-argument form) makes the compiler add an
implicit free variable `__class__`.  NamespaceFunction.__init__ only skips that
name for functions that are direct methods; for a def (or, on the 3.12 host, a
generator expression) nested inside a method it walks outwards, finds no function
that owns `__class__`, reaches the module namespace and hits
`assert isinstance(outer, NamespaceFunction)`.
Run: OLREPO=/path/to/checkout python bug4.py   (exit status 1 = defect shows)
"""
import os, sys; sys.path.insert(0, os.environ["OLREPO"])
import contextlib, io, itertools

import oneliner
from oneliner.config import Configs

SRC = 'class Base:\n    def total(self, xs):\n        return sum(xs)\nclass Child(Base):\n    def total(self, xs):\n        def helper(ys):\n            return super(Child, self).total(ys)\n        r = 0\n        for chunk in xs:\n            if not chunk:\n                continue\n            r += helper(chunk)\n        return r\nprint(Child().total([[1, 2], [], [3]]))\n'


def all_configs():
    for u, w, s in itertools.product(
        ("ast.unparse", "oneliner"), ("list", "chain_call"), ("if_expr", "short_circuit")
    ):
        c = Configs()
        c.unparser, c.expr_wrapper, c.if_style = u, w, s
        yield (u, w, s), c


def run(fn):
    buf, exc = io.StringIO(), None
    try:
        with contextlib.redirect_stdout(buf):
            fn()
    except BaseException as e:  # noqa
        exc = type(e).__name__ + ": " + str(e)[:80]
    return buf.getvalue(), exc


expected = run(lambda: exec(compile(SRC, "<orig>", "exec"), {"__name__": "__main__"}))
print("original :", expected)
bad = 0
for name, cfg in all_configs():
    try:
        text = oneliner.convert_code_string(SRC, configs=cfg)
    except BaseException as e:  # noqa
        print(name, "CONVERSION FAILED:", type(e).__name__, e)
        bad += 1
        continue
    got = run(lambda: eval(compile(text, "<conv>", "eval"), {"__name__": "__main__"}))
    if got[0] != expected[0] or (got[1] is None) != (expected[1] is None):
        print(name, "converted:", got)
        bad += 1
print("DEFECT SHOWS in %d of 8 option combinations" % bad if bad else "ok (no difference)")
sys.exit(1 if bad else 0)
