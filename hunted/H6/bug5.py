"""Default configuration (unparser="ast.unparse") on a 3.12+ host: every
f-string that has a string literal inside a replacement field is written by
`ast.unparse` with the same quote inside and outside (PEP 701 style):

    print(f"{d['a']}")   ->   print(f'{d['a']}')

The converted text is a SyntaxError on 3.8 - 3.11, although the README promises
"The converted scripts should be able to run on python 3.8+" and the source
program itself is valid on 3.8.  The result of the conversion depends on the
version of the converting host (3.10/3.11 hosts produce working text)."""
import os, sys, io, contextlib, itertools

sys.path.insert(0, os.environ["OLREPO"])
import oneliner
from oneliner.config import Configs

ALL = list(itertools.product(["ast.unparse", "oneliner"], ["list", "chain_call"], ["if_expr", "short_circuit"]))


def make_cfg(unparser, wrapper, if_style):
    c = Configs()
    c.unparser = unparser
    c.expr_wrapper = wrapper
    c.if_style = if_style
    return c


def run(code, mode):
    out = io.StringIO()
    exc = None
    with contextlib.redirect_stdout(out):
        try:
            (exec if mode == "exec" else eval)(compile(code, "<" + mode + ">", mode), {"__name__": "__main__"})
        except BaseException as e:
            exc = type(e).__name__ + ": " + str(e)
    return out.getvalue(), exc
import glob, subprocess


def old_pythons(patterns):
    """interpreters older than 3.12 that are installed on this machine"""
    found = []
    for pat in patterns:
        found += sorted(glob.glob("/root/.pyenv/versions/%s*/bin/python" % pat))
    return found


def run_with(python, text):
    """evaluate the converted text with another interpreter"""
    p = subprocess.run(
        [python, "-c", "import sys; eval(compile(sys.stdin.read(), '<converted>', 'eval'), {'__name__': '__main__'})"],
        input=text.encode("utf-8"), capture_output=True,
        env=dict(os.environ, PYTHONIOENCODING="utf-8"),
    )
    err = p.stderr.decode("utf-8", "replace").strip().splitlines()
    return p.stdout.decode("utf-8"), (err[-1] if p.returncode else None)

SRC = '''d = {'a': 1}
print(f"{d['a']}")
'''

expected = run(SRC, "exec")
assert expected == ("1\n", None), expected
failed = False
pythons = old_pythons(["3.8", "3.9", "3.10", "3.11"])
if not pythons:
    print("no interpreter older than 3.12 available, can not show the defect")
text = oneliner.convert_code_string(SRC)  # default configuration
assert run(text, "eval") == expected
for python in pythons:
    got = run_with(python, text)
    if got != expected:
        failed = True
        print(python, "expected", expected, "got", got, "text:", text)
sys.exit(1 if failed else 0)
