"""bug3: 'from X import name' is emitted as __import__(...) followed by a plain attribute read.

The IMPORT_FROM semantics are lost: (a) a working circular 'from . import sibling' inside a
package fails with AttributeError, (b) a missing name raises AttributeError instead of ImportError.
This reproducer builds a small package on disk, runs it with `python -m pkg` in its original and
in its converted form and compares the results.
"""
import os, sys
sys.path.insert(0, os.environ["OLREPO"])
import subprocess, tempfile
import oneliner
from oneliner.config import Configs

FILES = {
    "pkg/__init__.py": "",
    "pkg/__main__.py": "from . import a\nprint(a.fa())\n",
    # a imports b, b imports a back while a is still being initialised (legal since Python 3.5)
    "pkg/a.py": "from . import b\ndef fa():\n    return b.fb()\nX = 'ax'\n",
    "pkg/b.py": "from . import a\ndef fb():\n    return 'fb', a.X\n",
}


def build(root, configs):
    for rel, src in FILES.items():
        path = os.path.join(root, rel)
        os.makedirs(os.path.dirname(path), exist_ok=True)
        if configs is not None and src:
            src = oneliner.convert_code_string(src, configs=configs) + "\n"
        with open(path, "w") as f:
            f.write(src)


def run_pkg(configs):
    with tempfile.TemporaryDirectory() as d:
        build(d, configs)
        r = subprocess.run([sys.executable, "-m", "pkg"], cwd=d, capture_output=True, text=True,
                           env={"PYTHONDONTWRITEBYTECODE": "1", "PATH": os.environ.get("PATH", "")})
        err = r.stderr.strip().splitlines()[-1] if r.stderr.strip() else None
        return r.stdout, err


if __name__ == "__main__":
    ref = run_pkg(None)
    print("original package :", ref)
    failures = 0
    for u in ("ast.unparse", "oneliner"):
        for w in ("list", "chain_call"):
            c = Configs()
            c.unparser, c.expr_wrapper = u, w
            got = run_pkg(c)
            if got != ref:
                failures += 1
                print("converted (%s, %s):" % (u, w), got)
    # (b) same root cause, visible in a single script: the exception type changes
    script = "from os import no_such_name\n"
    try:
        exec(script, {})
    except BaseException as e:
        exp = type(e).__name__
    try:
        eval(oneliner.convert_code_string(script), {})
        got = None
    except BaseException as e:
        got = type(e).__name__
    print("from os import no_such_name: original raises %s, converted raises %s" % (exp, got))
    if exp != got:
        failures += 1
    print("defect shows %d times" % failures)
    sys.exit(1 if failures else 0)
