"""bug4: `import m` and `import a.b as c` do not go through `builtins.__import__`.

The import statement always calls `builtins.__import__` (the documented hook for replacing the import
machinery: import tracers, lazy importers, sandboxes).  The converter emits `importlib.import_module(...)`
for `import m` / `import m as x` / `import a.b as c`, which bypasses that hook, while `import a.b` and
`from m import n` (emitted as `__import__(...)`) honour it -- so a script that installs a hook sees only
part of its own imports after conversion.  The arguments differ as well: Python passes
(name, globals, locals, fromlist, level); the converted `import a.b` passes the name only
(not checked here: only the NAMES that reach the hook from the script itself are compared).
"""
import sys, os, io, itertools, contextlib, builtins
import string, os.path, xml.dom, json, colorsys  # preloaded: the hook then sees the script's own imports only

sys.path.insert(0, os.environ["OLREPO"])
import oneliner
from oneliner import Configs

SCRIPTS = {
    "import tracer": (
        "import builtins\n"
        "real = builtins.__import__\n"
        "seen = []\n"
        "def hook(name, globals=None, locals=None, fromlist=(), level=0):\n"
        "    if globals is None or globals.get('__name__') == '__main__':\n"
        "        seen.append(name)\n"
        "    return real(name, globals, locals, fromlist, level)\n"
        "builtins.__import__ = hook\n"
        "import string\n"
        "import os.path as p\n"
        "import xml.dom\n"
        "from json import dumps\n"
        "def f():\n"
        "    import colorsys as c\n"
        "    return c.__name__\n"
        "f()\n"
        "builtins.__import__ = real\n"
        "print(seen)\n"
    ),
}


def combos():
    for u, w, i in itertools.product(
        ["ast.unparse", "oneliner"], ["list", "chain_call"], ["if_expr", "short_circuit"]
    ):
        c = Configs()
        c.unparser, c.expr_wrapper, c.if_style = u, w, i
        yield (u, w, i), c


def run(kind, text):
    ns = {"__name__": "__main__"}
    out = io.StringIO()
    exc = None
    saved = builtins.__import__
    try:
        with contextlib.redirect_stdout(out):
            if kind == "exec":
                exec(compile(text, "<orig>", "exec"), ns)
            else:
                eval(compile(text.strip(), "<conv>", "eval"), ns)
    except BaseException as e:  # noqa
        exc = "%s: %s" % (type(e).__name__, e)
    finally:
        builtins.__import__ = saved
    return out.getvalue(), exc


bad = 0
for title, src in SCRIPTS.items():
    expected = run("exec", src)
    assert expected[1] is None, expected
    for name, cfg in combos():
        try:
            text = oneliner.convert_code_string(src, configs=cfg)
        except BaseException as e:  # noqa
            print("[%s] %s: conversion failed: %r" % (title, name, e))
            bad += 1
            continue
        got = run("eval", text)
        if got != expected:
            bad += 1
            print("[%s] %s" % (title, "/".join(name)))
            print("    expected stdout=%r exc=%r" % expected)
            print("    observed stdout=%r exc=%r" % got)

print("bug4 (`import m` bypasses builtins.__import__):",
      "DEFECT PRESENT in %d script/option pairs" % bad if bad else "not reproduced")
sys.exit(1 if bad else 0)
