# design-time probe: validate the planned grammar oracle against the real ladder and CPython's parser
import ast, sys, itertools
import os; sys.path.insert(0, os.environ.get('OLREPO','/repo'))
import oneliner.expr_unparse; U = sys.modules["oneliner.expr_unparse"]
from ast import *
N=lambda s: Name(id=s, ctx=Load())
# child exemplars with rank (tightness)
children = {
 'Yield': (Yield(value=N('y')), 0), 'YieldFrom': (YieldFrom(value=N('y')),0),
 'GeneratorExp': (GeneratorExp(elt=N('a'), generators=[comprehension(target=Name('b',Store()), iter=N('c'), ifs=[], is_async=0)]), -1),
 'NamedExpr': (NamedExpr(target=Name('w',Store()), value=N('y')),1),
 'Lambda': (Lambda(args=arguments(posonlyargs=[],args=[],kwonlyargs=[],kw_defaults=[],defaults=[]), body=N('y')),2),
 'IfExp': (IfExp(test=N('t'), body=N('b'), orelse=N('o')),2),
 'Or': (BoolOp(op=Or(), values=[N('p'),N('q')]),3), 'And': (BoolOp(op=And(), values=[N('p'),N('q')]),4),
 'Not': (UnaryOp(op=Not(), operand=N('p')),5),
 'Compare': (Compare(left=N('p'), ops=[Lt()], comparators=[N('q')]),6),
 'BitOr': (BinOp(N('p'),BitOr(),N('q')),7),'BitXor': (BinOp(N('p'),BitXor(),N('q')),8),'BitAnd': (BinOp(N('p'),BitAnd(),N('q')),9),
 'Shift': (BinOp(N('p'),LShift(),N('q')),10),'Add': (BinOp(N('p'),Sub(),N('q')),11),'Mult': (BinOp(N('p'),Mod(),N('q')),12),
 'USub': (UnaryOp(op=USub(), operand=N('p')),13),'Invert': (UnaryOp(op=Invert(), operand=N('p')),13),
 'Pow': (BinOp(N('p'),Pow(),N('q')),14), 'Await': (Await(value=N('p')),15),
 'Attribute': (Attribute(value=N('p'), attr='z', ctx=Load()),16),'Subscript': (Subscript(value=N('p'), slice=N('i'), ctx=Load()),16),
 'Call': (Call(func=N('p'), args=[], keywords=[]),16),
 'Name': (N('p'),17),'Int': (Constant(value=1),17),'Float':(Constant(value=1.5),17),'Str':(Constant(value='s'),17),'List':(List(elts=[N('p')],ctx=Load()),17),
 'Tuple':(Tuple(elts=[N('p'),N('q')],ctx=Load()),17),'Tuple0':(Tuple(elts=[],ctx=Load()),17),'Dict':(Dict(keys=[N('p')],values=[N('q')]),17),'Set':(Set(elts=[N('p')]),17),
 'JoinedStr':(JoinedStr(values=[Constant(value='a'),FormattedValue(value=N('p'),conversion=-1,format_spec=None)]),17),
 'ListComp':(ListComp(elt=N('a'), generators=[comprehension(target=Name('b',Store()), iter=N('c'), ifs=[], is_async=0)]),17),
 'DictComp':(DictComp(key=N('a'),value=N('v'), generators=[comprehension(target=Name('b',Store()), iter=N('c'), ifs=[], is_async=0)]),17),
}
def comp(it=None, ifs=None): return comprehension(target=Name('b',Store()), iter=it or N('c'), ifs=ifs or [], is_async=0)
A=lambda **k: arguments(posonlyargs=[],args=k.get('args',[]),kwonlyargs=k.get('kwonly',[]),kw_defaults=k.get('kwd',[]),defaults=k.get('d',[]))
# slots: name -> (builder(child)->expr, min_rank)
slots = {
 'Attribute.value': (lambda c: Attribute(value=c, attr='z', ctx=Load()),16),
 'Subscript.value': (lambda c: Subscript(value=c, slice=N('i'), ctx=Load()),16),
 'Subscript.slice': (lambda c: Subscript(value=N('v'), slice=c, ctx=Load()),1),
 'Slice.lower': (lambda c: Subscript(value=N('v'), slice=Slice(lower=c,upper=None,step=None), ctx=Load()),2),
 'Slice.upper': (lambda c: Subscript(value=N('v'), slice=Slice(lower=None,upper=c,step=None), ctx=Load()),2),
 'Slice.step': (lambda c: Subscript(value=N('v'), slice=Slice(lower=None,upper=None,step=c), ctx=Load()),2),
 'Call.func': (lambda c: Call(func=c,args=[],keywords=[]),16),
 'Call.onlyarg': (lambda c: Call(func=N('f'),args=[c],keywords=[]),1),
 'Call.arg': (lambda c: Call(func=N('f'),args=[N('x'),c],keywords=[]),1),
 'Call.arg+kw': (lambda c: Call(func=N('f'),args=[c],keywords=[keyword(arg='k',value=N('x'))]),1),
 'Call.kw': (lambda c: Call(func=N('f'),args=[],keywords=[keyword(arg='k',value=c)]),2),
 'Call.**': (lambda c: Call(func=N('f'),args=[],keywords=[keyword(arg=None,value=c)]),2),
 'Call.*': (lambda c: Call(func=N('f'),args=[Starred(value=c,ctx=Load())],keywords=[]),2),
 'List.*': (lambda c: List(elts=[Starred(value=c,ctx=Load())],ctx=Load()),7),
 'Await.value': (lambda c: Await(value=c),16),
 'Pow.left': (lambda c: BinOp(c,Pow(),N('r')),15),'Pow.right': (lambda c: BinOp(N('l'),Pow(),c),13),
 'USub.operand': (lambda c: UnaryOp(op=USub(),operand=c),13),'Not.operand': (lambda c: UnaryOp(op=Not(),operand=c),5),
 'Mult.left': (lambda c: BinOp(c,Mult(),N('r')),12),'Mult.right': (lambda c: BinOp(N('l'),Mult(),c),13),
 'MatMult.right': (lambda c: BinOp(N('l'),MatMult(),c),13),'FloorDiv.left': (lambda c: BinOp(c,FloorDiv(),N('r')),12),
 'Add.left': (lambda c: BinOp(c,Add(),N('r')),11),'Add.right': (lambda c: BinOp(N('l'),Add(),c),12),
 'Sub.right': (lambda c: BinOp(N('l'),Sub(),c),12),
 'Shift.left': (lambda c: BinOp(c,RShift(),N('r')),10),'Shift.right': (lambda c: BinOp(N('l'),RShift(),c),11),
 'BitAnd.left': (lambda c: BinOp(c,BitAnd(),N('r')),9),'BitAnd.right': (lambda c: BinOp(N('l'),BitAnd(),c),10),
 'BitXor.left': (lambda c: BinOp(c,BitXor(),N('r')),8),'BitXor.right': (lambda c: BinOp(N('l'),BitXor(),c),9),
 'BitOr.left': (lambda c: BinOp(c,BitOr(),N('r')),7),'BitOr.right': (lambda c: BinOp(N('l'),BitOr(),c),8),
 'Compare.left': (lambda c: Compare(left=c,ops=[In()],comparators=[N('r')]),7),'Compare.right': (lambda c: Compare(left=N('l'),ops=[IsNot()],comparators=[c]),7),
 'And.value': (lambda c: BoolOp(op=And(),values=[N('l'),c]),5),'And.first': (lambda c: BoolOp(op=And(),values=[c,N('l')]),5),
 'Or.value': (lambda c: BoolOp(op=Or(),values=[N('l'),c]),4),'Or.first': (lambda c: BoolOp(op=Or(),values=[c,N('l')]),4),
 'IfExp.body': (lambda c: IfExp(test=N('t'),body=c,orelse=N('o')),3),'IfExp.test': (lambda c: IfExp(test=c,body=N('b'),orelse=N('o')),3),
 'IfExp.orelse': (lambda c: IfExp(test=N('t'),body=N('b'),orelse=c),2),
 'Lambda.body': (lambda c: Lambda(args=A(),body=c),2),
 'Lambda.default': (lambda c: Lambda(args=A(args=[arg(arg='a')],d=[c]),body=N('b')),2),
 'Lambda.kwdefault': (lambda c: Lambda(args=A(kwonly=[arg(arg='a')],kwd=[c]),body=N('b')),2),
 'comp.iter': (lambda c: ListComp(elt=N('a'),generators=[comp(it=c)]),3),
 'comp.iter2': (lambda c: ListComp(elt=N('a'),generators=[comp(),comp(it=c)]),3),
 'comp.if': (lambda c: ListComp(elt=N('a'),generators=[comp(ifs=[c])]),3),
 'comp.if2': (lambda c: ListComp(elt=N('a'),generators=[comp(ifs=[N('x'),c])]),3),
 'ListComp.elt': (lambda c: ListComp(elt=c,generators=[comp()]),1),
 'SetComp.elt': (lambda c: SetComp(elt=c,generators=[comp()]),1),
 'GenExp.elt': (lambda c: Call(func=N('f'),args=[GeneratorExp(elt=c,generators=[comp()])],keywords=[]),1),
 'DictComp.key': (lambda c: DictComp(key=c,value=N('v'),generators=[comp()]),2),
 'DictComp.value': (lambda c: DictComp(key=N('k'),value=c,generators=[comp()]),2),
 'List.elt': (lambda c: List(elts=[N('x'),c],ctx=Load()),1),'Tuple.elt': (lambda c: Tuple(elts=[c,N('x')],ctx=Load()),1),
 'Tuple1.elt': (lambda c: Tuple(elts=[c],ctx=Load()),1),'Set.elt': (lambda c: Set(elts=[c]),1),
 'Dict.key': (lambda c: Dict(keys=[c],values=[N('v')]),2),'Dict.value': (lambda c: Dict(keys=[N('k')],values=[c]),2),
 'Dict.**': (lambda c: Dict(keys=[None],values=[c]),7),
 'Starred.value': (lambda c: List(elts=[Starred(value=c,ctx=Load())],ctx=Load()),7),
 'Yield.value': (lambda c: Lambda(args=A(),body=Yield(value=c)),0),
 'YieldFrom.value': (lambda c: Lambda(args=A(),body=YieldFrom(value=c)),2),
 'NamedExpr.value': (lambda c: NamedExpr(target=Name('w',Store()),value=c),2),
 'Fmt.value': (lambda c: JoinedStr(values=[FormattedValue(value=c,conversion=-1,format_spec=None)]),2),
 'Fmt.spec': (lambda c: JoinedStr(values=[FormattedValue(value=N('x'),conversion=-1,format_spec=JoinedStr(values=[Constant(value='>'),FormattedValue(value=c,conversion=-1,format_spec=None)]))]),2),
}
def norm(t):
    for n in ast.walk(t):
        if hasattr(n,'ctx'): n.ctx=Load()
    return ast.dump(t)
bad=0; tot=0; redundant=0
for sn,(mk,minrank) in slots.items():
    for cn,(c,rank) in children.items():
        tot+=1
        tree=mk(c)
        try:
            txt=U.expr_unparse(tree)
        except Exception as e:
            print('UNPARSE-EXC',sn,cn,e); bad+=1; continue
        try:
            ok = norm(ast.parse(txt,mode='eval').body)==norm(tree)
        except SyntaxError:
            ok=False
        # does the unparser parenthesise this child? compare with forced-paren text length heuristically: recompute via precedence
        if not ok:
            bad+=1; print('ROUNDTRIP-FAIL',sn,cn,repr(txt))
print('pairs',tot,'bad',bad)

# --- validate rank oracle against actual wrap decisions
def find_slot_prec(tree, child):
    # walk like the driver and record slot precedence at which `child` is yielded
    stack=[U._Node(U.PREC_EXPR_SLOT, tree, '"')]; conv=None; found=None
    while stack:
        try:
            sp,un = stack[-1].gen.send(conv)
        except StopIteration as r:
            conv=r.value; n=stack.pop()
            if n.node_precedence>n.outer_precedence: conv=f"({conv})"
        else:
            if un is child: found=sp
            stack.append(U._Node(sp,un,stack[-1].qm)); conv=None
    return found
fa=0; red=0
for sn,(mk,minrank) in slots.items():
    for cn,(c,rank) in children.items():
        tree=mk(c); sp=find_slot_prec(tree,c)
        if sp is None: print('child not yielded',sn,cn); continue
        wraps = U.get_node_precedence(c) > sp
        if cn=='GeneratorExp': needs = (sn!='Call.onlyarg')
        else: needs = rank < minrank
        if needs and not wraps: fa+=1; print('ORACLE-STRICTER-THAN-UNPARSER',sn,cn)
        if wraps and not needs: red+=1
print('oracle false alarms',fa,'redundant-paren pairs',red)
