"""Maintenance tool: evaluate a candidate seeded change.
usage: try_seed.py <change.diff> <demo.py> [--no-tests]
 - copies /repo to a scratch directory (outside /repo and /verif), applies the diff
 - demo must FAIL on the patched copy and PASS on /repo
 - the unedited test suite must pass on the patched copy
 - runs `olsa probe` for every property on the patched copy and prints the NEW finding keys
The scratch copy is removed afterwards."""
import concurrent.futures
import json
import os
import shutil
import subprocess
import sys
import tempfile

VERIF = os.path.dirname(os.path.dirname(os.path.abspath(__file__)))
PY = "/venv/bin/python"


def main():
    diff, demo = sys.argv[1], sys.argv[2]
    run_tests = "--no-tests" not in sys.argv
    tmp = tempfile.mkdtemp(prefix="seedtry-")
    res = {"diff": diff}
    try:
        dst = os.path.join(tmp, "repo")
        shutil.copytree("/repo", dst, ignore=shutil.ignore_patterns(".git", "__pycache__", ".ruff_cache", ".benchmarks", "*.egg-info", "img"))
        r = subprocess.run(["patch", "-p1", "-s", "--no-backup-if-mismatch", "-i", os.path.abspath(diff)], cwd=dst, capture_output=True, text=True)
        if r.returncode != 0:
            print("PATCH FAILED", r.stdout[-300:], r.stderr[-300:])
            return 1
        r1 = subprocess.run([PY, demo], env=dict(os.environ, OLREPO=dst, PYTHONPATH=dst), capture_output=True, text=True, cwd=tmp, timeout=300)
        r0 = subprocess.run([PY, demo], env=dict(os.environ, OLREPO="/repo", PYTHONPATH="/repo"), capture_output=True, text=True, cwd=tmp, timeout=300)
        res["demo_with_change_rc"] = r1.returncode
        res["demo_without_change_rc"] = r0.returncode
        res["demo_with_change_tail"] = (r1.stdout + r1.stderr)[-300:]
        if run_tests:
            t = subprocess.run([PY, "-m", "pytest", "-q", "-p", "no:cacheprovider", "-x", "-n", "8"], cwd=dst, env=dict(os.environ, PYTHONPATH=dst), capture_output=True, text=True, timeout=900)
            res["tests"] = t.stdout.strip().splitlines()[-1] if t.stdout.strip() else t.stderr[-200:]
        props = [f"C{i:02d}" for i in range(1, 18)]

        def probe(p):
            r = subprocess.run([PY, "-m", "olsa", "probe", p], env=dict(os.environ, OLSA_REPO=dst, PYTHONPATH=VERIF), capture_output=True, text=True, cwd=VERIF, timeout=900)
            try:
                return p, json.loads(r.stdout.strip().splitlines()[-1])
            except Exception:
                return p, {"new": [], "analysis_errors": ["probe crashed: " + (r.stdout + r.stderr)[-300:]]}

        caught = {}
        errs = {}
        with concurrent.futures.ThreadPoolExecutor(max_workers=9) as ex:
            for p, d in ex.map(probe, props):
                if d["new"]:
                    caught[p] = sorted(set(d["new"]))
                if d["analysis_errors"]:
                    errs[p] = d["analysis_errors"]
        res["caught"] = caught
        res["analysis_errors"] = errs
        print(json.dumps(res, indent=1)[:3000])
        return 0
    finally:
        shutil.rmtree(tmp, ignore_errors=True)


if __name__ == "__main__":
    sys.exit(main())
