"""A format spec whose literal text needs an escape in the output
(quote used as fill character, tab/newline, Latin-1 character):

    x = 5
    print(f"{x:'>4}")          # valid on every Python >= 3.6, prints '''5

unparser="oneliner": conversion fails with
`SyntaxError: Back slash is included in a f-string expression` - the check
for a backslash is applied to the whole replacement field, including the
format spec, where a backslash is perfectly legal (also on 3.8).
unparser="ast.unparse" on a CPython 3.12.0/3.12.1 host: produces
`f'{x:'>4}'`, which does not compile anywhere.  => with the host /venv/bin/python
none of the 8 option combinations can convert this program."""
import os, sys, io, contextlib, itertools

sys.path.insert(0, os.environ["OLREPO"])
import oneliner
from oneliner.config import Configs

ALL = list(itertools.product(["ast.unparse", "oneliner"], ["list", "chain_call"], ["if_expr", "short_circuit"]))


def make_cfg(unparser, wrapper, if_style):
    c = Configs()
    c.unparser = unparser
    c.expr_wrapper = wrapper
    c.if_style = if_style
    return c


def run(code, mode):
    out = io.StringIO()
    exc = None
    with contextlib.redirect_stdout(out):
        try:
            (exec if mode == "exec" else eval)(compile(code, "<" + mode + ">", mode), {"__name__": "__main__"})
        except BaseException as e:
            exc = type(e).__name__ + ": " + str(e)
    return out.getvalue(), exc

SRCS = [
    # quote as fill character
    '''x = 5
print(f"{x:'>4}")
''',
    # tab as fill character (only unparser="oneliner" fails here)
    '''x = 5
print(f"{x:\\t>4}")
''',
]

failed = False
for SRC, combo in itertools.product(SRCS, ALL):
    expected = run(SRC, "exec")
    assert expected[1] is None and expected[0].endswith("5\n"), expected
    try:
        text = oneliner.convert_code_string(SRC, configs=make_cfg(*combo))
    except BaseException as e:
        failed = True
        print(repr(SRC), combo, "conversion failed:", type(e).__name__, e)
        continue
    got = run(text, "eval")
    if got != expected:
        failed = True
        print(repr(SRC), combo, "expected", expected, "got", got, "text:", text)
sys.exit(1 if failed else 0)
