import itertools, json, os, subprocess, sys

OLREPO = os.environ["OLREPO"]
sys.path.insert(0, OLREPO)
import oneliner  # noqa: E402  (checks that the package is importable)

PYENV = "/root/.pyenv/versions/%s/bin/python"
HOSTS = [v for v in ("3.10.13", "3.11.7", "3.12.1", "3.13.0") if os.path.exists(PYENV % v)]
RUNTIMES = [v for v in ("3.8.18", "3.9.18", "3.10.13", "3.11.7", "3.12.1", "3.13.0") if os.path.exists(PYENV % v)]
CURRENT = "current(%d.%d)" % sys.version_info[:2]
if not HOSTS:  # no pyenv interpreters: only the interpreter that runs this file
    HOSTS = RUNTIMES = [CURRENT]
CFGS = list(itertools.product(["ast.unparse", "oneliner"], ["list", "chain_call"], ["if_expr", "short_circuit"]))

_CONV = r'''
import sys, json
sys.path.insert(0, sys.argv[1])
import oneliner
src, cfgs = json.loads(sys.stdin.read())
out = []
for u, w, i in cfgs:
    c = oneliner.Configs(); c.unparser, c.expr_wrapper, c.if_style = u, w, i
    try: out.append(["ok", oneliner.convert_code_string(src, configs=c)])
    except BaseException as e: out.append(["err", type(e).__name__ + ": " + str(e)])
print(json.dumps(out))
'''
_RUN = r'''
import sys, io, json
kind, code = json.loads(sys.stdin.read())
buf = io.StringIO(); old = sys.stdout; sys.stdout = buf
try:
    ns = {"__name__": "__main__"}
    if kind == "exec": exec(compile(code, "<src>", "exec"), ns)
    else: eval(compile(code, "<ol>", "eval"), ns)
    res = ["ok", buf.getvalue()]
except BaseException as e:
    res = ["exc", type(e).__name__ + ": " + str(e)]
sys.stdout = old
print(json.dumps(res))
'''


def py(version):
    """interpreter for a version; the current interpreter when it has the same major.minor"""
    return sys.executable if version == CURRENT else PYENV % version


def convert_on(host, src, cfgs=CFGS):
    p = subprocess.run([py(host), "-c", _CONV, OLREPO], input=json.dumps([src, cfgs]), capture_output=True, text=True)
    if p.returncode:
        return [["err", "host process failed: " + p.stderr[-300:]]] * len(cfgs)
    return json.loads(p.stdout)


def run_on(rt, kind, code):
    p = subprocess.run([py(rt), "-c", _RUN], input=json.dumps([kind, code]), capture_output=True, text=True)
    if p.returncode:
        return ["exc", "runtime process failed: " + p.stderr[-300:]]
    return json.loads(p.stdout)


# ---------------------------------------------------------------------------
# bug1: on a 3.12+ HOST the class-body scope analysis is wrong for list/set/dict
# comprehensions: since PEP 709 `symtable` no longer reports them as child
# scopes, their symbols are merged into the symbol table of the class.
#  A1: a name read inside a comprehension of a class body is looked up in the
#      class namespace (Python: comprehension bodies never see class-level names)
#  A2: the iteration variable of one comprehension turns a free variable of the
#      class body (read in another comprehension) into a "class member" -> KeyError
SCRIPTS = {
    "A1 comprehension element reads a global that is also a class attribute": """\
g = 1
class C:
    g = 2
    o = [g for q in range(2)]
    s = {g for q in range(2)}
    d = {q: g for q in range(1)}
print(C.o, C.s, C.d, C.g)
""",
    "A1b comprehension in a method default (evaluated in the class body)": """\
g = 1
class C:
    g = 2
    def m(self, q=[g for w in range(2)]): return q
print(C().m())
""",
    "A2 iteration variable named like an enclosing-function variable read by another comprehension": """\
def f(p):
    class K:
        a = [7 for p in range(2)]
        b = [p for t in range(2)]
    return K.a, K.b
print(f(5))
""",
}

bad = 0
for title, src in SCRIPTS.items():
    print("==", title)
    for host in HOSTS:
        convs = convert_on(host, src)
        texts = {}
        for cfg, (st, t) in zip(CFGS, convs):
            texts.setdefault((st, t), []).append(cfg)
        for rt in (RUNTIMES[0], RUNTIMES[-1]):
            ref = run_on(rt, "exec", src)
            nbad, example = 0, None
            for (st, t), cfgs in texts.items():
                got = ["exc", t] if st == "err" else run_on(rt, "eval", t)
                if got != ref:
                    nbad += len(cfgs)
                    example = example or (cfgs[0], got)
            if nbad:
                bad += 1
                print("  host %-8s runtime %-7s: %d/8 option combinations differ; expected %r, e.g. %s -> %r"
                      % (host, rt, nbad, ref[1], "|".join(example[0]), example[1][1][:120]))
            else:
                print("  host %-8s runtime %-7s: ok (%r)" % (host, rt, ref[1]))
print("DEFECT PRESENT" if bad else "no difference")
sys.exit(1 if bad else 0)
