"""C17 - structural sources of recursion depth."""
from __future__ import annotations

import ast
import re

from ..core import AnalysisError, RuleResult
from ..extract import helper_entries
from ..model import ExtRef
from ..semwalk import events_of, iter_tnodes
from ..vals import TNode
from .common import all_templates, cached, kinds_label, path_events, short_ctx

EXPLANATION = (
    "Call-graph and template-depth rules: C17-R1 computes the strongly connected components of the "
    "typed call graph reachable from convert_code_string; every cycle must descend only through "
    "bracket-nesting fields (target/index patterns: depth bounded by the parser's nesting limit), "
    "and the three drivers (statement conversion, expression rewriting, unparsing) must be cycle "
    "free; C17-R2 flags calls whose stdlib summary says 'recursive on the depth of its argument' "
    "(ast.unparse) applied to the converter's output; C17-R3 computes depth(template): a template "
    "that nests one level per element of a user list turns program LENGTH into tree depth; "
    "C17-R4 chain slots of the unparser do not parenthesise the same-kind child; C05-IB instance: "
    "_iter_branch opens one guard level per interrupt, not per statement."
    ' C17-R1: recursion in the repository only over bounded nesting (a cycle is bounded when every cycle contains a step through a bounded field); C17-R4 also: parentheses a generator adds by itself in a chain slot only for a test on the WHOLE child text; C17-R5 no rejection by size; C17-R6 the short_circuit template does not nest one `or` per elif.'
)
ASSUMPTIONS = [
    "the parser limits bracket nesting (about 200 levels) and the nesting of format specs (2 levels), so recursion over target/index patterns and over format_spec is bounded",
    "thresholds themselves (recursion limit 1000, frames per level) are run-time quantities, not decided",
]

# fields through which a recursive descent is bounded by the parser's bracket-nesting limit
# (`format_spec`: a format spec is itself an f-string; CPython's f-string grammar stops at two levels -
# "f-string: expressions nested too deeply" - so the chain JoinedStr -> field -> spec -> field is short)
BRACKET_FIELDS = {"elts", "format_spec"}
RECURSIVE_STDLIB = {
    "ast.unparse": "ast.NodeVisitor based, several Python frames per tree level",
    "copy.deepcopy": "recursive, about four Python frames per level of the copied structure",
    "ast.dump": "recursive on the depth of the tree",
    "ast.fix_missing_locations": "recursive on the depth of the tree",
    "ast.literal_eval": "recursive on the depth of the tree",
    "pickle.dumps": "recursive on the depth of the object graph",
    "json.dumps": "recursive on the depth of the structure",
}


def _descent_fields(fi, call, seen=None):
    """Attribute names through which the arguments of a (recursive) call are derived from the
    parameters of the function (backward slice over local assignments / for targets)."""
    fields = set()
    params = {a.arg for a in fi.node.args.args + fi.node.args.kwonlyargs}
    binds = {}
    for n in ast.walk(fi.node):
        if isinstance(n, ast.Assign):
            for t in n.targets:
                for nm in ast.walk(t):
                    if isinstance(nm, ast.Name):
                        binds.setdefault(nm.id, []).append(n.value)
        elif isinstance(n, (ast.For, ast.comprehension)):
            for nm in ast.walk(n.target):
                if isinstance(nm, ast.Name):
                    binds.setdefault(nm.id, []).append(n.iter)
    todo = []
    for a in list(call.args) + [k.value for k in call.keywords]:
        todo.append(a)
    visited = set()
    direct_param = False
    while todo:
        e = todo.pop()
        for n in ast.walk(e):
            if isinstance(n, ast.Attribute):
                fields.add(n.attr)
            elif isinstance(n, ast.Name) and n.id not in visited:
                visited.add(n.id)
                if n.id in binds:
                    todo.extend(binds[n.id])
                elif n.id in params and n.id != "self":
                    pass
    return fields


def _kind_guard(fi, call, var):
    """(allowed kinds | None, excluded kinds) that the isinstance tests dominating `call` establish
    for the local variable `var` (if/elif chains; the else arm of a test excludes its kinds)."""
    allowed, excluded = None, set()

    def kinds_of(t):
        if isinstance(t, ast.Call) and isinstance(t.func, ast.Name) and t.func.id == "isinstance" and len(t.args) == 2 and isinstance(t.args[0], ast.Name) and t.args[0].id == var:
            k = t.args[1]
            elts = k.elts if isinstance(k, ast.Tuple) else [k]
            names = [e.id if isinstance(e, ast.Name) else (e.attr if isinstance(e, ast.Attribute) else None) for e in elts]
            if all(names):
                return set(names)
        return None

    def walk(stmts):
        nonlocal allowed, excluded
        for st in stmts:
            if not any(x is call for x in ast.walk(st)):
                continue
            if isinstance(st, ast.If):
                t = st.test
                neg = False
                if isinstance(t, ast.UnaryOp) and isinstance(t.op, ast.Not):
                    t, neg = t.operand, True
                ks = kinds_of(t)
                in_body = any(x is call for b in st.body for x in ast.walk(b))
                if ks is not None:
                    positive = in_body != neg
                    if positive:
                        allowed = ks if allowed is None else allowed & ks
                    else:
                        excluded |= ks
                walk(st.body if in_body else st.orelse)
            else:
                for blk in ("body", "orelse", "finalbody"):
                    walk(getattr(st, blk, []) or [])
                for h in getattr(st, "handlers", []) or []:
                    walk(h.body)
            return

    walk(fi.node.body)
    return allowed, excluded


def _prune_infeasible(cg, comp):
    """Remove from a call cycle the functions that cannot be an INTERMEDIATE step of it: every way
    into g passes a value that the isinstance guards exclude from every way out of g (the value is
    handed on unchanged as g's parameter).  E.g. f calls g(x) only when x is not a Tuple/List and g
    calls f back only when its parameter is one."""
    comp = list(comp)
    changed = True
    while changed and len(comp) > 1:
        changed = False
        for g in list(comp):
            gi = cg.funcs[g]
            gparams = [a.arg for a in gi.node.args.posonlyargs + gi.node.args.args]
            if gparams and gparams[0] in ("self", "cls"):
                gparams = gparams[1:]
            ins = [(f, call) for f in comp for call, tgt in cg.call_sites[f] if getattr(tgt, "fq", None) == g and f != g]
            outs = [(call, tgt.fq) for call, tgt in cg.call_sites[g] if getattr(tgt, "fq", None) in comp and tgt.fq != g]
            if not ins or not outs:
                continue
            feasible = False
            for f, c_in in ins:
                for c_out, _h in outs:
                    ok = True
                    for i, a in enumerate(c_in.args):
                        if not isinstance(a, ast.Name) or i >= len(gparams):
                            continue
                        p = gparams[i]
                        # g must not rebind the parameter
                        if any(isinstance(n, ast.Name) and n.id == p and isinstance(n.ctx, ast.Store) for n in ast.walk(gi.node)):
                            continue
                        a_allowed, a_excl = _kind_guard(cg.funcs[f], c_in, a.id)
                        b_allowed, b_excl = _kind_guard(gi, c_out, p)
                        if b_allowed is not None and b_allowed <= a_excl:
                            ok = False
                        if a_allowed is not None and a_allowed <= b_excl:
                            ok = False
                        if a_allowed is not None and b_allowed is not None and not (a_allowed & b_allowed):
                            ok = False
                    if ok:
                        feasible = True
            if not feasible:
                comp.remove(g)
                changed = True
    return comp


def rule_r1(ctx):
    rr = RuleResult("C17-R1", "recursion in the repository: only over bracket-nesting patterns; the three drivers are cycle-free")
    rr.exhaustive = True
    rr.floor = 2
    cg = ctx.cg
    reach = cg.reachable(["oneliner:convert_code_string"])
    drivers = ["oneliner.convert:convert", "oneliner.expr_transform:ExpressionTransformer.cvt", "oneliner.expr_unparse:expr_unparse", "oneliner.expr_transform:expr_transf"]
    for d in drivers:
        if d not in cg.funcs:
            raise AnalysisError(f"anchor {d} vanished")
    sccs = cg.sccs(reach)
    in_cycle = {f for comp in sccs for f in comp}
    for d in drivers:
        rr.instances += 1
        what = f"driver|{d}"
        if d in in_cycle:
            comp = [c for c in sccs if d in c][0]
            rr.fail(f"C17-R1|{d.split(':')[1]}|driver-recursive", f"{cg.funcs[d].where()}: the driver takes part in a call cycle {comp}: conversion depth is bounded by the interpreter's recursion limit instead of an explicit stack", where=cg.funcs[d].where(), what=what)
        else:
            rr.ok(what, sample={"rule": "C17-R1", "driver": d, "verdict": "not in any call cycle"})
    for comp in sccs:
        rr.instances += 1
        what = "scc|" + "+".join(c.split(":")[1] for c in comp)
        # does the cycle exist without the edges that were only guessed by method name?
        guessed = [(a, b) for (a, b) in cg.guessed_edges if a in comp and b in comp]
        if guessed:
            saved = {a: set(cg.edges[a]) for a, _b in guessed}
            try:
                for a, b in guessed:
                    typed_too = any(getattr(t, "fq", None) == b and (a, b) not in cg.guessed_edges for _c, t in cg.call_sites[a])
                    if not typed_too:
                        cg.edges[a].discard(b)
                still = [c2 for c2 in cg.sccs(set(comp)) if set(c2) & set(comp)]
            finally:
                for a, e in saved.items():
                    cg.edges[a] = e
            if not still:
                raise AnalysisError(
                    "C17-R1: a call cycle through " + ", ".join(sorted(c.split(":")[1] for c in comp)[:4]) + " ... exists only if "
                    + f"`{guessed[0][0].split(':')[1]}` really calls `{guessed[0][1].split(':')[1]}`; the receiver of that call could not be typed (every method of that name was assumed)"
                )
        pruned = _prune_infeasible(cg, comp)
        if len(pruned) < len(comp):
            rest = [c for c in pruned if any(getattr(t, "fq", None) in pruned for _c, t in cg.call_sites[c])]
            # is there still a cycle among the remaining functions?
            sub = cg.sccs(set(rest)) if rest else []
            sub = [c2 for c2 in sub if set(c2) <= set(pruned)]
            if not sub:
                rr.ok(what, sample={"rule": "C17-R1", "cycle": [c.split(":")[1] for c in comp], "verdict": "not a cycle: the isinstance guards on the two call edges exclude each other (runs at most once)"})
                continue
        bad = None
        union = set()
        first = None
        all_ast_fields = {f for k in dir(ast) if isinstance(getattr(ast, k), type) and issubclass(getattr(ast, k), ast.AST) for f in getattr(ast, k)._fields}
        for fq in comp:
            fi = cg.funcs[fq]
            for call, tgt in cg.call_sites[fq]:
                if getattr(tgt, "fq", None) in comp:
                    first = first or (fq, call)
                    fields = _descent_fields(fi, call) - {"nsp", "node", "self"}
                    ast_fields = fields & all_ast_fields
                    has_starred_test = any(isinstance(n, ast.Call) and isinstance(n.func, ast.Name) and n.func.id == "isinstance" and any(isinstance(x, ast.Name) and x.id == "Starred" for x in ast.walk(n)) for n in ast.walk(fi.node))
                    allowed = set(BRACKET_FIELDS) | ({"value"} if has_starred_test else set())
                    union |= ast_fields
                    extra = ast_fields - allowed
                    if extra:
                        bad = (fq, call, f"the recursion descends through {sorted(extra)}: chains of such nodes (operators, calls, attributes, blocks) are not limited by the parser, so the depth of the recursion grows with the program")
        if bad is not None:
            # one bounded step per round is enough: a cycle can only be walked as often as its most
            # restricted edge allows.  Remove the edges that descend through bounded fields only; if no
            # cycle is left among the functions, every cycle contains such an edge
            bounded, not_bounded = set(), set()
            for fq in comp:
                fi = cg.funcs[fq]
                for call, tgt in cg.call_sites[fq]:
                    if getattr(tgt, "fq", None) in comp:
                        flds = (_descent_fields(fi, call) - {"nsp", "node", "self"}) & all_ast_fields
                        has_st = any(isinstance(n, ast.Call) and isinstance(n.func, ast.Name) and n.func.id == "isinstance" and any(isinstance(x, ast.Name) and x.id == "Starred" for x in ast.walk(n)) for n in ast.walk(fi.node))
                        if flds and flds <= (set(BRACKET_FIELDS) | ({"value"} if has_st else set())):
                            bounded.add((fq, tgt.fq))
                        else:
                            not_bounded.add((fq, tgt.fq))
            bounded -= not_bounded  # every call site of the pair has to be a bounded step
            unb_sites = {(fq, getattr(t, "fq", None)) for fq in comp for _c, t in cg.call_sites[fq] if getattr(t, "fq", None) in comp} - bounded
            saved = {a: set(cg.edges[a]) for a in comp}
            try:
                for a in comp:
                    cg.edges[a] = {b for b in cg.edges[a] if b not in comp or (a, b) in unb_sites}
                left = [c2 for c2 in cg.sccs(set(comp)) if set(c2) <= set(comp)]
            finally:
                for a, e in saved.items():
                    cg.edges[a] = e
            if bounded and not left:
                bad = None
        if bad is None and not union and first:
            # no descent was SEEN.  When the argument of the recursive call comes out of another call
            # (a generator that hands out the sub-nodes, a helper), where it descends is not visible
            # here: no verdict instead of "calls itself with the same argument"
            from_call = False
            for fqx in comp:
                fix = cg.funcs[fqx]
                for callx, tgtx in cg.call_sites[fqx]:
                    if getattr(tgtx, "fq", None) not in comp:
                        continue
                    arg_names = {x.id for a in callx.args for x in ast.walk(a) if isinstance(x, ast.Name)}
                    for n in ast.walk(fix.node):
                        if isinstance(n, (ast.For, ast.comprehension)) and isinstance(n.iter, ast.Call) and any(isinstance(x, ast.Name) and x.id in arg_names for x in ast.walk(n.target)):
                            from_call = from_call or (fix, callx)
                        if isinstance(n, ast.Assign) and isinstance(n.value, ast.Call) and any(isinstance(x, ast.Name) and x.id in arg_names for t in n.targets for x in ast.walk(t)):
                            from_call = from_call or (fix, callx)
            if from_call:
                fix, callx = from_call
                raise AnalysisError(f"C17-R1: {fix.where()} line {callx.lineno}: the argument of the recursive call is handed out by another call (generator / helper): through which field the recursion descends is not visible to this rule")
            bad = (first[0], first[1], "no call of the cycle descends into a sub-node of its argument")
        if bad:
            fq, call, why = bad
            rr.fail(f"C17-R1|{'+'.join(sorted(c.split(':')[1] for c in comp))}|unbounded-recursion", f"{cg.funcs[fq].where()} line {call.lineno}: {why}", where=cg.funcs[fq].where(), what=what)
        else:
            rr.ok(what, sample={"rule": "C17-R1", "cycle": [c.split(":")[1] for c in comp], "verdict": "descends only through bracket-nesting fields (bounded by the parser)"})
    return rr


def rule_r2(ctx):
    rr = RuleResult("C17-R2", "Python-level recursive stdlib routines applied to the converter's output")
    rr.floor = 1
    cg = ctx.cg
    reach = cg.reachable(["oneliner:convert_code_string"])
    for fq in sorted(reach):
        for call, tgt in cg.call_sites.get(fq, []):
            if isinstance(tgt, ExtRef) and tgt.dotted in RECURSIVE_STDLIB:
                rr.instances += 1
                fi = cg.funcs[fq]
                # is it on the default configuration path?
                rr.fail(
                    f"C17-R2|{fi.qualname}|{tgt.dotted}",
                    f"{fi.where()} line {call.lineno}: {tgt.dotted} ({RECURSIVE_STDLIB[tgt.dotted]}) is applied to the converter's output, whose depth is at least the depth of the source tree and (C17-R3) grows with the LENGTH of blocks: RecursionError for programs CPython compiles (about 400 consecutive statements with the default options)",
                    where=fi.where(), what=f"{fq}|{tgt.dotted}",
                )
    # positive control: the rule must at least have looked at the unparse step
    fi = ctx.prog.func("oneliner", "convert_code_string")
    if not any(isinstance(n, ast.Call) for n in ast.walk(fi.node)):
        raise AnalysisError("convert_code_string contains no calls")
    if rr.instances == 0:
        rr.instances = 1
        rr.ok("no recursive stdlib routine on the conversion path")
    return rr


def rule_r3(ctx):
    rr = RuleResult("C17-R3", "breadth must not become depth: no template nests one level per element of a user list")
    rr.exhaustive = True
    rr.floor = 3
    seen = set()
    n_templates = 0
    for origin, kind, pr, tmpl in all_templates(ctx):
        n_templates += 1
        evs, w = path_events(pr) if pr is not None else events_of(tmpl)
        for e in evs:
            if e.kind == "nest-begin":
                key = e.site
                if key in seen:
                    continue
                seen.add(key)
                rr.instances += 1
                over = e.path
                if re.search(r"\.split\('.'\)", str(over)):
                    # one level per COMPONENT of one dotted name: the source's own `a.b.c` is as deep,
                    # the depth is bounded by the length of an identifier, not by a user list
                    rr.ok(f"nest|{_over_key(over)}", sample={"rule": "C17-R3", "nest_over": str(over), "verdict": "components of one dotted name"})
                    continue
                rr.fail(
                    f"C17-R3|{origin.split('.')[0].split(':')[-1]}|nest-over|{_over_key(over)}",
                    f"{origin} ({e.site}): the template wraps its accumulator once per element of {over}: the depth of the output tree grows linearly with the length of that list (a block of N statements / N decorators becomes N nested calls)",
                    where=e.site, what=f"nest|{origin}|{e.site}",
                )
    # the guard nesting of _iter_branch: one level per interrupting statement of a block
    from .c05 import iter_branch_paths

    paths = cached(ctx, "iter_branch_paths", lambda: iter_branch_paths(ctx))
    deepest = 0
    for pr in paths:
        if pr.outcome != "ok":
            continue
        evs, w = events_of(pr.result)
        deepest = max([deepest] + [len(e.guards) for e in evs if e.kind == "S"])
    rr.instances += 1
    if deepest >= 3:
        rr.fail(
            "C17-R3|_iter_branch|guard-nesting",
            "_PendingCompoundStmt._iter_branch: every statement that follows an interrupting statement opens a guard nested inside the previous one (depth 3 for a 3-statement block): the depth of the output grows with the number of interrupting statements in one block",
            what="iter_branch|depth",
        )
    else:
        rr.ok("iter_branch|depth")
    rr.note(f"{n_templates} templates examined for accumulator nesting")
    return rr


def _over_key(over):
    import re

    return re.sub(r"[^A-Za-z0-9_.\[\]()*:]", "", over)[:40]


def rule_r4(ctx):
    from ..reference import grammar as G
    from .c03 import slot_table

    rr = RuleResult("C17-R4", "chain slots of the custom unparser do not parenthesise the same-kind child (N links must not become N nested parentheses)")
    rr.exhaustive = True
    rr.floor = 15
    U = ctx.ustr
    prec = U.node_precedences()
    table = slot_table(ctx)
    for skind, sfield, op, children in G.chain_slots():
        slots = {sp for kind, pr, h, k2, f2, o2, sole, sp in table if k2 == skind and f2 == sfield and (op is None or o2 == op) and sp is not None}
        if not slots:
            raise AnalysisError(f"C17-R4: slot {skind}.{sfield}[{op}] not found in the unparser model")
        for sp in slots:
            for c in children:
                rr.instances += 1
                cp = prec.get(c)
                what = f"{skind}.{sfield}[{op}]|{c}"
                if isinstance(cp, int) and U.wraps(cp, sp):
                    rr.fail(
                        f"C17-R4|{skind}.{sfield}{'[' + op + ']' if op else ''}|{c}|chain-parenthesised",
                        f"{U.gen_map[skind].where()}: a {c} in slot {skind}.{sfield}{' of ' + op if op else ''} (slot precedence {sp}, child precedence {cp}) is wrapped in parentheses although the grammar does not need them: an elif / operator / call chain of N links becomes N nested parentheses, and CPython refuses more than about 200 (`a if t else (b if u else (...))`)",
                        where=U.gen_map[skind].where(), what=what,
                    )
                else:
                    rr.ok(what, sample={"rule": "C17-R4", "slot": f"{skind}.{sfield}", "op": op, "child": c, "parenthesised": False})
    # parentheses added by a generator itself, outside the driver's precedence comparison: in a chain
    # slot they are legitimate only for a WHOLE child text of a special form (an integer literal
    # before `.attr`); a test on a part of the text (its last character, a prefix) also fires for
    # chains - `o.n1.n2.n3` becomes `((o.n1).n2).n3`
    from .c03 import render

    for skind, sfield, op, children in G.chain_slots():
        if skind not in U.gen_map:
            continue
        for pr in U.paths(skind):
            if pr.outcome != "ok":
                continue
            txt = render(pr.result).replace(" ", "")
            if f"(<{sfield}>)" not in txt:
                continue
            rr.instances += 1
            whole = [k for k, v in pr.assign.items() if re.match(rf"str:text\({skind}\.{sfield}\)\.(isdigit|isdecimal|isnumeric)\(\)$", k) and v is True]
            what = f"{skind}.{sfield}|own-parentheses"
            if whole:
                rr.ok(what, sample={"rule": "C17-R4", "generator": skind, "wraps_when": whole[0]})
            else:
                conds = [f"{k}={v}" for k, v in pr.assign.items() if "text(" in k]
                rr.fail(
                    f"C17-R4|{skind}.{sfield}|own-parentheses-on-partial-text",
                    f"{U.gen_map[skind].where()}: the generator itself wraps its {sfield} in parentheses when [{'; '.join(conds)[:120] or 'always'}] - not a test that the WHOLE text is an integer literal: it also fires for the previous link of a chain (`o.n1.n2` becomes `(o.n1).n2`), so a chain of N links is nested N parentheses deep and CPython refuses more than about 200",
                    where=U.gen_map[skind].where(), what=what,
                )
    return rr


CPYTHON_MIN_NESTING_LIMIT = 20  # CO_MAXBLOCKS: the smallest static nesting limit of the compiler


def rule_r5(ctx):
    """The converter refuses no program for its SIZE that CPython accepts.  CPython has no limit on
    the LENGTH of a block, a target list, an argument list ...; its smallest static NESTING limit is
    20 (statically nested blocks).  A `raise` guarded by `len(<list of user nodes>) <cmp> N` is always
    a violation; one guarded by the depth of a nesting stack is a violation when the deepest nesting
    it still accepts is below 20 (the order of push and test inside the function is taken into account)."""
    rr = RuleResult("C17-R5", "no rejection by size: no limit on lengths of user lists, nesting limits not below CPython's")
    rr.floor = 5
    cg = ctx.cg
    prog = ctx.prog
    reach = cg.reachable(["oneliner:convert_code_string"])

    def limits(fi, ifnode):
        out = []
        for c in ast.walk(ifnode.test):
            if not isinstance(c, ast.Compare) or len(c.ops) != 1 or not isinstance(c.ops[0], (ast.Gt, ast.GtE)):
                continue
            a, b = c.left, c.comparators[0]
            try:
                v = prog.eval_const(fi.module, b)
            except Exception:
                v = None
            if isinstance(v, bool) or not isinstance(v, int) or v <= 1:
                continue
            if not (isinstance(a, ast.Call) and isinstance(a.func, ast.Name) and a.func.id == "len" and len(a.args) == 1):
                continue
            subject = ast.unparse(a.args[0])
            if re.search(r"\bnode\b", subject) or re.search(r"\.(body|orelse|targets|elts|args|keywords|names|values|generators|decorator_list|bases)$", subject):
                out.append((c, v, "length", None))
                continue
            # a stack: was an element pushed earlier in the same function (before the test)?
            pushed_before = any(
                isinstance(x, ast.Call) and isinstance(x.func, ast.Attribute) and x.func.attr in ("append", "insert") and ast.unparse(x.func.value) == subject and x.lineno < ifnode.lineno
                for x in ast.walk(fi.node)
            )
            strict = isinstance(c.ops[0], ast.Gt)
            if pushed_before:
                deepest = v if strict else v - 1
            else:
                deepest = v + 1 if strict else v
            out.append((c, v, "nesting", deepest))
        return out

    for fq in sorted(reach):
        fi = cg.funcs[fq]
        if fi.module.name.endswith("__main__"):
            continue
        for n in ast.walk(fi.node):
            if isinstance(n, ast.If) and any(isinstance(x, ast.Raise) for st in n.body for x in ast.walk(st)):
                rr.instances += 1
                what = f"{fi.qualname}|raise@{n.lineno}"
                bad = None
                for c, v, kind, deepest in limits(fi, n):
                    if kind == "length":
                        bad = f"`{ast.unparse(c)[:70]}` limits the LENGTH of a list of the user's program; CPython has no such limit"
                    elif deepest < CPYTHON_MIN_NESTING_LIMIT:
                        bad = f"`{ast.unparse(c)[:70]}` accepts a nesting of at most {deepest}; CPython accepts {CPYTHON_MIN_NESTING_LIMIT} statically nested blocks (the 21st is refused)"
                if bad:
                    rr.fail(f"C17-R5|{fi.qualname}|size-limit", f"{fi.where()} line {n.lineno}: the conversion raises by size: {bad}", where=fi.where(), what=what)
                else:
                    rr.ok(what, sample={"rule": "C17-R5", "site": f"{fi.where()}:{n.lineno}", "guard": ast.unparse(n.test)[:70], "verdict": "no size limit below CPython's"})
    return rr


def rule_r6(ctx):
    """An elif chain is an If whose orelse is [If] ... N deep.  The if_expr style turns it into
    `a if t else b if u else ...` (the else slot of a conditional expression needs no parentheses:
    C17-R4).  The short_circuit style puts the lowered else block into the last operand of an `or`;
    a one-statement block is handed back as that statement's own expression, so every elif nests an
    `or` inside an `or`, which BOTH unparsers must parenthesise to keep the tree: N elifs become N
    nested parentheses (about 200 are accepted)."""
    from ..vals import PList

    rr = RuleResult("C17-R6", "the short_circuit if template does not nest one `or` per elif")
    rr.floor = 1
    entry = ctx.tmpl.pending_by_kind("If")
    reported = False
    for pr in entry.ok_paths():
        for t in iter_tnodes(pr.result):
            if t.kind != "BoolOp" or not (isinstance(t.fields.get("op"), TNode) and t.fields["op"].kind == "Or"):
                continue
            vals = t.fields.get("values")
            items = vals.items if isinstance(vals, PList) else []
            rr.instances += 1
            last = items[-1] if items else None
            if isinstance(last, TNode) and last.kind == "$Wrap" and any(e.kind == "S" and (e.path or "").startswith("If.orelse") for e in events_of(last)[0]):
                if not reported:
                    reported = True
                    rr.fail(
                        "C17-R6|If|orelse|or-nested-per-elif",
                        f"PendingIf.get_result ({t.site}): with if_style=short_circuit the lowered else block is the last operand of `... or <else>`; for an elif it is itself such an `or`, so a chain of N elifs is N nested `or`s and N nested parentheses in the text: from about 200 elifs on the result does not compile (`MemoryError: Parser stack overflowed` / `too many nested parentheses`), while if_expr handles 1000",
                        where=str(t.site), what="If|orelse|or-nesting",
                    )
            else:
                rr.ok("If|or-operand")
    if rr.instances == 0:
        rr.instances = 1
        rr.ok("no `or` template")
    return rr


def rule_c05ib(ctx):
    """A block nests one guard per INTERRUPT seen so far, not one per statement: that is what the
    strict comparison against a refreshed saved counter in _iter_branch guarantees (shared rule
    C05-IB).  Without it the depth of the output grows with the length of the block (C17-R3)."""
    from .c05 import rule_ib

    return rule_ib(ctx)


RULES = [("C17-R4", rule_r4), ("C17-R1", rule_r1), ("C17-R2", rule_r2), ("C17-R3", rule_r3), ("C17-R5", rule_r5), ("C17-R6", rule_r6), ("C05-IB", rule_c05ib)]
