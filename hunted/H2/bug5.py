"""On a 3.12+ host a generator expression is treated as a function namespace

generate_nsp only skips comprehension symbol tables `if sys.version_info < (3, 12)`.  From
3.12 on list/set/dict comprehensions have no symbol table of their own, but generator
expressions still do, so a genexpr becomes a NamespaceFunction: in a class body every
global/builtin used only inside the genexpr raises KeyError during conversion, and in a
function the names it reads are moved to the nonlocal dict (a `for` target read in a
genexpr -> KeyError at run time).
"""
import os, sys
sys.path.insert(0, os.environ["OLREPO"])
import io, contextlib, itertools
import oneliner
from oneliner.config import Configs

SCRIPT = 'class A:\n    r = list(abs(i) for i in (-1, 2))\nprint(A.r)\n'


def run(code, mode):
    g = {"__name__": "__main__"}
    buf = io.StringIO()
    exc = None
    try:
        with contextlib.redirect_stdout(buf):
            if mode == "exec":
                exec(compile(code, "<script>", "exec"), g)
            else:
                eval(compile(code, "<converted>", "eval"), g)
    except BaseException as e:  # noqa
        exc = type(e).__name__ + ": " + str(e)
    return buf.getvalue(), exc


def main():
    print("script:")
    print(SCRIPT)
    expected = run(SCRIPT, "exec")
    print("expected (exec of the script): stdout=%r exception=%r" % expected)
    bad = 0
    for u, w, i in itertools.product(
        ["ast.unparse", "oneliner"], ["list", "chain_call"], ["if_expr", "short_circuit"]
    ):
        c = Configs()
        c.unparser, c.expr_wrapper, c.if_style = u, w, i
        try:
            text = oneliner.convert_code_string(SCRIPT, configs=c)
        except BaseException as e:  # noqa
            got = ("", "conversion failed with %s: %s" % (type(e).__name__, e))
        else:
            got = run(text, "eval")
        ok = got == expected
        if not ok:
            bad += 1
        print("%-11s %-10s %-13s %s stdout=%r exception=%r" % (u, w, i, "ok  " if ok else "FAIL", got[0], got[1]))
    if bad:
        print("DEFECT SHOWN in %d of 8 option combinations" % bad)
        sys.exit(1)
    print("no difference")


main()
