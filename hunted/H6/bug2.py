"""unparser="oneliner": a str constant that contains a Latin-1 character
(U+0080..U+00FF, e.g. the degree sign or an accented letter) inside an f-string
replacement field makes the conversion fail with
`SyntaxError: Back slash is included in a f-string expression`,
although no backslash is needed at all (characters above U+00FF such as the
euro sign are emitted raw and work)."""
import os, sys, io, contextlib, itertools

sys.path.insert(0, os.environ["OLREPO"])
import oneliner
from oneliner.config import Configs

ALL = list(itertools.product(["ast.unparse", "oneliner"], ["list", "chain_call"], ["if_expr", "short_circuit"]))


def make_cfg(unparser, wrapper, if_style):
    c = Configs()
    c.unparser = unparser
    c.expr_wrapper = wrapper
    c.if_style = if_style
    return c


def run(code, mode):
    out = io.StringIO()
    exc = None
    with contextlib.redirect_stdout(out):
        try:
            (exec if mode == "exec" else eval)(compile(code, "<" + mode + ">", mode), {"__name__": "__main__"})
        except BaseException as e:
            exc = type(e).__name__ + ": " + str(e)
    return out.getvalue(), exc

SRC = '''t = 21
metric = True
print(f"{t}{'°C' if metric else '°F'}")
'''

expected = run(SRC, "exec")
assert expected == ("21°C\n", None), expected
failed = False
for combo in ALL:
    try:
        text = oneliner.convert_code_string(SRC, configs=make_cfg(*combo))
    except BaseException as e:
        failed = True
        print(combo, "conversion failed:", type(e).__name__, e)
        continue
    got = run(text, "eval")
    if got != expected:
        failed = True
        print(combo, "expected", expected, "got", got)
sys.exit(1 if failed else 0)
