"""bug5: diagnostics about the INPUT script are duplicated and point to the wrong file.
 * convert_code_string() parses the source twice (ast.parse + symtable.symtable): every SyntaxWarning
   of the script (invalid escape sequence, ...) is issued twice per call (compile() issues it once);
   with warnings turned into errors the second parse is never reached, so no crash - just the noise.
 * __main__ does not forward the file name (convert_code_string has a `filename` parameter): warnings
   and SyntaxErrors of `python -m oneliner path/to/script.py` are reported for "<string>".
Exit 1 while the warning count is != 1 or the CLI messages do not name the input file."""
import os
import shutil
import subprocess
import sys
import tempfile
import warnings

REPO = os.environ["OLREPO"]
sys.path.insert(0, REPO)
import oneliner

bad = False
SRC = "pattern = '\\d+'\nprint(pattern)\n"
with warnings.catch_warnings(record=True) as rec_compile:
    warnings.simplefilter("always")
    compile(SRC, "script.py", "exec")
with warnings.catch_warnings(record=True) as rec_convert:
    warnings.simplefilter("always")
    oneliner.convert_code_string(SRC, filename="script.py")
if len(rec_convert) != len(rec_compile):
    bad = True
    print(f"library: compile() issues {len(rec_compile)} warning(s), convert_code_string() {len(rec_convert)}:")
    for w in rec_convert:
        print("   ", w.filename, w.lineno, w.category.__name__, w.message)

td = tempfile.mkdtemp(dir=os.path.dirname(os.path.abspath(__file__)))
env = dict(os.environ, PYTHONPATH=REPO)
for name, src in {"warn_script.py": SRC, "broken_script.py": "x = (1,\nprint(x)\n"}.items():
    fn = os.path.join(td, name)
    with open(fn, "w") as f:
        f.write(src)
    p = subprocess.run([sys.executable, "-m", "oneliner", fn], capture_output=True, text=True, env=env)
    lines = [l for l in p.stderr.splitlines() if "<string>" in l or name in l]
    if name not in p.stderr or "<string>" in p.stderr:
        bad = True
        print(f"CLI: python -m oneliner {name} -> rc {p.returncode}, stderr never names the file:")
        for l in lines:
            print("    " + l.strip())
shutil.rmtree(td, ignore_errors=True)
sys.exit(1 if bad else 0)
