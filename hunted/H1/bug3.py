"""`global x` in a nested function reads the enclosing function's local x

Stores to a declared-global name use globals().__setitem__, but loads are emitted
as the bare name.  A def becomes a lambda nested in the lambda of the enclosing
def, and a lambda cannot carry a `global` declaration, so the bare name resolves
lexically to the enclosing function's local of the same name.
Run: OLREPO=/path/to/checkout python bug3.py   (exit status 1 = defect shows)
"""
import os, sys; sys.path.insert(0, os.environ["OLREPO"])
import contextlib, io, itertools

import oneliner
from oneliner.config import Configs

SRC = 'counter = 0\ndef outer():\n    counter = 100\n    def bump():\n        global counter\n        counter += 1\n        return counter\n    for _i in range(2):\n        print(bump())\n    return counter\nprint(outer(), counter)\n'


def all_configs():
    for u, w, s in itertools.product(
        ("ast.unparse", "oneliner"), ("list", "chain_call"), ("if_expr", "short_circuit")
    ):
        c = Configs()
        c.unparser, c.expr_wrapper, c.if_style = u, w, s
        yield (u, w, s), c


def run(fn):
    buf, exc = io.StringIO(), None
    try:
        with contextlib.redirect_stdout(buf):
            fn()
    except BaseException as e:  # noqa
        exc = type(e).__name__ + ": " + str(e)[:80]
    return buf.getvalue(), exc


expected = run(lambda: exec(compile(SRC, "<orig>", "exec"), {"__name__": "__main__"}))
print("original :", expected)
bad = 0
for name, cfg in all_configs():
    try:
        text = oneliner.convert_code_string(SRC, configs=cfg)
    except BaseException as e:  # noqa
        print(name, "CONVERSION FAILED:", type(e).__name__, e)
        bad += 1
        continue
    got = run(lambda: eval(compile(text, "<conv>", "eval"), {"__name__": "__main__"}))
    if got[0] != expected[0] or (got[1] is None) != (expected[1] is None):
        print(name, "converted:", got)
        bad += 1
print("DEFECT SHOWS in %d of 8 option combinations" % bad if bad else "ok (no difference)")
sys.exit(1 if bad else 0)
