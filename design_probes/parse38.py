import ast, json, sys
bad=[]
for sn,cn,txt in json.load(open('/tmp/probe/pairs.json')):
    try: ast.parse(txt, mode='eval')
    except SyntaxError as e: bad.append((sn,cn,txt,str(e)[:50]))
print(sys.version_info[:2], 'failures', len(bad))
for b in bad:
    if b[0]!='Fmt.spec': print('  ',b)
print('   Fmt.spec failures:', sum(1 for b in bad if b[0]=='Fmt.spec'))
