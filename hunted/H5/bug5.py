"""bug5: __init_subclass__ / __class_getitem__ written with an explicit @classmethod are wrapped in classmethod() a second time.

classmethod(classmethod(f)) only happens to work on Python 3.10-3.12 (chained descriptors).
On 3.8 and 3.13 the converted program dies with "TypeError: 'classmethod' object is not callable",
on 3.9 the hook silently receives `type` instead of the new class.
The host check below is structural (the defect is visible in the class dict on every version);
when other interpreters are installed the converted text is also executed with them.
"""
import os, sys
sys.path.insert(0, os.environ["OLREPO"])
import glob, subprocess, tempfile, itertools
import oneliner
from oneliner.config import Configs

SCRIPT = '''
class A:
    @classmethod
    def __init_subclass__(cls, **kw):
        print('init_subclass', cls.__name__, kw)
class B(A, z=1):
    pass
'''

if __name__ == "__main__":
    failures = 0
    texts = {}
    for u, w, i in itertools.product(["ast.unparse", "oneliner"], ["list", "chain_call"], ["if_expr", "short_circuit"]):
        c = Configs()
        c.unparser, c.expr_wrapper, c.if_style = u, w, i
        texts[(u, w, i)] = oneliner.convert_code_string(SCRIPT, configs=c)
    # structural check on the host: what is stored in the class dict?
    g_ref, g_got = {"print": lambda *a: None}, {"print": lambda *a: None}
    exec(SCRIPT, g_ref)
    eval(texts[("ast.unparse", "list", "if_expr")], g_got)
    inner_ref = type(g_ref["A"].__dict__["__init_subclass__"].__func__).__name__
    inner_got = type(g_got["A"].__dict__["__init_subclass__"].__func__).__name__
    print("A.__dict__['__init_subclass__'].__func__ is a: original=%s converted=%s" % (inner_ref, inner_got))
    if inner_ref != inner_got:
        failures += 1
    # behavioural check with the other interpreters
    for py in sorted(glob.glob("/root/.pyenv/versions/3.*/bin/python")):
        ver = subprocess.run([py, "-c", "import sys; print('%d.%d' % sys.version_info[:2])"], capture_output=True, text=True).stdout.strip()
        if tuple(map(int, ver.split("."))) < (3, 8):
            continue
        with tempfile.TemporaryDirectory() as d:
            open(os.path.join(d, "orig.py"), "w").write(SCRIPT)
            ref = subprocess.run([py, "orig.py"], cwd=d, capture_output=True, text=True)
            bad = set()
            for combo, text in texts.items():
                open(os.path.join(d, "conv.py"), "w").write(text + "\n")
                got = subprocess.run([py, "conv.py"], cwd=d, capture_output=True, text=True)
                if (got.stdout, got.returncode) != (ref.stdout, ref.returncode):
                    bad.add((got.stdout, (got.stderr.strip().splitlines() or [""])[-1]))
            if bad:
                failures += 1
                print("python %s: original prints %r; converted (all differing combos): %s" % (ver, ref.stdout, sorted(bad)))
            else:
                print("python %s: same output %r" % (ver, ref.stdout))
    print("defect shows %d times" % failures)
    sys.exit(1 if failures else 0)
