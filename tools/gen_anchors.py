"""Maintenance tool: freeze, per analyser module, the repository identifiers its rules refer to by
NAME (attribute, method, function, class and constant names of /repo that occur in string literals
of the module).  Written to olsa/anchors.json.  At run time a check first verifies that every
anchor of the modules it uses still exists in the repository; a vanished anchor (a rename) ends the
run as ANALYSIS-ERROR (exit 2) instead of letting name-matching rules draw conclusions from
names that are no longer there.  Run on the CLEAN tree after changing rules."""
import ast, builtins, json, keyword, os, re, sys
V = os.path.dirname(os.path.dirname(os.path.abspath(__file__)))
sys.path.insert(0, V)
from olsa.anchors import repo_names  # noqa: E402

idents, strs = repo_names("/repo", split=True)
names = idents | strs
asdl_words = set()
for k in dir(ast):
    c = getattr(ast, k)
    if isinstance(c, type) and issubclass(c, ast.AST):
        asdl_words.add(k)
        asdl_words |= set(getattr(c, "_fields", ()))
generic = asdl_words | set(dir(builtins)) | set(keyword.kwlist) | {"self", "cls", "main", "path", "name", "kind", "site", "rule", "what", "where", "key", "items", "values", "keys", "get", "append", "pop", "add", "update", "extend", "insert", "index", "count", "copy", "send", "close", "join", "split", "format", "replace", "lower", "upper", "strip", "read", "write", "open"}
out = {}
for root, _d, files in os.walk(os.path.join(V, "olsa")):
    for f in files:
        if not f.endswith(".py") or f in ("mutants.py", "selftest.py", "anchors.py"):
            continue
        p = os.path.join(root, f)
        mod = os.path.relpath(p, V)[:-3].replace(os.sep, ".")
        tree = ast.parse(open(p).read())
        doc_ids = {id(n.value) for n in ast.walk(tree) if isinstance(n, ast.Expr) and isinstance(n.value, ast.Constant)}
        found = set()
        # descriptive positions: the `what`/`where`/`sample` labels of a result and the first argument
        # of rr.ok() name obligations for the evidence file, they are never matched against the repository
        for n in ast.walk(tree):
            lab = []
            if isinstance(n, ast.Call):
                lab += [k.value for k in n.keywords if k.arg in ("what", "where", "sample")]
                if isinstance(n.func, ast.Attribute) and n.func.attr == "ok" and n.args:
                    lab.append(n.args[0])
            elif isinstance(n, ast.Assign) and any(isinstance(t, ast.Name) and t.id in ("what", "where") for t in n.targets):
                lab.append(n.value)
            for v in lab:
                doc_ids |= {id(c) for c in ast.walk(v) if isinstance(c, ast.Constant)}
        for n in ast.walk(tree):
            if isinstance(n, ast.Constant) and isinstance(n.value, str) and id(n) not in doc_ids:
                # messages (long prose) mention names too, but only short literals are used for matching
                if len(n.value) > 60 or " " in n.value.strip():
                    continue
                text = n.value
                if "|" in text:
                    # a finding key: its hyphenated verdict words are English, not identifiers
                    text = re.sub(r"[A-Za-z_0-9]+(?:-[A-Za-z_0-9]+)+", " ", text)
                for tok in re.findall(r"[A-Za-z_][A-Za-z0-9_]*", text):
                    if tok in names and tok not in generic and len(tok) >= 4:
                        found.add(tok if tok in idents else "~" + tok)
        if found:
            out[mod] = sorted(found)
json.dump(out, open(os.path.join(V, "olsa", "anchors.json"), "w"), indent=1, sort_keys=True)
print({k: len(v) for k, v in out.items()})
