"""Maintenance tool: run `olsa probe` of every property on every seeded change
(/verif/seeded/<id>/patch.diff applied to a scratch copy of /repo) and print which
checks catch it.  Usage: run_seeded.py [ids...]"""
import concurrent.futures, json, os, shutil, subprocess, sys, tempfile
VERIF=os.path.dirname(os.path.dirname(os.path.abspath(__file__)))
PY="/venv/bin/python"
def one(sid):
    d=os.path.join(VERIF,'seeded',sid)
    tmp=tempfile.mkdtemp(prefix='seedrun-')
    try:
        dst=os.path.join(tmp,'repo')
        shutil.copytree('/repo',dst,ignore=shutil.ignore_patterns('.git','__pycache__','.ruff_cache','.benchmarks','*.egg-info','img','oneliner_tests'))
        r=subprocess.run(['patch','-p1','-s','--no-backup-if-mismatch','-i',os.path.join(d,'patch.diff')],cwd=dst,capture_output=True,text=True)
        if r.returncode: return sid,{'error':'patch failed'}
        res={}
        for p in [f'C{i:02d}' for i in range(1,18)]:
            r=subprocess.run([PY,'-m','olsa','probe',p],env=dict(os.environ,OLSA_REPO=dst,PYTHONPATH=VERIF),capture_output=True,text=True,cwd=VERIF,timeout=900)
            try: dd=json.loads(r.stdout.strip().splitlines()[-1])
            except Exception: dd={'new':[],'analysis_errors':['crash '+(r.stdout+r.stderr)[-200:]]}
            if dd['new'] or dd['analysis_errors']: res[p]=dd
        return sid,res
    finally:
        shutil.rmtree(tmp,ignore_errors=True)
ids=sys.argv[1:] or sorted(os.listdir(os.path.join(VERIF,'seeded')))
with concurrent.futures.ThreadPoolExecutor(max_workers=8) as ex:
    for sid,res in ex.map(one,ids):
        own=sid.split('-')[0]
        caught=[p for p,d in res.items() if isinstance(d,dict) and d.get('new')]
        errs=[p for p,d in res.items() if isinstance(d,dict) and d.get('analysis_errors')]
        status='OWN' if own in caught else ('other' if caught else 'MISSED')
        keys=[k for p in caught for k in res[p]['new']][:3]
        print(f"{sid}: {status} caught_by={caught} errs={errs} {keys}")
