"""Default options (unparser="ast.unparse") on a 3.11+ host: `ast.unparse` prints every non-empty
index tuple without its parentheses, also one with a starred element (PEP 646).  A script that is
valid on 3.8 - `a[(*b, 1)]` - is converted to `a[*b, 1]`, a SyntaxError on 3.8 - 3.10.
Found by reading Lib/ast.py while writing the table of C15-R9 (second instance of row 48)."""
import os, subprocess, sys, tempfile

sys.path.insert(0, os.environ["OLREPO"])
import oneliner

src = "b = (0,)\na = {(0, 1): 5}\nprint(a[(*b, 1)])\n"
txt = oneliner.convert_code_string(src)
bad = 0
with tempfile.TemporaryDirectory() as d:
    p = os.path.join(d, "out.py")
    open(p, "w").write(txt)
    for v in ("3.8.18", "3.9.18", "3.10.13", "3.11.7", "3.12.1"):
        exe = f"/root/.pyenv/versions/{v}/bin/python"
        if not os.path.exists(exe):
            continue
        r = subprocess.run([exe, p], capture_output=True, text=True)
        if r.returncode != 0 or r.stdout.strip() != "5":
            bad += 1
            print(v, "FAILS:", r.stderr.strip().splitlines()[-1] if r.stderr.strip() else r.stdout)
print(txt)
sys.exit(1 if bad else 0)
