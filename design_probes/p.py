import sys, io, contextlib, itertools, traceback
import os; sys.path.insert(0, os.environ.get('OLREPO','/repo'))
import oneliner
from oneliner.config import Configs
def cfgs():
    for u in ["ast.unparse","oneliner"]:
        for w in ["list","chain_call"]:
            for s in ["if_expr","short_circuit"]:
                c=Configs(); c.unparser=u; c.expr_wrapper=w; c.if_style=s
                yield (u,w,s),c
def run(src, only_default=False, show=False):
    buf=io.StringIO()
    g={}
    try:
        with contextlib.redirect_stdout(buf): exec(src,g)
        exp=buf.getvalue()
    except Exception as e:
        exp='EXC '+repr(e)
    print('--- SRC:',repr(src)); print('   expected:',repr(exp))
    for k,c in cfgs():
        try:
            out=oneliner.convert_code_string(src,configs=c)
        except Exception as e:
            print('  ',k,'CONVERT-EXC',type(e).__name__,e); 
            if only_default: break
            continue
        if show: print('   OUT',out)
        buf=io.StringIO(); g2={}
        try:
            code=compile(out,'<o>','eval')
            with contextlib.redirect_stdout(buf): eval(code,g2)
            got=buf.getvalue()
        except Exception as e:
            got='EXC '+type(e).__name__+': '+str(e)[:100]
        print('  ',k,'OK' if got==exp else 'DIFF '+repr(got))
        if only_default: break
if __name__=='__main__':
    for s in sys.argv[1:]:
        run(s)
