"""bug5 (latent, direct AST shapes only): Constant(float('nan')) (and a complex with a nan part) is written as the
NAME `nan` -> NameError when the text runs (or a silently captured user variable `nan`).
unparse_Constant() replaces "inf" by "1e309" in the repr but has no spelling for nan; ast.unparse writes
(1e309-1e309).  The parser never produces a nan Constant, so convert_code_string() is not affected today.
"""
import ast
import math
import os
import sys
from ast import *

sys.path.insert(0, os.environ["OLREPO"])
from oneliner.expr_unparse import expr_unparse

CASES = [
    ("Constant(nan)", Constant(float("nan"))),
    ("Constant(-nan) * 2", BinOp(Constant(-float("nan")), Mult(), Constant(2))),
    ("Constant(complex(nan, 1))", Constant(complex(float("nan"), 1))),
    ("Constant(complex(0, nan))", Constant(complex(0, float("nan")))),
    ("[Constant(inf), Constant(nan)]", List([Constant(float("inf")), Constant(float("nan"))], Load())),
]
bad = 0
for label, tree in CASES:
    want = repr(eval(compile(ast.fix_missing_locations(Expression(tree)), "<tree>", "eval")))
    text = expr_unparse(tree)
    try:
        got = repr(eval(text, {}))
    except Exception as e:  # noqa
        got = "%s: %s" % (type(e).__name__, e)
    if got != want:
        bad += 1
        print("%-32s text=%-14r tree evaluates to %-12s text gives %s" % (label, text, want, got))
print("bug5:", "DEFECT PRESENT (%d differences)" % bad if bad else "not reproduced")
sys.exit(1 if bad else 0)
