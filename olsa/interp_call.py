"""Engine T, part 5: calls - ast constructors, repository functions (inlined),
summarised callees, builtins and methods of builtin-typed abstract values."""
from __future__ import annotations

import ast

from .core import AnalysisError
from .interp_base import MUTATORS, Frame, PathAbort, Raised, ReturnSig, contains_yield
from .vals import (
    AstCls, BoundBuiltin, Cst, Ext, Fresh, Func, Gen, Hole, Obj, PDict, PList, PSet, PTuple,
    Rep, RepoCls, RepoMod, SColl, Splice, Str, StrOp, SuperProxy, SVal, Sym, TNode, TypeOf,
    UList, UNode, UPrim, Unknown, V, is_none,
)

MAX_DEPTH = 40


class CallMixin:
    def call(self, f, args, kwargs, node, fr):
        if type(f).__name__ == "Partial":
            kw = dict(f.kwargs)
            kw.update(kwargs)
            return self.call(f.f, f.args + list(args), kw, node, fr)
        if isinstance(f, AstCls):
            return self.construct(f, args, kwargs, node, fr)
        if isinstance(f, Func):
            s = self.summary_for(f)
            if s is not None:
                return s(f, args, kwargs, node, fr)
            if self.mode == "unparse" and f.fi is not None and any(isinstance(a, (StrOp, Str)) for a in args):
                # text handed from one string routine to another (C04-R2: escaping escaped text)
                self.text_calls.append((f.fi.fq, list(args), self.cur_site))
            return self.invoke(f, args, kwargs, node)
        if isinstance(f, RepoCls):
            return self.instantiate(f.ci, args, kwargs, node)
        if isinstance(f, BoundBuiltin):
            return self.call_bound(f, args, kwargs, node, fr)
        if isinstance(f, Ext):
            return self.call_ext(f, args, kwargs, node, fr)
        if isinstance(f, (Unknown, SVal)):
            desc = f.desc
            meth = getattr(f, "meth", None)
            recv = getattr(f, "recv", None)
            if meth in MUTATORS or meth in self.foreign_setters:
                self.effects.append({
                    "kind": "call", "target": self.describe(recv) if recv is not None else desc,
                    "method": meth, "args": args, "site": self.cur_site, "rep": list(self.rep_stack),
                    "phase": self.phase,
                })
            self.unresolved_calls.add(desc)
            argd = ",".join(self.describe(a) for a in args)
            return Unknown(f"{desc}({argd})")
        if isinstance(f, TNode) and f.kind == "$Wrapper":
            return TNode("$Wrap", {"nodes": args[0] if args else Cst(None), "via": f}, self.site_of(node, fr))
        if isinstance(f, TypeOf):
            # type(node)(**fields): reflective reconstruction of a user node of one known kind
            u = f.node
            if isinstance(u, UNode) and len(u.kinds) == 1 and not args:
                kind = next(iter(u.kinds))
                t = TNode(kind, dict(kwargs), self.site_of(node, fr))
                t.func = fr.where() if fr else "?"
                t.rebuilt_from = u
                self.constructed.append(t)
                return t
            raise AnalysisError("reflective reconstruction type(node)(...) of a node of unknown kind")
        raise AnalysisError(f"call of {f!r} at {self.cur_site}")

    def site_of(self, node, fr):
        return f"{fr.module.rel if fr and fr.module else '?'}:{getattr(node, 'lineno', 0)}"

    # -------------------------------------------------------- ast constructor
    def construct(self, f: AstCls, args, kwargs, node, fr):
        cls = f.cls
        fields = {}
        names = cls._fields
        if len(args) > len(names):
            raise AnalysisError(f"too many positional arguments for ast.{cls.__name__} at {self.cur_site}")
        for n, a in zip(names, args):
            fields[n] = a
        for k, v in kwargs.items():
            fields[k] = v
        t = TNode(cls.__name__, fields, self.site_of(node, fr))
        t.func = fr.where() if fr else "?"
        if fr is not None and fr.is_module:
            t.shared = True
        self.constructed.append(t)
        return t

    # --------------------------------------------------------------- invoke
    def bind_args(self, f: Func, args, kwargs, node):
        a = f.node.args
        params = [p.arg for p in a.posonlyargs + a.args]
        loc = {}
        args = list(args)
        if f.bound_self is not None:
            args = [f.bound_self] + args
        if len(args) > len(params):
            if a.vararg:
                loc[a.vararg.arg] = PTuple(args[len(params):])
                args = args[: len(params)]
            else:
                raise AnalysisError(f"too many arguments calling {f!r} at {self.cur_site}")
        elif a.vararg:
            loc[a.vararg.arg] = PTuple([])
        for p, v in zip(params, args):
            loc[p] = v
        kw = dict(kwargs)
        for p in params[len(args):] + [k.arg for k in a.kwonlyargs]:
            if p in kw:
                loc[p] = kw.pop(p)
        if kw:
            if a.kwarg:
                loc[a.kwarg.arg] = PDict([(Cst(k), v) for k, v in kw.items()])
            else:
                raise AnalysisError(f"unexpected keyword {sorted(kw)} calling {f!r} at {self.cur_site}")
        elif a.kwarg:
            loc[a.kwarg.arg] = PDict([])
        # defaults
        defaults = a.defaults
        pos = a.posonlyargs + a.args
        for p, d in zip(pos[len(pos) - len(defaults):], defaults):
            if p.arg not in loc:
                loc[p.arg] = self.ev(d, Frame(f.module, {}, closure=f.env))
        for p, d in zip(a.kwonlyargs, a.kw_defaults):
            if p.arg not in loc and d is not None:
                loc[p.arg] = self.ev(d, Frame(f.module, {}, closure=f.env))
        for p in pos + a.kwonlyargs:
            if p.arg not in loc:
                raise AnalysisError(f"missing argument {p.arg} calling {f!r} at {self.cur_site}")
        return loc

    def invoke(self, f: Func, args, kwargs, node):
        loc = self.bind_args(f, args, kwargs, node)
        self_obj = f.bound_self
        fr = Frame(f.module, loc, closure=f.env, func=f, self_obj=self_obj, defcls=f.defcls)
        if isinstance(f.node, ast.Lambda):
            return self.ev(f.node.body, fr)
        if contains_yield(f.node):
            return Gen(f, fr)
        return self.run_body(f, fr)

    def run_body(self, f: Func, fr: Frame):
        key = f.node
        if self.call_stack.count(key) >= self.rec_limit:
            self.recursion_cut.add(f.fi.fq if f.fi else f.name)
            self.rec_cut_args.extend(fr.locals.values())
            return TNode("$Rec", {"func": Cst(f.fi.fq if f.fi else f.name), "args": PList(list(fr.locals.values()))}, self.cur_site)
        if len(self.call_stack) > MAX_DEPTH:
            raise AnalysisError(f"call depth exceeded in {f!r}")
        self.call_stack.append(key)
        saved = self.cur_site
        try:
            self.exec_block(f.node.body, fr)
            return Cst(None)
        except ReturnSig as r:
            return r.value
        finally:
            self.call_stack.pop()
            self.cur_site = saved

    def run_gen(self, g: Gen):
        if getattr(g, "done_value", None) is not None:
            return g.done_value
        if g.started:
            raise AnalysisError("generator resumed twice")
        g.started = True
        return self.run_body(g.func, g.frame)

    def _record_fields(self, ci):
        """(name, default node|None) of the annotated fields of a NamedTuple / dataclass body."""
        out = []
        for st in ci.node.body:
            if isinstance(st, ast.AnnAssign) and isinstance(st.target, ast.Name) and "ClassVar" not in ast.unparse(st.annotation):
                out.append((st.target.id, st.value))
        return out

    def _bind_record(self, ci, args, kwargs, node):
        fields = self._record_fields(ci)
        vals = {}
        if len(args) > len(fields):
            raise AnalysisError(f"too many arguments for the record class {ci.name} at {self.cur_site}")
        for (nm, _d), a in zip(fields, args):
            vals[nm] = a
        for k, v in kwargs.items():
            if k not in [f[0] for f in fields] or k in vals:
                raise AnalysisError(f"bad keyword {k} for the record class {ci.name} at {self.cur_site}")
            vals[k] = v
        for nm, d in fields:
            if nm not in vals:
                if d is None:
                    raise AnalysisError(f"missing field {nm} of the record class {ci.name} at {self.cur_site}")
                fr0 = Frame(ci.module, {})
                if isinstance(d, ast.Call) and ast.unparse(d.func).endswith("field"):
                    kw = {k.arg: k.value for k in d.keywords}
                    if "default_factory" in kw:
                        vals[nm] = self.call(self.ev(kw["default_factory"], fr0), [], {}, d, fr0)
                    elif "default" in kw:
                        vals[nm] = self.ev(kw["default"], fr0)
                    else:
                        raise AnalysisError(f"field() without default for {nm} of {ci.name}")
                else:
                    vals[nm] = self.ev(d, fr0)
        return fields, vals

    def instantiate(self, ci, args, kwargs, node):
        base_txt = [ast.unparse(b) for b in ci.node.bases]
        deco_txt = [ast.unparse(d) for d in ci.node.decorator_list]
        if any(b.split(".")[-1] == "NamedTuple" for b in base_txt) and ci.find_method("__new__") is None:
            fields, vals = self._bind_record(ci, args, kwargs, node)
            t = PTuple([vals[nm] for nm, _d in fields])
            t.names = [nm for nm, _d in fields]
            t.record_cls = ci
            return t
        if any(d.split("(")[0].split(".")[-1] == "dataclass" for d in deco_txt) and "__init__" not in ci.methods:
            o = Obj(ci, f"new:{ci.name}@{self.cur_site[1]}", concrete=True)
            fields, vals = self._bind_record(ci, args, kwargs, node)
            for nm, _d in fields:
                o.attrs[nm] = vals[nm]
            post = ci.find_method("__post_init__")
            if post is not None:
                f = Func(post, post.node, None, bound_self=o, module=post.module, defcls=post.cls)
                self.invoke(f, [], {}, node)
            self.instantiated.append(o)
            return o
        o = Obj(ci, f"new:{ci.name}@{self.cur_site[1]}", concrete=True)
        init = ci.find_method("__init__")
        if init is not None:
            f = Func(init, init.node, None, bound_self=o, module=init.module, defcls=init.cls)
            saved_self = self.self_obj
            r = self.invoke(f, args, kwargs, node)
        self.instantiated.append(o)
        return o

    # ------------------------------------------------------------- summaries
    def summary_for(self, f: Func):
        if f.fi is None:
            return None
        if f.node in self.no_summary:
            return None
        return self.summaries.get(f.fi.fq) or self.method_summaries.get(
            (self.namespace_root_of(f), f.fi.name)
        )

    def namespace_root_of(self, f: Func):
        if f.fi is None or f.fi.cls is None:
            return None
        root = self.namespace_root
        if root is not None and f.fi.cls.is_subclass_of(root):
            return root.name
        return None

    def sum_expr_transf(self, f, args, kwargs, node, fr):
        loc = self.bind_args(f, args, kwargs, node)
        vals = list(loc.values())
        nsp, inner = vals[0], vals[1]
        from .vals import Transf

        t = Transf(nsp, inner, self.site_of(node, fr))
        t.func = fr.where()
        self.transfs.append(t)
        return t

    def sum_ol_name(self, f, args, kwargs, node, fr):
        tmpl = args[0] if args else next(iter(kwargs.values()))
        cname = None
        if node is not None and node.args and isinstance(node.args[0], ast.Name):
            cname = node.args[0].id
        elif node is not None and node.args and isinstance(node.args[0], ast.Attribute):
            cname = node.args[0].attr
        fv = Fresh(tmpl.value if isinstance(tmpl, Cst) else None, cname, self.site_of(node, fr))
        fv.rep = list(self.rep_stack)
        self.freshes.append(fv)
        return fv

    def sum_get_assign(self, f, args, kwargs, node, fr):
        loc = self.bind_args(f, args, kwargs, node)
        vals = list(loc.values())
        t = TNode("$Store", {"nsp": vals[0], "name": vals[1], "value": vals[2]}, self.site_of(node, fr))
        t.func = fr.where()
        self.constructed.append(t)
        return t

    def sum_get_load_name(self, f, args, kwargs, node, fr):
        loc = self.bind_args(f, args, kwargs, node)
        vals = list(loc.values())
        t = TNode("$Load", {"nsp": vals[0], "name": vals[1]}, self.site_of(node, fr))
        t.func = fr.where()
        self.constructed.append(t)
        return t

    def sum_iter_branch(self, f, args, kwargs, node, fr):
        """converted_branch.extend(Guarded(Lowered(branch), owner)); validated by C05-IB."""
        loc = self.bind_args(f, args, kwargs, node)
        names = list(loc)
        vals = list(loc.values())
        dst, branch, cnt_getter, flag_getter = vals[1], vals[2], vals[3], vals[4]
        from .vals import Lowered

        counter = None
        n_reads = len(self.vol_reads)
        if isinstance(cnt_getter, Func):
            try:
                counter = self.invoke(cnt_getter, [], {}, node) if cnt_getter.bound_self is None else self.invoke(cnt_getter, [], {}, node)
            except Raised:
                counter = Unknown("raises")
        # _iter_branch polls the getter before every statement: it must read the counter when called,
        # not return a value captured earlier
        live = not isinstance(counter, (SVal, SColl)) or any(r is counter for r in self.vol_reads[n_reads:])
        lw = Lowered(branch, guard={"counter": counter, "flag_getter": flag_getter, "site": self.site_of(node, fr), "live": live})
        self.lowered.append(lw)
        if isinstance(dst, PList):
            item = Splice(lw)
            dst.items.append(item)
            self.log_append(dst, item)
        else:
            raise AnalysisError("_iter_branch destination is not a list")
        self.yields.append(("block", branch, lw))
        g = Gen(None, None)
        g.done_value = Cst(None)
        return g

    def sum_debug_info(self, f, args, kwargs, node, fr):
        return Cst("<pos>: ")

    # --------------------------------------------------------------- yields
    def on_yield(self, v, fr, node):
        from .vals import Lowered

        if self.mode == "unparse":
            if isinstance(v, PTuple) and len(v.items) == 2:
                h = Hole(v.items[1], v.items[0], self.site_of(node, fr))
                h.rep = list(self.rep_stack)
                h.func = fr.where()
                self.holes.append(h)
                return h
            raise AnalysisError(f"unparser generator yields {v!r}")
        if self.mode == "exprcopy":
            if is_none(v):
                return Cst(None)
            from .vals import Transf

            t = Transf(self.expr_nsp, v, self.site_of(node, fr))
            self.transfs.append(t)
            self.yields.append(("expr", v, t))
            return t
        lw = Lowered(v)
        self.lowered.append(lw)
        self.yields.append(("stmt", v, lw))
        return lw

    def _parse_template_text(self, text, kwargs, args):
        """ast.parse(<text assembled by the builder>): the concrete pieces are parsed for real, the
        symbolic pieces (fresh names, lengths of user lists) are parsed as placeholder names and put
        back into the resulting template nodes.  None when the text cannot be handled that way."""
        parts = text.parts if isinstance(text, Str) else [text.value]
        src, holes = "", {}
        for p in parts:
            if isinstance(p, str):
                src += p
            elif isinstance(p, Cst) and isinstance(p.value, (str, int)):
                src += str(p.value)
            else:
                inner = p
                if isinstance(p, StrOp) and p.op in ("str", "format") and p.args:
                    inner = p.args[0]
                if not isinstance(inner, (Sym, Fresh, UPrim, Str)):
                    return None
                name = f"olsa_ph{len(holes)}_"
                holes[name] = inner
                src += name
        mode = kwargs.get("mode") or (args[2] if len(args) > 2 else Cst("exec"))
        if not (isinstance(mode, Cst) and mode.value in ("eval", "exec")):
            return None
        try:
            tree = ast.parse(src, mode=mode.value)
        except SyntaxError:
            return None
        site = self.cur_site

        def conv(n):
            if isinstance(n, ast.Name) and n.id in holes:
                v = holes[n.id]
                if isinstance(v, Sym):
                    return TNode("Constant", {"value": v}, site)
                return TNode("Name", {"id": v, "ctx": TNode(type(n.ctx).__name__, {}, site)}, site)
            if isinstance(n, ast.AST):
                return TNode(type(n).__name__, {f: conv(getattr(n, f)) for f in n._fields if hasattr(n, f)}, site)
            if isinstance(n, list):
                return PList([conv(x) for x in n])
            return Cst(n)

        return conv(tree)

    # ---------------------------------------------------- builtin functions
    def call_ext(self, f: Ext, args, kwargs, node, fr):
        d = f.dotted
        name = d.split(".", 1)[1] if d.startswith("builtins.") else d
        h = getattr(self, "bi_" + name.replace(".", "_"), None)
        if h is not None:
            return h(args, kwargs, node, fr)
        if d.startswith("typing."):
            if name == "typing.cast":
                return args[1]
            return Unknown(d)
        if d == "ast.parse" and args and isinstance(args[0], (Str, Cst)):
            t = self._parse_template_text(args[0], kwargs, args)
            if t is not None:
                return t
        if d == "warnings.warn":
            self.events.append(("warn", self.render_str(args[0]) if args else "", self.cur_site))
            return Cst(None)
        if d == "builtins.object.__init__":
            return Cst(None)
        self.ext_calls.add(d)
        argd = ",".join(self.describe(a) for a in args)
        u = Unknown(f"{d}({argd})")
        u.ext = d
        u.args = args
        return u

    def bi_functools_partial(self, args, kwargs, node, fr):
        from .vals import Partial

        return Partial(args[0], args[1:], kwargs)

    def bi_functools_reduce(self, args, kwargs, node, fr):
        seq = self.concrete_seq(args[1])
        if seq is None:
            raise AnalysisError(f"functools.reduce over a symbolic sequence at {self.cur_site}")
        seq = list(seq)
        if len(args) > 2:
            acc = args[2]
        elif seq:
            acc = seq.pop(0)
        else:
            raise Raised("TypeError", self.cur_site, "reduce() of empty iterable with no initial value")
        for x in seq:
            acc = self.call(args[0], [acc, x], {}, node, fr)
        return acc

    def bi_ast_iter_child_nodes(self, args, kwargs, node, fr):
        return StrOp("children", [args[0]])

    def bi_ast_iter_fields(self, args, kwargs, node, fr):
        raise AnalysisError("ast.iter_fields on a user node is outside the modelled subset")

    def has_children(self, v):
        """Does a node have at least one child AST node (ast.iter_child_nodes non-empty)?"""
        import ast as _ast

        from .reference import asdl as _asdl

        if isinstance(v, TNode):
            return any(isinstance(x, (TNode, UNode)) or (isinstance(x, PList) and x.items) for x in v.fields.values())
        if not isinstance(v, UNode):
            return self.decide(f"haschildren:{self.describe(v)}")
        always, never = True, True
        for k in v.kinds:
            req = False
            opt = False
            for f, (t, q) in _asdl.FIELDS.get(k, {}).items():
                if t in _asdl.PRIMITIVE:
                    continue
                if q == "":
                    req = True
                else:
                    opt = True
            if req:
                never = False
            elif opt:
                always = False
                never = False
            else:
                always = False
        if always and not never:
            return True
        if never and not always:
            return False
        return self.decide(f"haschildren:{v.path()}")

    def bi_isinstance(self, args, kwargs, node, fr):
        return Cst(self.isinstance_test(args[0], args[1]))

    def bi_len(self, args, kwargs, node, fr):
        v = args[0]
        seq = self.concrete_seq(v)
        if seq is not None:
            return Cst(len(seq))
        if isinstance(v, (UList,)):
            return Sym({f"len({v.path()})": 1})
        if isinstance(v, SColl):
            if v.known:
                return Sym({f"len({v.desc})": 1}, 0)
            return Sym({f"len({v.desc})": 1})
        if isinstance(v, PList):
            # concrete items + symbolic repetitions
            n = sum(1 for i in v.items if not isinstance(i, (Rep, Splice)))
            terms = {}
            for i in v.items:
                if isinstance(i, Rep):
                    k = f"len({i.over})" if len(i.items) == 1 else f"{len(i.items)}*len({i.over})"
                    terms[f"len({i.over})"] = terms.get(f"len({i.over})", 0) + len(i.items)
                elif isinstance(i, Splice):
                    terms[f"len({self.describe(i.v)})"] = terms.get(f"len({self.describe(i.v)})", 0) + 1
            if v.sym_elem_of:
                terms[f"len({v.sym_elem_of})"] = 1
            return Sym(terms, n)
        if isinstance(v, (Unknown, SVal, Hole, Str, StrOp, UPrim)):
            return Sym({f"len({self.describe(v)})": 1})
        raise AnalysisError(f"len({v!r})")

    def bi_enumerate(self, args, kwargs, node, fr):
        start = args[1] if len(args) > 1 else kwargs.get("start")
        return StrOp("enumerate", [args[0]] + ([start] if start is not None else []))

    def bi_reversed(self, args, kwargs, node, fr):
        return StrOp("reversed", [args[0]])

    def bi_zip(self, args, kwargs, node, fr):
        return StrOp("zip", list(args))

    def bi_itertools_chain(self, args, kwargs, node, fr):
        return StrOp("chain", list(args))

    def bi_iter(self, args, kwargs, node, fr):
        return args[0]

    def bi_type(self, args, kwargs, node, fr):
        v = args[0]
        if isinstance(v, UNode):
            return TypeOf(v)
        if isinstance(v, TNode):
            return AstCls(getattr(ast, v.kind))
        if isinstance(v, Obj) and v.cls is not None and v.exact:
            return RepoCls(v.cls)
        return Unknown(f"type({self.describe(v)})")

    def bi_super(self, args, kwargs, node, fr):
        if fr.self_obj is None or fr.defcls is None:
            raise AnalysisError("super() outside a method")
        return SuperProxy(fr.self_obj, fr.defcls)

    def bi_hasattr(self, args, kwargs, node, fr):
        v, n = args
        if isinstance(v, UNode) and isinstance(n, Cst):
            from .reference import asdl as _asdl

            return Cst(all(_asdl.field_info(k, n.value) is not None for k in v.kinds))
        if isinstance(v, TNode) and isinstance(n, Cst) and not v.kind.startswith("$"):
            # a node the converter built: the fields it was given exist (optional ones default to None)
            from .reference import asdl as _asdl

            return Cst(n.value in v.fields or _asdl.field_info(v.kind, n.value) is not None)
        if isinstance(v, Obj) and isinstance(n, Cst):
            if n.value in v.attrs:
                return Cst(True)
            if v.cls is not None and (v.cls.find_method(n.value) or v.cls.find_class_attr(n.value)):
                return Cst(True)
            return Cst(self.decide(f"hasattr:{v.tag}:{n.value}"))
        return Cst(self.decide(f"hasattr:{self.describe(v)}:{self.describe(n)}"))

    def bi_getattr(self, args, kwargs, node, fr):
        if isinstance(args[1], Cst):
            return self.getattr(args[0], args[1].value, node)
        return Unknown(f"getattr({self.describe(args[0])},{self.describe(args[1])})")

    def bi_setattr(self, args, kwargs, node, fr):
        if isinstance(args[1], Cst):
            self.setattr(args[0], args[1].value, args[2], node)
        else:
            self.effects.append({"kind": "setattr-dynamic", "target": self.describe(args[0]), "name": args[1], "value": args[2], "site": self.cur_site})
        return Cst(None)

    def bi_tuple(self, args, kwargs, node, fr):
        if not args:
            return PTuple([])
        if isinstance(args[0], (SColl, UList)):
            return args[0]
        seq = self.concrete_seq(args[0])
        if seq is not None:
            return PTuple(seq)
        if isinstance(args[0], PList):
            return PTuple(list(args[0].items))
        return StrOp("tuple", [args[0]])

    def bi_list(self, args, kwargs, node, fr):
        if not args:
            return PList([])
        if isinstance(args[0], (SColl, UList)):
            return args[0]  # a copy of a symbolic collection iterates like the collection
        seq = self.concrete_seq(args[0])
        if seq is not None:
            return PList(seq)
        if isinstance(args[0], PList):
            return PList(list(args[0].items))
        return PList([Splice(args[0])])

    def bi_set(self, args, kwargs, node, fr):
        if not args:
            return PSet([])
        seq = self.concrete_seq(args[0])
        if seq is not None:
            return PSet(seq)
        return PSet([Splice(args[0])])

    def bi_dict(self, args, kwargs, node, fr):
        if not args:
            return PDict([(Cst(k), v) for k, v in kwargs.items()])
        raise AnalysisError("dict(...) with arguments")

    def bi_str(self, args, kwargs, node, fr):
        v = args[0]
        if isinstance(v, Cst):
            return Cst(str(v.value))
        if self.is_stringy(v):
            return v
        return StrOp("str", [v])

    def bi_repr(self, args, kwargs, node, fr):
        if isinstance(args[0], Cst):
            return Cst(repr(args[0].value))
        return StrOp("repr", [args[0]])

    def bi_ascii(self, args, kwargs, node, fr):
        if isinstance(args[0], Cst):
            return Cst(ascii(args[0].value))
        return StrOp("ascii", [args[0]])

    def bi_ord(self, args, kwargs, node, fr):
        if isinstance(args[0], Cst):
            return Cst(ord(args[0].value))
        return StrOp("ord", [args[0]])

    def bi_chr(self, args, kwargs, node, fr):
        if isinstance(args[0], Cst):
            return Cst(chr(args[0].value))
        return StrOp("chr", [args[0]])

    def bi_any(self, args, kwargs, node, fr):
        return Cst(self._anyall(args[0], True))

    def bi_all(self, args, kwargs, node, fr):
        return Cst(self._anyall(args[0], False))

    def _anyall(self, v, is_any):
        if isinstance(v, StrOp) and v.op == "children":
            h = self.has_children(v.args[0])
            return h if is_any else True
        items = v.items if isinstance(v, (PList, PTuple, PSet)) else None
        if items is None:
            return self.decide(f"{'any' if is_any else 'all'}:{self.describe(v)}")
        def flat(xs):
            for x in xs:
                if isinstance(x, Rep):
                    yield from flat(x.items)
                else:
                    yield x

        for i in items:
            vals = list(flat([i]))
            for x in vals:
                if isinstance(x, Splice):
                    raise AnalysisError("any/all over a spliced list")
                t = self.truth(x)
                if is_any and t:
                    return True
                if not is_any and not t:
                    return False
        return not is_any

    def bi_print(self, args, kwargs, node, fr):
        self.effects.append({"kind": "print", "site": self.cur_site})
        return Cst(None)

    def bi_next(self, args, kwargs, node, fr):
        return Unknown(f"next({self.describe(args[0])})")

    def bi_min(self, args, kwargs, node, fr):
        return Unknown("min")

    def bi_max(self, args, kwargs, node, fr):
        return Unknown("max")

    def bi_int(self, args, kwargs, node, fr):
        if args and isinstance(args[0], Cst):
            return Cst(int(args[0].value))
        return Unknown("int")

    def bi_bool(self, args, kwargs, node, fr):
        return Cst(self.truth(args[0]))

    def bi_id(self, args, kwargs, node, fr):
        return Unknown("id")

    def bi_sorted(self, args, kwargs, node, fr):
        seq = self.concrete_seq(args[0])
        if seq is not None and all(isinstance(i, Cst) for i in seq):
            return PList(sorted(seq, key=lambda c: c.value))
        if seq is not None and len(seq) <= 1:
            return PList(list(seq))
        return StrOp("sorted", [args[0]])

    def bi_callable(self, args, kwargs, node, fr):
        return Cst(isinstance(args[0], (Func, RepoCls, AstCls, Ext, BoundBuiltin)))

    # -------------------------------------- methods of builtin-typed values
    def call_bound(self, bb: BoundBuiltin, args, kwargs, node, fr):
        recv, name = bb.recv, bb.name
        if isinstance(recv, PList):
            return self.list_method(recv, name, args, node, fr)
        if isinstance(recv, SColl):
            return self.scoll_method(recv, name, args, node, fr)
        if isinstance(recv, PDict):
            return self.dict_method(recv, name, args, kwargs, node)
        if isinstance(recv, PSet):
            if name == "add":
                if recv.shared:
                    self.effects.append({"kind": "shared-write", "target": "set", "site": self.cur_site})
                recv.items.append(args[0])
                return Cst(None)
            if name == "update":
                seq = self.concrete_seq(args[0])
                recv.items.extend(seq if seq is not None else [Splice(args[0])])
                return Cst(None)
        if isinstance(recv, UList):
            if name in ("copy",):
                return recv
            if name in MUTATORS:
                self.effects.append({"kind": "user-tree-write", "target": f"{recv.path()}.{name}()", "site": self.cur_site})
                return Cst(None)
        if self.is_stringy(recv) or isinstance(recv, (Cst, UPrim)):
            return self.str_method(recv, name, args, kwargs, node)
        if isinstance(recv, Gen):
            raise AnalysisError(f"generator method {name}")
        if isinstance(recv, PTuple):
            if name == "index" or name == "count":
                return Unknown(name)
        raise AnalysisError(f"method {name} of {recv!r} at {self.cur_site}")

    def list_method(self, lst: PList, name, args, node, fr):
        if lst.shared and name in MUTATORS:
            self.effects.append({"kind": "shared-write", "target": "list", "site": self.cur_site})
        if lst.sym_elem_of and name in MUTATORS:
            self.effects.append({
                "kind": "elem-" + name, "target": lst.sym_elem_of, "value": args[-1] if args else None,
                "site": self.cur_site, "rep": list(self.rep_stack), "phase": self.phase,
            })
            return Cst(None)
        if name == "append":
            lst.items.append(args[0])
            self.log_append(lst, args[0])
            return Cst(None)
        if name == "extend":
            seq = self.concrete_seq(args[0])
            if seq is not None:
                for i in seq:
                    lst.items.append(i)
                    self.log_append(lst, i)
            elif isinstance(args[0], PList) and not args[0].sym_elem_of:
                for i in args[0].items:
                    lst.items.append(i)
                    self.log_append(lst, i)
            else:
                item = Splice(args[0])
                lst.items.append(item)
                self.log_append(lst, item)
            return Cst(None)
        if name == "insert":
            idx = args[0]
            if isinstance(idx, Cst) and isinstance(idx.value, int):
                i = idx.value
                prefix_ok = all(not isinstance(x, (Rep, Splice)) for x in lst.items[:i]) if i >= 0 else False
                if i == 0 or prefix_ok:
                    lst.items.insert(i, args[1])
                    self.log_append(lst, args[1], front=True)
                    return Cst(None)
            if isinstance(idx, Sym):
                item = TNode("$InsertAt", {"index": idx, "value": args[1]}, self.cur_site)
                lst.items.append(item)
                self.log_append(lst, item)
                return Cst(None)
            raise AnalysisError(f"list.insert at a position that is not modelled ({idx!r}) at {self.cur_site}")
        if name == "pop":
            if not args and lst.items and not isinstance(lst.items[-1], (Rep, Splice)):
                return lst.items.pop()
            if args and isinstance(args[0], Cst) and args[0].value == 0 and lst.items and not isinstance(lst.items[0], (Rep, Splice)):
                return lst.items.pop(0)
            raise AnalysisError(f"list.pop on a symbolic list at {self.cur_site}")
        if name == "copy":
            return PList(list(lst.items))
        if name == "index" or name == "count":
            return Unknown(f"list.{name}")
        if name == "reverse":
            if self.concrete_seq(lst) is not None:
                lst.items.reverse()
                return Cst(None)
            if all(isinstance(i, Rep) or not isinstance(i, Splice) for i in lst.items) and not lst.shared:
                # a list with symbolic runs: the runs change places and each is walked backwards
                new_items = []
                for i in reversed(lst.items):
                    if isinstance(i, Rep):
                        over = i.over[len("reversed("):-1] if str(i.over).startswith("reversed(") else f"reversed({i.over})"
                        r = Rep(list(i.items), over, getattr(i, "elem", None))
                        r.filtered = getattr(i, "filtered", False)
                        new_items.append(r)
                    else:
                        new_items.append(i)
                lst.items[:] = new_items
                return Cst(None)
        raise AnalysisError(f"list.{name} at {self.cur_site}")

    def scoll_method(self, sc: SColl, name, args, node, fr):
        if name in MUTATORS:
            self.effects.append({
                "kind": name, "target": sc.desc, "obj": sc.obj.tag, "attr": sc.attr,
                "value": args[-1] if args else None, "args": list(args), "site": self.cur_site,
                "rep": list(self.rep_stack), "phase": self.phase, "after_yields": len(self.yields),
            })
        if name == "append":
            sc.known.append(args[0])
            return Cst(None)
        if name == "pop":
            if sc.known:
                return sc.known.pop()
            sc.popped += 1
            return self.scoll_elem(sc, f"pop{sc.popped}")
        if name in ("add", "update", "extend", "insert", "clear", "discard", "remove", "setdefault", "difference_update", "intersection_update", "symmetric_difference_update", "sort", "reverse"):
            return Cst(None)
        if name == "get":
            # dict.get(key[, default]): the default when the key is absent (the same question as
            # `key in collection`, asked under the same decision key), the element otherwise
            if not self.decide(f"in:{self.describe(args[0])}:{sc.desc}"):
                return args[1] if len(args) > 1 else Cst(None)
            return self.scoll_elem(sc, self.describe(args[0]))
        if name in ("items", "values", "keys", "copy"):
            return sc
        raise AnalysisError(f"method {name} of volatile collection {sc.desc}")

    def dict_method(self, d: PDict, name, args, kwargs, node):
        if name == "get":
            key = args[0]
            default = args[1] if len(args) > 1 else Cst(None)
            if isinstance(key, TypeOf):
                u = key.node
                kinds = sorted(u.kinds)
                k = kinds[0] if len(kinds) == 1 else self.decide(f"kind:{u.path()}", kinds)
                u.kinds = frozenset([k])
                for kk, v in d.pairs:
                    if isinstance(kk, AstCls) and kk.cls.__name__ == k:
                        return v
                return default
            for k, v in d.pairs:
                if self.equal(key, k):
                    return v
            return default
        if name == "items":
            return PList([PTuple([k, v]) for k, v in d.pairs] + list(d.sym))
        if name == "keys":
            return PList([k for k, _ in d.pairs] + [Rep([r.items[0].items[0]], r.over, r.elem) for r in d.sym])
        if name == "values":
            return PList([v for _, v in d.pairs] + [Rep([r.items[0].items[1]], r.over, r.elem) for r in d.sym])
        if name == "pop" and args and isinstance(args[0], Cst):
            if d.shared:
                self.effects.append({"kind": "shared-write", "target": "dict", "site": self.cur_site})
            for i, (k, v) in enumerate(d.pairs):
                if isinstance(k, Cst) and k.value == args[0].value:
                    del d.pairs[i]
                    return v
            for r in d.sym:
                # "the" entry of the symbolic part that has this key, if there is one
                if self.decide(f"haskey:{r.over}:{args[0].value!r}"):
                    return r.items[0].items[1]
            if len(args) > 1:
                return args[1]
            from .interp_base import Raised

            raise Raised("KeyError", repr(args[0].value), self.cur_site)
        if name in ("update", "setdefault", "pop", "clear", "popitem"):
            if d.shared:
                self.effects.append({"kind": "shared-write", "target": "dict", "site": self.cur_site})
            if name == "update" and args and isinstance(args[0], PDict):
                for k, v in args[0].pairs:
                    self.setitem(d, k, v, node)
                return Cst(None)
            raise AnalysisError(f"dict.{name} at {self.cur_site}")
        raise AnalysisError(f"dict.{name} at {self.cur_site}")

    def str_method(self, recv, name, args, kwargs, node):
        if isinstance(recv, Cst) and all(isinstance(a, Cst) for a in args) and isinstance(recv.value, str):
            try:
                return self.to_value(getattr(recv.value, name)(*[a.value for a in args]))
            except Exception:
                pass
        if name == "join":
            seq = args[0]
            if isinstance(seq, (PList, PTuple)):
                parts = []
                first = True
                for i in seq.items:
                    if not first:
                        parts.append(recv)
                    first = False
                    if isinstance(i, Rep):
                        parts.append(StrOp("joinrep", [recv, i]))
                    elif isinstance(i, Splice):
                        parts.append(StrOp("joinsplice", [recv, i.v]))
                    else:
                        parts.append(i)
                s = Str(parts)
                s.join_of = seq
                s.sep = recv
                return s
            return StrOp("join", [recv, seq])
        if name == "format":
            if isinstance(recv, Cst) and isinstance(recv.value, str) and not any(isinstance(a, Splice) for a in args):
                # the real field grammar: `{{` / `}}` are literal braces, `{}` / `{0}` take the arguments
                import string

                try:
                    fields = list(string.Formatter().parse(recv.value))
                except ValueError:
                    fields = None
                if fields is not None and all(f[2] in (None, "") and f[3] is None for f in fields):
                    parts, auto, ok = [], 0, True
                    for lit, fname, _spec, _conv in fields:
                        if lit:
                            parts.append(lit)
                        if fname is None:
                            continue
                        if fname == "":
                            idx = auto
                            auto += 1
                        elif fname.isdigit():
                            idx = int(fname)
                        else:
                            ok = False
                            break
                        if idx >= len(args):
                            ok = False
                            break
                        parts.append(args[idx])
                    if ok:
                        return Str(parts)
            return StrOp("format", [recv] + list(args))
        if name in ("isdigit", "isidentifier", "startswith", "endswith", "isalnum", "isalpha", "isspace", "isnumeric", "isdecimal"):
            argd = ",".join(repr(a.value) if isinstance(a, Cst) else self.describe(a) for a in args)
            key = f"{name}({argd})"
            facts = getattr(recv, "facts", None)
            if facts is not None and key in facts:
                return Cst(facts[key])
            res = self.decide(f"str:{self.describe(recv)}.{key}")
            if facts is not None:
                facts[key] = res
            self.str_tests.append((name, recv, argd, res, self.cur_site))
            return Cst(res)
        if name in ("replace", "strip", "lstrip", "rstrip", "lower", "upper", "encode", "decode", "split", "rsplit", "partition", "rpartition", "removeprefix", "removesuffix", "expandtabs", "zfill", "ljust", "rjust", "title", "capitalize"):
            return StrOp(name, [recv] + [a.value if isinstance(a, Cst) else a for a in args])
        if name in ("count", "find", "index", "rfind"):
            return Unknown(f"{self.describe(recv)}.{name}")
        raise AnalysisError(f"str.{name} on {recv!r} at {self.cur_site}")
