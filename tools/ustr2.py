import sys
from olsa.model import get_program
from olsa.ustr import analyse_unparser
from olsa.interp import function_paths
from olsa.vals import Unknown
from olsa.tmpl import show
p=get_program(); U=analyse_unparser(p)
fi=U.mi.functions['get_unescaped_str']
def mk(it): return [Unknown('string',typ='str'), Unknown('qm',typ='str')], {}, None
for pr in function_paths(p, fi, mk, mode='unparse'):
    print(pr.outcome, pr.ctx()); print('   =>', show(pr.result)[:300])
for k in ('Constant','FormattedValue'):
    for pr in U.paths(k)[:40]:
        print(k, pr.outcome, pr.ctx()[:230]); print('   =>', show(pr.result)[:260] if pr.outcome=='ok' else pr.raised)
