"""olsa - static analysis of /repo (Oneliner-Py) against /verif/properties.jsonl.

    python -m olsa check C03 --tier quick|thorough [--only C03-R3]
    python -m olsa selfcheck
    python -m olsa selftest [--jobs N] [--only m01,m02]
    python -m olsa replay <file>
    python -m olsa all --tier quick
"""
from __future__ import annotations

import argparse
import importlib
import json
import os
import re
import sys

from . import core
from .core import Report, run_guarded

PROPS = [f"C{i:02d}" for i in range(1, 18)]


class Ctx:
    """Lazily built analysis context shared by the rules of one run."""

    def __init__(self, tier: str, repo: str | None = None):
        self.tier = tier
        self.repo = repo or core.REPO
        self._prog = None
        self._cg = None
        self._tmpl = None
        self._ustr = None

    @property
    def prog(self):
        if self._prog is None:
            from .model import get_program

            self._prog = get_program(self.repo)
        return self._prog

    @property
    def cg(self):
        if self._cg is None:
            from .model import CallGraph

            self._cg = CallGraph(self.prog)
        return self._cg

    @property
    def tmpl(self):
        """Templates of all builder entries (engine T)."""
        if self._tmpl is None:
            from .extract import extract_all

            self._tmpl = extract_all(self.prog, self.tier)
        return self._tmpl

    @property
    def ustr(self):
        if self._ustr is None:
            from .ustr import analyse_unparser

            self._ustr = analyse_unparser(self.prog)
        return self._ustr


def _failed_kinds(ctx):
    kinds = set()
    for key in ctx.tmpl.errors:
        # pending:<Class>:<Kind,Kind>
        parts = key.split(":")
        if len(parts) >= 3:
            kinds |= set(parts[2].split(","))
            kinds.add(parts[1])
    return kinds


# rules that read the call graph / the syntax tree, not the extracted statement templates: a template that
# could not be extracted takes nothing away from them
_NOT_TEMPLATE_RULES = {
    "C17-R1", "C17-R2", "C17-R5", "C10-R1", "C10-R3", "C10-R4", "C10-R5", "C16-R1", "C16-R2", "C16-R3", "C16-R4",
    "C08-R1", "C08-R2", "C15-R3", "C15-R5", "C06-R4", "C06-R10", "C06-R11",
}


def _mentions_kind(key, kinds):
    parts = key.split("|")
    if parts[0] in _NOT_TEMPLATE_RULES:
        return False
    return any(k in parts or any(p.split(".")[0] == k for p in parts) for k in kinds)


def check(prop: str, tier: str, only: str | None = None, repo: str | None = None) -> int:
    seed = int(os.environ.get("VERIF_SEED", "0") or 0)
    rep = Report(prop, tier, seed)
    mod = importlib.import_module(f"olsa.rules.{prop.lower()}")
    ctx = Ctx(tier, repo)
    rep.explanation = getattr(mod, "EXPLANATION", "")
    rep.assumptions = list(getattr(mod, "ASSUMPTIONS", []))
    # name anchors: the rules of this property (and the engine parts they use) refer to some
    # identifiers of the repository by name; if one of them no longer exists (a rename), nothing
    # may be concluded from name matching: analysis error, no verdict
    from .anchors import missing_anchors

    gone = missing_anchors(f"olsa.rules.{prop.lower()}", ctx.repo)
    blind_all, blind_mods = _blind(gone)
    affected = blind_all or any(_rule_module(rid, f) & blind_mods for rid, f in mod.RULES)
    for a, mods in sorted(gone.items()):
        if not affected:
            print(f"NOTE anchor `{a}` (matched by name in {', '.join(m.split('.')[-1] for m in mods[:4])}) no longer exists; no rule of this property depends on it")
            continue
        scope = "no rule was evaluated" if blind_all else f"the rules of {', '.join(sorted(m.split('.')[-1] for m in mods))} were not evaluated"
        rep.analysis_errors.append(f"anchor `{a}` no longer exists in the repository (renamed or removed?); it is matched by name in {', '.join(m.split('.')[-1] for m in mods[:4])}: {scope}")
    if blind_all:
        rep.extra["files_analysed"] = list(ctx.prog.files)
        return rep.finish()
    for a, mods in sorted(missing_anchors(f"olsa.rules.{prop.lower()}", ctx.repo, soft=True).items()):
        print(f"NOTE table entry `{a}` (used by {', '.join(m.split('.')[-1] for m in mods[:4])}) is no longer in the repository: the rules judge what that changes")
    for rule_id, fn in mod.RULES:
        if only and rule_id != only:
            continue
        if _rule_module(rule_id, fn) & blind_mods:
            continue
        try:
            rr = fn(ctx)
        except core.AnalysisError as e:
            rep.analysis_errors.append(f"{rule_id}: {e}")
            continue
        except Exception:
            import traceback

            traceback.print_exc()
            rep.analysis_errors.append(f"{rule_id}: internal error in the analyser ({traceback.format_exc().strip().splitlines()[-1][:200]})")
            continue
        if rr is None:
            continue
        for r in rr if isinstance(rr, list) else [rr]:
            if _rule_module(r.rule, None) & blind_mods:
                continue
            rep.add(r)
    if ctx._tmpl is not None:
        for key, msg in ctx.tmpl.errors.items():
            rep.analysis_errors.append(f"template {key} could not be extracted ({msg}): the rules were evaluated on the other templates only")
        # nothing is concluded about a statement kind whose template is missing ("never read", "no
        # check", ... would be artefacts of the empty path set)
        bad_kinds = _failed_kinds(ctx)
        for rr in rep.results:
            kept = []
            for f in rr.findings:
                if _mentions_kind(f.key, bad_kinds):
                    rep.analysis_errors.append(f"{f.rule}: verdict `{f.key}` dropped (its template could not be extracted)")
                else:
                    kept.append(f)
            rr.findings = kept
    rep.extra["files_analysed"] = list(ctx.prog.files)
    rep.extra["source_digest"] = ctx.prog.digest()[:16]
    if ctx._cg is not None:
        rep.extra["functions_analysed"] = len(ctx.cg.funcs)
    if ctx._tmpl is not None:
        rep.extra.update(ctx.tmpl.stats())
    if tier == "thorough" and not only:
        # self-test of this property's rules on scratch variants of the repository
        from . import selftest

        rc2 = selftest.run_selftest(prop=prop, jobs=16, quiet=True)
        rep.extra["selftest"] = dict(selftest.LAST_SUMMARY)
        if rc2 != 0:
            rep.analysis_errors.append("self-test of the rules failed: a mutant/seeded change was missed or an equivalent variant raised an alarm (see the [selftest] lines)")
    return rep.finish()


def probe(prop):
    """Print the finding keys of one property on OLSA_REPO that known_findings.json does not
    list (used by the self-test on scratch variants; writes no evidence)."""
    import traceback

    mod = importlib.import_module(f"olsa.rules.{prop.lower()}")
    ctx = Ctx("quick")
    known = {k["key"] for k in core.load_known()["known"]}
    new, errs = [], []
    from .anchors import missing_anchors

    gone = missing_anchors(f"olsa.rules.{prop.lower()}", ctx.repo)
    blind_all, blind_mods = _blind(gone)
    if blind_all or any(_rule_module(rid, f) & blind_mods for rid, f in mod.RULES):
        errs += [f"anchor {a} vanished (used by {','.join(m.split('.')[-1] for m in mods[:3])})" for a, mods in sorted(gone.items())]
    if blind_all:
        print(json.dumps({"new": [], "analysis_errors": errs}))
        return 0
    for rule_id, fn in mod.RULES:
        if _rule_module(rule_id, fn) & blind_mods:
            continue
        try:
            rr = fn(ctx)
        except core.AnalysisError as e:
            errs.append(f"{rule_id}: {e}")
            continue
        except Exception:
            errs.append(f"{rule_id}: internal error {traceback.format_exc()[-300:]}")
            continue
        for r in rr if isinstance(rr, list) else ([rr] if rr is not None else []):
            if _rule_module(r.rule, None) & blind_mods:
                continue
            if r.instances < r.floor:
                errs.append(f"{r.rule}: {r.instances} instances < floor {r.floor}")
            for f in r.findings:
                if f.key not in known:
                    new.append(f.key)
    if ctx._tmpl is not None:
        for key, msg in ctx.tmpl.errors.items():
            errs.append(f"template {key}: {msg}")
        bad_kinds = _failed_kinds(ctx)
        dropped = [k for k in new if _mentions_kind(k, bad_kinds)]
        new = [k for k in new if k not in dropped]
        errs += [f"verdict {k} dropped (template missing)" for k in dropped]
    print(json.dumps({"new": new, "analysis_errors": errs}))
    return 0


def _blind(gone):
    """A vanished hard anchor blinds the analyser modules that match it by name: everything when an
    engine module is among them, otherwise only the rules owned by those rule modules."""
    mods = {m for ms in gone.values() for m in ms}
    rule_mods = {m for m in mods if re.fullmatch(r"olsa\.rules\.c\d\d", m)}
    return bool(mods - rule_mods), rule_mods


def _rule_module(rule_id, fn):
    """The rule modules a rule belongs to: by its id (C14-R5 -> c14) and by where it is defined."""
    out = set()
    m = re.match(r"C(\d\d)", rule_id or "")
    if m:
        out.add(f"olsa.rules.c{m.group(1)}")
    if fn is not None and re.fullmatch(r"olsa\.rules\.c\d\d", getattr(fn, "__module__", "") or ""):
        pass  # a wrapper defined in the property's own module: the id decides
    return out


def main(argv=None):
    ap = argparse.ArgumentParser(prog="olsa")
    sub = ap.add_subparsers(dest="cmd", required=True)
    c = sub.add_parser("check")
    c.add_argument("prop")
    c.add_argument("--tier", default=os.environ.get("VERIF_TIER", "quick"), choices=["quick", "thorough"])
    c.add_argument("--only")
    c.add_argument("--repo")
    a = sub.add_parser("all")
    a.add_argument("--tier", default="quick")
    sub.add_parser("selfcheck")
    st = sub.add_parser("selftest")
    st.add_argument("--jobs", type=int, default=16)
    st.add_argument("--only")
    st.add_argument("--prop")
    pb = sub.add_parser("probe")
    pb.add_argument("prop")
    r = sub.add_parser("replay")
    r.add_argument("file")
    args = ap.parse_args(argv)

    if args.cmd == "check":
        return run_guarded(lambda: check(args.prop, args.tier, args.only, args.repo))
    if args.cmd == "all":
        rc = 0
        for p in PROPS:
            try:
                importlib.import_module(f"olsa.rules.{p.lower()}")
            except ModuleNotFoundError:
                continue
            print(f"===== {p}")
            rc = max(rc, run_guarded(lambda: check(p, args.tier)))
        return rc
    if args.cmd == "selfcheck":
        from .selfcheck import selfcheck

        return run_guarded(selfcheck)
    if args.cmd == "selftest":
        from .selftest import run_selftest

        return run_guarded(lambda: run_selftest(prop=args.prop, jobs=args.jobs, only=args.only))
    if args.cmd == "probe":
        return probe(args.prop)
    if args.cmd == "replay":
        with open(args.file) as f:
            d = json.load(f)
        print(json.dumps(d, indent=1))
        return run_guarded(lambda: check(d["property"], "quick", d.get("rule")))


if __name__ == "__main__":
    sys.exit(main())
