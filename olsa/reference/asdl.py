"""ASDL signatures of every `ast` node kind, read from the stdlib docstrings of
the analysing interpreter (stdlib metadata, not repository code), plus a frozen
copy of the Python 3.8 ASDL (Parser/Python.asdl of 3.8) for C15-R4.
"""
from __future__ import annotations

import ast
import re

_SIG = re.compile(r"^(\w+)\((.*)\)$", re.S)


def _parse_doc(cls):
    doc = (cls.__doc__ or "").strip()
    out = {}
    # docstrings of sum types list all alternatives separated by '|'; the
    # concrete class docstring is `Name(type field, ...)`
    m = _SIG.match(" ".join(doc.split()))
    if not m or m.group(1) != cls.__name__:
        return {f: ("?", "") for f in getattr(cls, "_fields", ())}
    body = m.group(2).strip()
    if not body:
        return {}
    for part in body.split(","):
        part = part.strip()
        t, name = part.rsplit(" ", 1)
        q = ""
        if t.endswith("*"):
            t, q = t[:-1], "*"
        elif t.endswith("?"):
            t, q = t[:-1], "?"
        out[name] = (t, q)
    return out


def concrete_subclasses(base):
    out = []
    for c in base.__subclasses__():
        subs = c.__subclasses__()
        # deprecated aliases (Num, Str, ...) subclass Constant: skip them
        if base is ast.expr and c.__name__ in ("Num", "Str", "Bytes", "NameConstant", "Ellipsis"):
            continue
        out.append(c)
    return out


SUM_TYPES = {
    "expr": ast.expr,
    "stmt": ast.stmt,
    "operator": ast.operator,
    "boolop": ast.boolop,
    "unaryop": ast.unaryop,
    "cmpop": ast.cmpop,
    "expr_context": ast.expr_context,
    "mod": ast.mod,
}
if hasattr(ast, "pattern"):
    SUM_TYPES["pattern"] = ast.pattern
if hasattr(ast, "type_param"):
    SUM_TYPES["type_param"] = ast.type_param

PRODUCT_TYPES = {
    n: getattr(ast, n)
    for n in ("comprehension", "arguments", "arg", "keyword", "alias", "withitem", "match_case", "excepthandler", "type_ignore")
    if hasattr(ast, n)
}

PRIMITIVE = {"identifier", "int", "string", "constant", "object"}

EXPR_KINDS = tuple(
    c.__name__ for c in ast.expr.__subclasses__()
    if c.__name__ not in ("Num", "Str", "Bytes", "NameConstant", "Ellipsis")
)
STMT_KINDS = tuple(c.__name__ for c in ast.stmt.__subclasses__())
OPERATOR_KINDS = tuple(c.__name__ for c in ast.operator.__subclasses__())
BOOLOP_KINDS = tuple(c.__name__ for c in ast.boolop.__subclasses__())
UNARYOP_KINDS = tuple(c.__name__ for c in ast.unaryop.__subclasses__())
CMPOP_KINDS = tuple(c.__name__ for c in ast.cmpop.__subclasses__())

FIELDS: dict[str, dict[str, tuple[str, str]]] = {}
for _name in dir(ast):
    _c = getattr(ast, _name)
    if isinstance(_c, type) and issubclass(_c, ast.AST) and _c is not ast.AST:
        if _c.__name__ != _name:
            continue
        FIELDS[_name] = _parse_doc(_c)


def kinds_of_type(t: str) -> tuple[str, ...]:
    """Concrete node kinds of an ASDL type name."""
    if t in SUM_TYPES:
        return tuple(
            c.__name__ for c in SUM_TYPES[t].__subclasses__()
            if c.__name__ not in ("Num", "Str", "Bytes", "NameConstant", "Ellipsis")
        )
    if t in PRODUCT_TYPES:
        return (t,)
    return ()


def field_info(kind: str, field: str):
    """-> (asdl type, quantifier) or None."""
    return FIELDS.get(kind, {}).get(field)


def is_subkind(kind: str, base: str) -> bool:
    c = getattr(ast, kind, None)
    b = getattr(ast, base, None)
    return isinstance(c, type) and isinstance(b, type) and issubclass(c, b)


# fields without run-time meaning (Language Reference / ast docs)
NO_RUNTIME_MEANING = {
    "ctx": "expression context is implied by position",
    "type_comment": "comment",
    "kind": "u-prefix marker of a string constant",
    "annotation": "metadata, excluded by C01/C11",
    "returns": "metadata, excluded by C01/C11",
    "lineno": "position",
    "col_offset": "position",
    "end_lineno": "position",
    "end_col_offset": "position",
    "type_ignores": "comment",
}

# Python 3.8 abstract grammar (Parser/Python.asdl, v3.8), expression and
# statement kinds with their fields; used for the template floor (C15-R4).
ASDL_38 = {
    "BoolOp": ("op", "values"), "NamedExpr": ("target", "value"), "BinOp": ("left", "op", "right"),
    "UnaryOp": ("op", "operand"), "Lambda": ("args", "body"), "IfExp": ("test", "body", "orelse"),
    "Dict": ("keys", "values"), "Set": ("elts",), "ListComp": ("elt", "generators"),
    "SetComp": ("elt", "generators"), "DictComp": ("key", "value", "generators"),
    "GeneratorExp": ("elt", "generators"), "Await": ("value",), "Yield": ("value",),
    "YieldFrom": ("value",), "Compare": ("left", "ops", "comparators"),
    "Call": ("func", "args", "keywords"), "FormattedValue": ("value", "conversion", "format_spec"),
    "JoinedStr": ("values",), "Constant": ("value", "kind"), "Attribute": ("value", "attr", "ctx"),
    "Subscript": ("value", "slice", "ctx"), "Starred": ("value", "ctx"), "Name": ("id", "ctx"),
    "List": ("elts", "ctx"), "Tuple": ("elts", "ctx"), "Slice": ("lower", "upper", "step"),
    "comprehension": ("target", "iter", "ifs", "is_async"),
    "arguments": ("posonlyargs", "args", "vararg", "kwonlyargs", "kw_defaults", "kwarg", "defaults"),
    "arg": ("arg", "annotation", "type_comment"), "keyword": ("arg", "value"),
    "Load": (), "Store": (), "Del": (),
    "And": (), "Or": (), "Add": (), "Sub": (), "Mult": (), "MatMult": (), "Div": (), "Mod": (),
    "Pow": (), "LShift": (), "RShift": (), "BitOr": (), "BitXor": (), "BitAnd": (), "FloorDiv": (),
    "Invert": (), "Not": (), "UAdd": (), "USub": (),
    "Eq": (), "NotEq": (), "Lt": (), "LtE": (), "Gt": (), "GtE": (), "Is": (), "IsNot": (), "In": (), "NotIn": (),
}
