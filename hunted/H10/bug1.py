"""bug1: a bytes literal inside a f-string replacement field is refused by unparser='oneliner'.

unparse_Constant() writes bytes with repr(), which always picks the single quote; the f-string around it was
given the single quote too, so unparse_FormattedValue() raises
"SyntaxError: The quotation mark of a f-string is included in a f-string expression".
str constants get the alternating quote (qm), bytes constants do not.
"""
import contextlib
import io
import itertools
import os
import sys

sys.path.insert(0, os.environ["OLREPO"])
import oneliner
from oneliner import Configs

SCRIPTS = [
    'x = b"abc"\nprint(f"{x.startswith(b\'a\')} {b\'k\' in x}")\n',
    "data = b'a,b'\nprint(f'{data.split(b\",\")!r:>20}')\n",
]


def run(src, fn):
    out = io.StringIO()
    with contextlib.redirect_stdout(out):
        fn(src)
    return out.getvalue()


bad = 0
for src in SCRIPTS:
    expected = run(src, lambda s: exec(s, {}))
    for up, ew, ifs in itertools.product(["ast.unparse", "oneliner"], ["list", "chain_call"], ["if_expr", "short_circuit"]):
        c = Configs()
        c.unparser, c.expr_wrapper, c.if_style = up, ew, ifs
        try:
            text = oneliner.convert_code_string(src, configs=c)
            got = run(text, lambda s: eval(s, {}))
            res = "ok" if got == expected and "\n" not in text else "DIFF %r != %r" % (got, expected)
        except Exception as e:  # noqa
            res = "%s: %s" % (type(e).__name__, e)
        if res != "ok":
            bad += 1
            print("%-12s %-10s %-13s %r\n    -> %s" % (up, ew, ifs, src, res))
print("bug1:", "DEFECT PRESENT (%d failing runs)" % bad if bad else "not reproduced")
sys.exit(1 if bad else 0)
