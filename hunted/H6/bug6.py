# Default configuration (unparser="ast.unparse") on a 3.10 / 3.11 host
# (README: "This converter requires python 3.10+"): `convert_code_string` does
# `ast.unparse(out).replace("\n", "")`.  On these hosts `ast.unparse` writes a
# str constant inside an f-string replacement field *without* backslashes, i.e.
# a newline in such a constant is emitted as a real newline inside a
# triple-quoted literal - and the `.replace` silently deletes it:
#
#     x = f'''{"""a
#     b"""}'''
#     print(repr(x))        # 'a\nb'   ->  converted program prints 'ab'
#
# The converted program runs without any error and computes different values.
# (On 3.12+ hosts ast.unparse escapes the newline, so the result depends on the
# converting interpreter.)  This reproducer runs the conversion with the 3.10 /
# 3.11 interpreters found on the machine (and with the current one).
import os, sys, glob, subprocess

CHILD = r'''
import os, sys, io, contextlib
sys.path.insert(0, os.environ["OLREPO"])
import oneliner
SRC = 'x = f\'\'\'{"""a\nb"""}\'\'\'\nprint(repr(x))\n'
def run(code, mode):
    out = io.StringIO()
    with contextlib.redirect_stdout(out):
        (exec if mode == "exec" else eval)(compile(code, "<" + mode + ">", mode), {"__name__": "__main__"})
    return out.getvalue()
expected = run(SRC, "exec")
text = oneliner.convert_code_string(SRC)      # default configuration
got = run(text, "eval")
if got != expected:
    print("host %d.%d: expected %r got %r   text: %r" % (sys.version_info[0], sys.version_info[1], expected, got, text))
    sys.exit(1)
'''

pythons = [sys.executable]
for pat in ("3.10", "3.11"):
    pythons += sorted(glob.glob("/root/.pyenv/versions/%s*/bin/python" % pat))
failed = False
for python in pythons:
    p = subprocess.run([python, "-c", CHILD], capture_output=True, text=True)
    if p.returncode != 0:
        failed = True
        print(python, "->", (p.stdout + p.stderr).strip())
sys.exit(1 if failed else 0)
