"""Template utilities: pretty printer and generic walkers over template values."""
from __future__ import annotations

from .vals import (
    Cst, Fresh, Hole, Lowered, Obj, PDict, PList, PTuple, Rep, Splice, Str, StrOp, SVal, Sym,
    TNode, Transf, UList, UNode, UPrim, Unknown, V,
)


def show(v, depth=0, maxdepth=12) -> str:
    if depth > maxdepth:
        return "..."
    d = depth + 1
    if isinstance(v, TNode):
        if v.kind == "$Load":
            return f"LOAD[{show(v.fields['name'], d)}@{_tag(v.fields['nsp'])}]"
        if v.kind == "$Store":
            return f"STORE[{show(v.fields['name'], d)}@{_tag(v.fields['nsp'])} <- {show(v.fields['value'], d)}]"
        if v.kind == "$Wrap":
            return f"WRAP{show(v.fields['nodes'], d)}"
        fs = ", ".join(f"{k}={show(x, d)}" for k, x in v.fields.items() if k != "ctx")
        return f"{v.kind}({fs})"
    if isinstance(v, Transf):
        return f"X<{show(v.inner, d)}|{_tag(v.nsp)}>"
    if isinstance(v, Lowered):
        g = ""
        if v.guard:
            g = f" guard={show(v.guard.get('counter'), d)}"
        return f"S<{show(v.src, d)}{g}>"
    if isinstance(v, PList):
        return "[" + ", ".join(show_item(i, d) for i in v.items) + "]" + (f"~{v.sym_elem_of}" if v.sym_elem_of else "")
    if isinstance(v, PTuple):
        return "(" + ", ".join(show_item(i, d) for i in v.items) + ")"
    if isinstance(v, PDict):
        return "{" + ", ".join(f"{show(k, d)}: {show(x, d)}" for k, x in v.pairs) + "}"
    if isinstance(v, Cst):
        return repr(v.value)
    if isinstance(v, (UNode, UList, UPrim)):
        return f"U:{v.path()}"
    if isinstance(v, Fresh):
        return f"FRESH({v.const_name})"
    if isinstance(v, Sym):
        return f"<{v.key()}>"
    if isinstance(v, (Unknown, SVal)):
        return f"?{v.desc}"
    if isinstance(v, Obj):
        return f"obj:{v.tag}"
    if isinstance(v, Hole):
        return f"HOLE({show(v.child, d)}@{show(v.prec, d)})"
    if isinstance(v, Str):
        return "STR(" + " ".join(repr(p) if isinstance(p, str) else show(p, d) for p in v.parts) + ")"
    if isinstance(v, StrOp):
        return f"{v.op}(" + ", ".join(show_item(a, d) if not isinstance(a, (str, int, type(None))) else repr(a) for a in v.args) + ")"
    return repr(v)


def _tag(n):
    return getattr(n, "tag", None) or repr(n)


def show_item(i, d=0):
    if isinstance(i, Rep):
        return f"REP<{i.over}>[" + ", ".join(show_item(x, d + 1) for x in i.items) + "]"
    if isinstance(i, Splice):
        return f"*{show(i.v, d)}"
    return show(i, d)
