from p import run
run("_=3\nn=0\nwhile n < _:\n    n+=1\nprint(n)", True, False)
run("class k:\n    x=1\nprint(k.x)", True, False)
run("def f():\n    x=0\n    def g():\n        nonlocal x\n        return (x:=x+1)\n    return g(), x\nprint(f())", True, False)
run("print([0 for *a, *b in [[1,2]]])", True, False)
run("print([a for *a, b in [[1,2]]])", True, False)
run("list=5\na,*b=[1,2]\nprint(a,b)", True, False)
run("def f():\n    class O: pass\n    print('f'); return O()\nf().x += 1 if False else 0", True, False)
run("for x in (y:=[1,2]):\n    print(x)\nprint(y)", True, False)
