"""bug3: converter hosted on Python 3.12+: a comprehension variable of a function
hides the variable of an outer function from the inner functions.

    def h():
        x = 'hx'
        def f():
            ys = [x for x in range(3)]      # comprehension variable x
            def g():
                return x                    # the x of h()
            return g(), ys
        return f()

Since PEP 709 `symtable` reports the variables of an inlined comprehension as
symbols of the enclosing function: on a 3.12 / 3.13 host
`f.symt.lookup('x').is_local()` is true.  NamespaceFunction.__init__
(namespaces.py) walks the enclosing functions to find where the free variable
`x` of g() "was born", stops at f() because of that, and reads
`__ol_nonlocal_<f>['x']` - a key that is never stored -> KeyError: 'x'.
The same script converted by a 3.10 / 3.11 host is right.

The script is valid Python and runs on 3.8 - 3.11.  The CPython 3.12.1 / 3.13.0
installed here mis-handle this very pattern themselves (the original raises
"NameError: cannot access free variable 'x'", a CPython issue of the inlined
comprehensions - the wrong symtable answer is probably the same issue), so the
reproducer converts with the host interpreter and runs the text on 3.8 - 3.11.
It exits 0 on a host < 3.12.
"""

import contextlib
import io
import itertools
import json
import os
import subprocess
import sys
import tempfile

sys.path.insert(0, os.environ["OLREPO"])
import oneliner  # noqa: E402
from oneliner import Configs  # noqa: E402

COMBOS = list(
    itertools.product(
        ["ast.unparse", "oneliner"], ["list", "chain_call"], ["if_expr", "short_circuit"]
    )
)
PYENV = "/root/.pyenv/versions/%s/bin/python"


def convert(src, combo):
    c = Configs()
    c.unparser, c.expr_wrapper, c.if_style = combo
    return oneliner.convert_code_string(src, configs=c)


def run_here(text, mode):
    """exec/eval `text` in a fresh namespace -> (stdout, exception or None)"""
    buf = io.StringIO()
    try:
        with contextlib.redirect_stdout(buf):
            code = compile(text, "<%s>" % mode, mode)
            (exec if mode == "exec" else eval)(code, {"__name__": "__main__"})
        return buf.getvalue(), None
    except BaseException as e:  # noqa
        return buf.getvalue(), "%s: %s" % (type(e).__name__, str(e)[:100])


_RUNNER = """
import sys, io, contextlib, json
mode, path = sys.argv[1], sys.argv[2]
txt = open(path, encoding="utf8").read()
buf = io.StringIO(); exc = None
try:
    with contextlib.redirect_stdout(buf):
        code = compile(txt, "<%s>" % mode, mode)
        (exec if mode == "exec" else eval)(code, {"__name__": "__main__"})
except BaseException as e:
    exc = "%s: %s" % (type(e).__name__, str(e)[:100])
sys.stdout.write(json.dumps([buf.getvalue(), exc]))
"""


def run_on(version, text, mode):
    """same as run_here on another interpreter; None when it is not installed"""
    exe = PYENV % version
    if not os.path.exists(exe):
        return None
    with tempfile.TemporaryDirectory() as d:
        runner = os.path.join(d, "runner.py")
        script = os.path.join(d, "script.txt")
        with open(runner, "w") as f:
            f.write(_RUNNER)
        with open(script, "w", encoding="utf8") as f:
            f.write(text)
        r = subprocess.run([exe, runner, mode, script], capture_output=True, text=True, timeout=300)
    try:
        out, exc = json.loads(r.stdout)
        return out, exc
    except Exception:
        return "", "runner failed: " + r.stderr[-200:]


SCRIPTS = {
    "inner def": (
        "def h():\n"
        "    x = 'hx'\n"
        "    def f():\n"
        "        ys = [x for x in range(3)]\n"
        "        def g():\n"
        "            return x\n"
        "        return g(), ys\n"
        "    return f()\n"
        "print(h())\n"
    ),
    "inner class, dict comprehension, parameter": (
        "def h(x):\n"
        "    def f():\n"
        "        ys = {x: 1 for x in range(3)}\n"
        "        class A:\n"
        "            v = x\n"
        "        return A.v, ys\n"
        "    return f()\n"
        "print(h('px'))\n"
    ),
}

bad = 0
for title, src in SCRIPTS.items():
    texts = {combo: convert(src, combo) for combo in COMBOS}
    for version in ["3.8.18", "3.9.18", "3.10.13", "3.11.7"]:
        expected = run_on(version, src, "exec")
        if expected is None or expected[1] is not None:
            continue
        failing = []
        for combo, text in texts.items():
            observed = run_on(version, text, "eval")
            if observed != expected:
                failing.append(("/".join(combo), observed))
        if failing:
            bad += len(failing)
            print("[%s] host %d.%d, runtime %s: expected %r; %d of 8 option combinations differ, e.g. %s -> %r"
                  % (title, sys.version_info[0], sys.version_info[1], version, expected,
                     len(failing), failing[0][0], failing[0][1]))

print("bug3: %d differing runs" % bad)
sys.exit(1 if bad else 0)
