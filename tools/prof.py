import cProfile, pstats, sys
from olsa.model import get_program
from olsa.interp import pending_paths
p=get_program()
def go():
    n=0
    for pr in pending_paths(p, p.modules['oneliner.pending_nodes'].classes[sys.argv[1]], sys.argv[2].split(',')):
        n+=1
        if n>150: break
cProfile.run('go()','/tmp/prof.out')
pstats.Stats('/tmp/prof.out').sort_stats('cumulative').print_stats(22)
