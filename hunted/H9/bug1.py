"""bug1: `import m` / `import a.b as c` are converted to `importlib.import_module(...)` where `importlib`
is an ordinary script-level global that the converted text binds itself
(`(importlib := __import__('importlib'))` as the first element).  The helper therefore lives in the USER's
name space:
  A. `import importlib` inside a function makes `importlib` a local of the generated lambda, the helper call
     `importlib.import_module('importlib')` then reads that local before it is bound -> UnboundLocalError
  B. the name `importlib` appears in the script's globals (globals()/dir()/vars(module)/`from mod import *`)
  C. a parameter / local variable called `importlib` captures the helper call -> AttributeError
  D. rebinding the global (`import json as importlib`, `importlib = None`) breaks every later `import`
"""
import sys, os, io, itertools, contextlib

sys.path.insert(0, os.environ["OLREPO"])
import oneliner
from oneliner import Configs

SCRIPTS = {
    "A function-local `import importlib`": (
        "def load(name):\n"
        "    import importlib\n"
        "    return importlib.import_module(name)\n"
        "print(load('json').__name__)\n"
    ),
    "B helper leaks into globals": (
        "import json\n"
        "print(sorted(n for n in globals() if not n.startswith('__')))\n"
    ),
    "C parameter named importlib": (
        "def f(importlib):\n"
        "    import json\n"
        "    return json.__name__, importlib\n"
        "print(f(1))\n"
    ),
    "D global importlib rebound by the script": (
        "import json as importlib\n"
        "import string\n"
        "print(importlib.__name__, string.__name__)\n"
    ),
}


def combos():
    for u, w, i in itertools.product(
        ["ast.unparse", "oneliner"], ["list", "chain_call"], ["if_expr", "short_circuit"]
    ):
        c = Configs()
        c.unparser, c.expr_wrapper, c.if_style = u, w, i
        yield (u, w, i), c


def run(kind, text):
    ns = {"__name__": "__main__"}
    out = io.StringIO()
    exc = None
    try:
        with contextlib.redirect_stdout(out):
            if kind == "exec":
                exec(compile(text, "<orig>", "exec"), ns)
            else:
                eval(compile(text.strip(), "<conv>", "eval"), ns)
    except BaseException as e:  # noqa
        exc = "%s: %s" % (type(e).__name__, e)
    names = sorted(k for k in ns if not k.startswith("__"))
    return out.getvalue(), exc, names


bad = 0
for title, src in SCRIPTS.items():
    expected = run("exec", src)
    for name, cfg in combos():
        try:
            text = oneliner.convert_code_string(src, configs=cfg)
        except BaseException as e:  # noqa
            print("[%s] %s: conversion failed: %r" % (title, name, e))
            bad += 1
            continue
        got = run("eval", text)
        if got != expected:
            bad += 1
            print("[%s] %s" % (title, "/".join(name)))
            print("    expected stdout=%r exc=%r globals=%r" % expected)
            print("    observed stdout=%r exc=%r globals=%r" % got)

print("bug1 (helper global `importlib`):", "DEFECT PRESENT in %d script/option pairs" % bad if bad else "not reproduced")
sys.exit(1 if bad else 0)
