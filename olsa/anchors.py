"""Name anchors: identifiers of the repository that analyser modules match by name."""
from __future__ import annotations

import ast
import json
import os
import re

_HERE = os.path.dirname(os.path.abspath(__file__))


def _collect(node, in_func, names, strings=None):
    """Local variables of functions are not anchors: no analyser matches them by name, and renaming
    one is an everyday behaviour-preserving edit."""
    for n in ast.iter_child_nodes(node):
        if isinstance(n, (ast.FunctionDef, ast.AsyncFunctionDef, ast.ClassDef)):
            names.add(n.name)
            if not isinstance(n, ast.ClassDef):
                a = n.args
                for p in a.posonlyargs + a.args + a.kwonlyargs + ([a.vararg] if a.vararg else []) + ([a.kwarg] if a.kwarg else []):
                    names.add(p.arg)
            _collect(n, in_func or not isinstance(n, ast.ClassDef), names, strings)
            continue
        if isinstance(n, ast.Attribute) and isinstance(n.ctx, ast.Store):
            names.add(n.attr)
        elif isinstance(n, ast.Name) and isinstance(n.ctx, ast.Store):
            if not in_func:
                names.add(n.id)
        elif isinstance(n, ast.AnnAssign) and isinstance(n.target, ast.Attribute):
            names.add(n.target.attr)
        elif isinstance(n, ast.Constant) and isinstance(n.value, str) and re.fullmatch(r"_?[a-z][a-z0-9_]{2,}", n.value):
            # attribute names used through setattr()/the generated wrapper class ('_break', ...)
            if strings is not None:
                strings.add(n.value)
            else:
                names.add(n.value)
        _collect(n, in_func, names, strings)


def repo_names(repo, split=False):
    """Every attribute / method / function / class / module-level name defined under <repo>/oneliner
    (and short string constants: attribute names used through strings, table entries).  With split=True
    returns (identifiers, strings that are not also identifiers)."""
    names = set()
    strings = set() if split else None
    base = os.path.join(repo, "oneliner")
    for root, _d, files in os.walk(base):
        for f in files:
            if not f.endswith(".py"):
                continue
            try:
                tree = ast.parse(open(os.path.join(root, f), encoding="utf8").read())
            except SyntaxError:
                continue
            names.add(f[:-3])
            _collect(tree, False, names, strings)
    if split:
        return names, strings - names
    return names


def modules_used_by(mod_name):
    """Analyser modules a rules module depends on (its own imports inside the package, transitively)."""
    seen = set()
    todo = [mod_name]
    while todo:
        m = todo.pop()
        if m in seen:
            continue
        seen.add(m)
        p = os.path.join(os.path.dirname(_HERE), *m.split(".")) + ".py"
        if not os.path.exists(p):
            continue
        tree = ast.parse(open(p).read())
        pkg = m.rsplit(".", 1)[0]
        for n in ast.walk(tree):
            if isinstance(n, ast.Constant) and isinstance(n.value, str) and re.fullmatch(r"c\d\d", n.value) and ".rules." in m:
                todo.append(f"olsa.rules.{n.value}")  # rule modules imported by name (importlib)
            if isinstance(n, ast.ImportFrom) and n.level:
                base = pkg.split(".")
                if n.level > 1:
                    base = base[: -(n.level - 1)]
                target = ".".join(base + ([n.module] if n.module else []))
                if n.module:
                    todo.append(target)
                for a in n.names:
                    todo.append(target + "." + a.name)
    return {m for m in seen if m.startswith("olsa.")}


def missing_anchors(mod_name, repo, soft=False):
    """{anchor name: [analyser modules that rely on it]} for anchors that no longer exist in the repository.
    Hard anchors are identifiers (a rename leaves name-matching rules blind: no rule is evaluated).
    Soft anchors ("~name" in the table) are DATA of the repository - entries of its string tables such as
    'genexpr', 'utf8', 'itertools' - whose disappearance is a change of behaviour the rules must judge:
    they are reported as a note, the rules run."""
    try:
        table = json.load(open(os.path.join(_HERE, "anchors.json")))
    except FileNotFoundError:
        return {}
    have = repo_names(repo)
    out = {}
    for m in sorted(modules_used_by(mod_name)):
        for a in table.get(m, []):
            soft_a = a.startswith("~")
            if soft_a != soft:
                continue
            if a.lstrip("~") not in have:
                out.setdefault(a.lstrip("~"), []).append(m)
    return out
