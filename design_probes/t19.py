import ast, sys, os
sys.path.insert(0, os.environ['OLREPO'])
from oneliner.expr_unparse import expr_unparse
for s in ["f'{x}\\n'", "f'''{x[\"é\"]}'''", "f'hello{0}fmt\\''", "f'{x:\\n>{w}}'", "f'a{x!r}b\\t{y}'"]:
    try:
        t=ast.parse(s,mode='eval').body
        o=expr_unparse(t); print(sys.version_info[:2], s,'->',o, ast.dump(ast.parse(o,mode='eval').body)==ast.dump(t))
    except SyntaxError as e: print(sys.version_info[:2], s,'-> SyntaxError',e)
