"""Maintenance tool: print the rule inventory (markdown): every rule once, with the properties whose
check evaluates it, what it decides, instances matched on the current tree (floor confirmed by
hand), obligations and how many of its findings are recorded as known."""
import importlib, os, sys
sys.path.insert(0, os.path.dirname(os.path.dirname(os.path.abspath(__file__))))
from olsa import core  # noqa: E402
from olsa.__main__ import PROPS, Ctx  # noqa: E402

ctx = Ctx("quick")
known = {k["key"] for k in core.load_known()["known"]}
rows = {}
for p in PROPS:
    mod = importlib.import_module(f"olsa.rules.{p.lower()}")
    for rid, fn in mod.RULES:
        try:
            rr = fn(ctx)
        except core.AnalysisError as e:
            rows.setdefault(rid, {"title": f"ANALYSIS-ERROR {e}", "props": [], "inst": 0, "floor": 0, "obl": 0, "known": 0})["props"].append(p)
            continue
        for r in rr if isinstance(rr, list) else [rr]:
            d = rows.setdefault(r.rule, {"title": r.title, "props": [], "inst": r.instances, "floor": r.floor, "obl": r.obligations, "known": sum(1 for f in r.findings if f.key in known)})
            if p not in d["props"]:
                d["props"].append(p)
print("| rule | what it decides | run by | instances (floor) | obligations | known findings |")
print("|---|---|---|---|---|---|")
for rid in sorted(rows):
    d = rows[rid]
    own = rid[:3]
    props = sorted(d["props"], key=lambda x: (x != own, x))
    print(f"| {rid} | {d['title']} | {', '.join(props)} | {d['inst']} ({d['floor']}) | {d['obl']} | {d['known'] or ''} |")
