"""Maintenance tool (NOT run by any check): regenerate /verif/known_findings.json from
the findings the rules report on the current /repo tree, each mapped to a row of
DESIGN.md section 6 (the genuine defect with its reproducer).  A finding that maps
to no row is printed and NOT written: it is either a new genuine defect to triage
or a false alarm to fix in the machinery.  `fixed` entries are kept from the
existing file (they suppress nothing)."""
import importlib
import json
import os
import re
import sys

sys.path.insert(0, os.path.dirname(os.path.dirname(os.path.abspath(__file__))))
from olsa import core  # noqa: E402
from olsa.__main__ import PROPS, Ctx  # noqa: E402

ROWS = [
    # (row, key regex, reproducer -> observed, disposition)
    (1, r"^C10-R1\|Cfg\.__set__", "c=Configs(); c.unparser='oneliner'; convert_code_string('a=1+2') -> '(a:=1+2)' (another object's option is used)", "fix 0001"),
    (2, r"^C16-R3\|__main__\|accepted-names", "python -m oneliner f.py -C config_names=x -> exit 0", "fix 0002"),
    (3, r"^C0[28]-R[34]\|(Yield|YieldFrom|Await)\|accepted|^C0[28]-R[34]\|\w+Comp\|async|^C0[28]-R[34]\|GeneratorExp\|async", "def g():\\n yield 1  -> converts to a lambda that is not a generator", "fix 0003"),
    (4, r"^C02-R1\|Import\||^C14-R1\|Import\|", "import os.path -> '(os.path := ...)' (not an expression); KeyError inside a function", "fix 0004"),
    (5, r"^C04-R1\|surrogates", "'\\ud800' -> text that cannot be encoded", "fix 0005"),
    (6, r"^C04-R2\|Constant\|float", "1e999 -> `inf` (a name)", "fix 0006"),
    (7, r"^C04-R3\|FormattedValue\|conversion|^C03-R2\|FormattedValue\|conversion", "f'{x!r}' -> f'{x}'", "fix 0007"),
    (8, r"^C04-R3\|FormattedValue\|field-skeleton", "f'{x:{w}}' -> f'{x:{w} }'", "fix 0008"),
    (9, r"^C03-R4\|Subscript", "a[1:2, 3] -> a[(1:2:,3)] (syntax error)", "fix 0009"),
    (10, r"^C13-R3\|AugAssign\|Name", "x=B(); x+=1 with __iadd__ returning 999 -> x is still the B object", "fix 0010"),
    (11, r"^C06-R1\|(Assign|AnnAssign)\|target\.slice\|raw", "d[k]=1 with k captured by an inner def -> NameError", "fix 0013"),
    (12, r"^C12-R5\|__class_getitem__", "class A:\\n def __class_getitem__(cls, i): ...\\nA[int] -> TypeError", "fix 0011"),
    (13, r"^C07-R1\|Assign\|Assign\.value\|repeated|^C07-R2\|(Assign|AnnAssign)\|\w+\.value\|after", "a = b = f() calls f twice; f().x = print('v') evaluates f() before the value", "fix 0014"),
    (14, r"^C06-R3\|NamespaceFunction|^C06-R4\|", "def a():\\n x=1\\n def b():\\n  nonlocal x; x=2\\n  def c(): return x  -> KeyError 'x'", "fix 0015"),
    (15, r"^(C06-R6|C12-R6|C15-R5)\|globals_used_in_comp", "class A:\\n f = lambda self: 1  -> AttributeError on a 3.12+ host", "fix 0016"),
    (16, r"^C15-R3\|expr_unparse|^C15-R2\|JoinedStr\|backslash", "f'''{x[\"\\xe9\"]}''' on a 3.12 host -> text 3.8-3.11 reject", "fix 0019"),
    (17, r"^C02-R3b\|For\||^C06-R1\|For\|target|^C08-R4\|For\|target", "for i in r: i = i+1 -> 'cannot rebind comprehension iteration variable'; for x in r: pass\\nprint(x) -> NameError; for a,*b,*c in x accepted", "known"),
    (18, r"^C02-R3a\|While\|test", "while (y:=x)<3: ... -> output does not compile", "known"),
    (19, r"^C02-R3a\|For\|iter", "for x in (y:=[1,2]): ... -> output does not compile", "known"),
    (20, r"^C09-R2\|While\||^C02-R3b\|While\|", "_=3; n=0\\nwhile n < _: n+=1\\nprint(n) -> prints 0", "known"),
    (21, r"^C09-R2\|ClassDef\|k,v", "class k: x=1 -> AttributeError", "known"),
    (22, r"^C09-R3\|", "list=5\\na,*b=[1,2] -> TypeError (the output calls the user's `list`)", "known"),
    (23, r"^C06-R2\|Lambda", "x=1; g=lambda x: x+1 with x captured elsewhere -> wrong value", "known"),
    (24, r"^C06-R1\|Lambda\|args\|raw", "h = lambda x=y: x with y in the nonlocal dict -> NameError", "known"),
    (25, r"^C06-R5\|NamespaceClass\|classdict-load", "x='g'\\nclass A:\\n print(x)\\n x='c'  -> KeyError", "known"),
    (26, r"^C06-R3\|NamespaceClass\|store:(classdict|dict)\|load:plain\|GUC", "hosts < 3.12: y=0\\nclass A:\\n y=1\\n f=[y for _ in [1]]\\n print(y)", "known"),
    (27, r"^C06-R7\|", "def f():\\n x=0\\n def g():\\n  nonlocal x\\n  return (x:=x+1)  -> NameError", "known"),
    (28, r"^C07-R1\|AugAssign\|AugAssign\.target\.value\|twice", "f().x += 1 calls f twice", "fix 0017"),
    (29, r"^C07-R2\|AugAssign\|", "a()[i()] += 1 evaluates the index before the object", "fix 0017"),
    (29, r"^C07-R2\|ClassDef\|", "class A(B(), metaclass=K()) evaluates the metaclass before the bases", "known"),
    (30, r"^C08-R5\|ClassDef\|ClassDef\.decorator_list|^C12-R1\|ClassDef\|decorators-dropped", "@deco\\nclass A: pass -> decorator not applied, no error", "fix 0018"),
    (31, r"^C17-R[23]\|", "400 consecutive assignments with the default options -> RecursionError (ast.unparse on a tree as deep as the block is long)", "known"),
    # row 32 (re-used quote: bytes in fields, depth 3) became a refusal with fix 16 below (outer quote test)
    (38, r"^C06-R3\|Namespace(Function|Class)\|store:globals\|load:plain\|SHADOW$", "count = 0\\ndef make():\\n count = 10\\n class Counter:\\n  def bump(self):\\n   global count\\n   count += 1\\n   return count\\n return Counter().bump() + count\\nprint(make(), count)  -> prints 20 11 instead of 11 1 (the bare name of a declared-global variable is captured by the enclosing function's lambda)", "known"),
    # row 39 (outermost iterable under the comprehension's own targets) was repaired later: see the fixed lines
    (40, r"^C12-R9\|", "class Csv(Plugin): name = 'csv' with Plugin.__init_subclass__ registering cls.name -> AttributeError; descriptors' __set_name__ never called; class Stack(typing.Generic[T]) -> TypeError (MRO entry resolution); @classmethod def __init_subclass__ -> classmethod(classmethod(f)), TypeError on 3.8/3.13", "known"),
    (41, r"^C14-R6\|", "package pkg with a.py: `from . import b` and b.py: `from . import a` (a legal circular import, run as python -m pkg) -> AttributeError after conversion; `from os import nope` -> AttributeError instead of ImportError", "known"),
    (43, r"^C13-R9\|", "a, b = [1, 2, 3] -> silently binds 1, 2 (Python: ValueError); r, *s = [] -> IndexError instead of ValueError", "known"),
    (44, r"^C15-R8\|", "def report(a):\\n b = 2\\n for i in range(1): print('{a} {b} {i}'.format(**locals()))  -> KeyError 'a' on runtimes 3.8-3.11 (text converted on 3.12)", "known"),
    (45, r"^C17-R6\|", "if_style=short_circuit, unparser=oneliner: an if with 219 elif branches and an else -> MemoryError: Parser stack overflowed (if_expr converts 1000)", "known"),
    (46, r"^C02-R5\|convert_code_string\|newline-removal-inside-literals$", "host 3.10/3.11, default unparser: a triple-quoted f-string whose replacement field holds a triple-quoted constant with a real newline -> the converted program has 'ab' instead of 'a<newline>b' (see hunted/H6/bug6.py)", "known"),
    (47, r"^C13-R10\|", "s = {1, 2}; s &= {1: 0}.keys(); print(s) -> NotImplemented instead of {1}", "known"),
    (48, r"^C15-R9\|", "host 3.12/3.13, default options: d = {'a': 1}; print(f\"{d['a']}\") -> `print(f'{d['a']}')`, SyntaxError on the runtimes 3.8-3.11 (3.10/3.11 hosts emit working text); hunted/H6/bug5.py. Host 3.11+: b = (0,); a = {(0, 1): 5}; print(a[(*b, 1)]) -> `print(a[*b, 1])`, SyntaxError on 3.8-3.10", "known"),
    (49, r"^C04-R4\|_Node\|two-quotes\|depth-3-refused$", "unparser=oneliner: def f():\\n v = 1\\n def g():\\n  return f\"{', '.join(f'{n}={v}' for n in 'ab')}\"\\n return g()  -> SyntaxError 'The quotation mark of a f-string is included in a f-string expression' during conversion (three string levels, two quote characters; triple quotes for the outer levels would do); hunted/H10/bug2.py", "known"),
    (37, r"^C12-R8\|", "class A:\\n __x = 1  /  def f(self): __t = 5  /  def __helper(self) -> KeyError during conversion; self.__x = 1 -> attribute `__x` instead of `_A__x`", "known"),
    (33, r"^C02-R2\|\w+\|[\w.]+\|index-tuple-with-slice", "a[1:2, 3] = 0 -> a.__setitem__((1:2, 3), 0), not an expression", "fix 0012"),
]


def collect():
    out = {}
    ctx = Ctx("quick")
    for p in PROPS:
        try:
            mod = importlib.import_module(f"olsa.rules.{p.lower()}")
        except ModuleNotFoundError:
            continue
        for rid, fn in mod.RULES:
            try:
                rr = fn(ctx)
            except core.AnalysisError as e:
                print("ANALYSIS-ERROR", rid, e)
                continue
            for r in rr if isinstance(rr, list) else [rr]:
                for f in r.findings:
                    d = out.setdefault(f.key, {"props": [], "msg": f.msg})
                    if p not in d["props"]:
                        d["props"].append(p)
    return out


def main():
    found = collect()
    old = {"known": [], "fixed": []}
    if os.path.exists(core.KNOWN_FILE):
        old = json.load(open(core.KNOWN_FILE))
    known = []
    unmapped = []
    for key, d in sorted(found.items()):
        row = None
        for r, rx, repro, disp in ROWS:
            if re.search(rx, key):
                row = (r, repro, disp)
                break
        if row is None:
            unmapped.append((key, d))
            continue
        known.append({
            "key": key, "properties": sorted(d["props"]), "design_row": row[0],
            "what": d["msg"][:400], "reproducer": row[1], "disposition": row[2],
        })
    data = {
        "comment": "Genuine defects of the pinned tree that are recorded rather than repaired (DESIGN.md section 6). "
                   "Keys identify rule + construct; a different violation of the same property is still reported. "
                   "Never written at run time. `fixed` lines suppress nothing.",
        "known": known,
        "fixed": old.get("fixed", []),
    }
    json.dump(data, open(core.KNOWN_FILE, "w"), indent=1)
    print(f"{len(known)} known findings written; {len(unmapped)} unmapped")
    for k, d in unmapped:
        print("UNMAPPED", d["props"], k, "::", d["msg"][:160])


if __name__ == "__main__":
    main()
