from p import run
run("y = 3\nclass A:\n    z = 2\n    f = [y for _ in range(2)]\n    g = lambda self: y\n    k = lambda self: 1\nprint(A.f, A().g(), A().k())", True)
run("class A:\n    f = lambda self, q: q\nprint(A().f(2))", True)
