"""bug7 (low severity): Configs validates only assignments that go through the three descriptors.
 * a misspelt option is accepted silently and has no effect:   cfg.unparsr = "oneliner"
 * Configs(unparser="oneliner") is a TypeError - there is no constructor, no __repr__, no __eq__
   (copy/deepcopy/pickle do work and keep the values), `del cfg.unparser` -> AttributeError: __delete__
 * values that did not pass the descriptor (a subclass that overrides the class attribute, an object
   unpickled from an older/other version, cfg.__dict__) are never checked by the consumers, which are
   written as `if x == A: ... else: ...`: an invalid value silently selects the OTHER branch
   (expr_wrapper="bogus" -> list wrapper although the default is chain_call, unparser="Oneliner" ->
   ast.unparse, if_style="bogus" -> if_expr) instead of raising.
 * Configs.unparser reads like a plain class attribute (returns the default string); assigning it at
   class level replaces the descriptor and silently switches validation off for the whole process.
Exit 1 while a misspelt name or an invalid value is accepted silently."""
import os
import pickle
import sys

sys.path.insert(0, os.environ["OLREPO"])
import oneliner
from oneliner import Configs

bad = False
SRC = "x = 1\nprint(x)\n"

cfg = Configs()
try:
    cfg.unparsr = "oneliner"  # typo
    out = oneliner.convert_code_string(SRC, configs=cfg)
    print("misspelt option accepted silently; vars(cfg) =", vars(cfg), "-> output still from ast.unparse:", " := " in out)
    bad = True
except AttributeError:
    pass


class Mine(Configs):
    expr_wrapper = "Chain_Call"  # invalid value, plain attribute: no validation


try:
    out = oneliner.convert_code_string(SRC, configs=Mine())
    print("subclass with invalid expr_wrapper 'Chain_Call' accepted; default is chain_call, got:", out)
    bad = True
except ValueError:
    pass

stale = Configs()
stale.__dict__["unparser"] = "oneliner-v2"  # what unpickling an object of another version does
stale = pickle.loads(pickle.dumps(stale))
try:
    out = oneliner.convert_code_string(SRC, configs=stale)
    print("unpickled object with unparser='oneliner-v2' accepted, silently uses ast.unparse:", out)
    bad = True
except ValueError:
    pass

for label, f in {
    "Configs(unparser='oneliner')": lambda: Configs(unparser="oneliner"),
    "del cfg.unparser": lambda: delattr(cfg, "unparser"),
}.items():
    try:
        f()
    except Exception as e:
        print(f"{label}: {type(e).__name__}: {e}")
a, b = Configs(), Configs()
print("two default Configs compare equal:", a == b, "| repr:", repr(a)[:40])
sys.exit(1 if bad else 0)
